#!/usr/bin/env python3
"""Mutation test of the C-side rules: single-token mutants of kernel_iq.c / kernel_header.c (or another C file) in a
scratch copy of /repo, each checked by the properties whose rules read the generated units.  A mutant that every check
passes is a survivor: an equivalent mutant, code outside every property, or a hole.
usage: tools/c_mutation_test.py <file relative to /repo> [max mutants] [props,comma]
"""
import os, re, random, shutil, subprocess, sys, tempfile
from concurrent.futures import ThreadPoolExecutor
HERE = os.path.dirname(os.path.dirname(os.path.abspath(__file__)))
rel = sys.argv[1]
limit = int(sys.argv[2]) if len(sys.argv) > 2 else 100
props = (sys.argv[3] if len(sys.argv) > 3 else "C01,C05,C06,C07,C09,C11,C14,C16").split(",")
src = open(os.path.join("/repo", rel)).read().split("\n")

MUTS = [(r"\+=", "-="), (r"-=", "+="), (r"\*=", "/="), (r"<=", "<"), (r">=", ">"), (r"(?<![<>=!])<(?![<=])", "<="), (r"(?<![<>=!-])>(?![>=])", ">="),
        (r"==", "!="), (r"!=", "=="), (r"&&", "||"), (r"\|\|", "&&"), (r"(?<=[\w\)\]]) \+ (?=[\w\(])", " - "), (r"(?<=[\w\)\]]) - (?=[\w\(])", " + "),
        (r"(?<=[\w\)\]])\*(?=[\w\(])", "/"), (r"(?<=[\w\)\]]) \* (?=[\w\(])", " / "), (r"(?<=[\w\)\]])/(?=[\w\(])", "*"),
        (r"\b0\.5\b", "0.25"), (r"\b2\.0\b", "3.0"), (r"\b1\.0\b", "2.0"), (r"\bnq\+1\b", "nq+2"), (r"\bnq\+2\b", "nq+1"), (r"\+\+", "--"),
        (r"\bsin\(", "cos("), (r"\bcos\(", "sin("), (r"\bfabs\(", "("), (r"\bpd_start\b", "pd_stop"), (r"\[(\w+)\+1\]", r"[\1]")]


def candidates():
    out = []
    in_comment = False
    for i, line in enumerate(src):
        s = line.strip()
        if in_comment:
            if "*/" in s:
                in_comment = False
            continue
        if s.startswith("/*") and "*/" not in s:
            in_comment = True
            continue
        if not s or s.startswith(("//", "*", "/*", "#include", "#error", "#pragma")):
            continue
        code = line.split("//")[0]
        for pat, rep in MUTS:
            for m in re.finditer(pat, code):
                new = code[:m.start()] + re.sub(pat, rep, code[m.start():], count=1)
                if new != code:
                    out.append((i, "L%d `%s` -> `%s`" % (i + 1, code.strip()[:70], new.strip()[:70]), new))
        # statement deletion
        if s.endswith(";") and not s.startswith(("const ", "double ", "int ", "return", "typedef", "}", "{", "#")) and "=" in s and "for" not in s:
            out.append((i, "L%d delete `%s`" % (i + 1, s[:70]), re.match(r"\s*", line).group(0) + ";"))
    return out


def run_one(item):
    k, (i, desc, newline) = item
    tmp = tempfile.mkdtemp(prefix="cmut_")
    dst = os.path.join(tmp, "repo")
    try:
        os.makedirs(dst, exist_ok=True); subprocess.check_call("git -C /repo archive HEAD | tar -x -C %s" % dst, shell=True)
        lines = list(src)
        lines[i] = newline
        open(os.path.join(dst, rel), "w").write("\n".join(lines))
        env = dict(os.environ, SASMODELS_REPO=dst, SA_EVIDENCE_DIR=os.path.join(tmp, "ev"), SA_SELFTEST_CHILD="1", SA_SCRATCH=tmp)
        os.makedirs(env["SA_EVIDENCE_DIR"])
        fired = []
        for pid in props:
            r = subprocess.run([os.path.join(HERE, "bin", "check"), pid], env=env, capture_output=True, text=True)
            if r.returncode != 0:
                rules = sorted(set(re.findall(r"^  (R-\S+)", r.stdout, re.M))) or ["exit%d" % r.returncode]
                fired.append("%s:%s" % (pid, ",".join(rules[:3])))
                break       # one detection is enough
        return desc, fired
    finally:
        shutil.rmtree(tmp, ignore_errors=True)


cands = candidates()
random.seed(int(os.environ.get("CMUT_SEED", "12345")))
random.shuffle(cands)
cands = cands[:limit]
print("mutants:", len(cands), "of", rel, flush=True)
surv = 0
with ThreadPoolExecutor(max_workers=8) as ex:
    for desc, fired in ex.map(run_one, enumerate(cands)):
        if fired:
            print("CAUGHT   %s  [%s]" % (desc, fired[0]), flush=True)
        else:
            surv += 1
            print("SURVIVOR %s" % desc, flush=True)
print("total=%d survivors=%d" % (len(cands), surv))
