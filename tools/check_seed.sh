#!/bin/bash
# phase 2 of try_seed.sh (serial): apply to /repo, run the property's check, undo
id=$1; dir=$2; prop=${3:-$id}
cd /verif
git -C /repo apply $dir/patch.diff || { echo "cannot apply to /repo"; exit 7; }
SA_EVIDENCE_DIR=$(mktemp -d /tmp/seed_ev_XXXX) bin/check $prop > $dir/verify_check.log 2>&1; c=$?
git -C /repo checkout -- .
echo "seed $id: check $prop exit=$c"
grep "^  R-\|VIOLATION\|ANALYSIS" $dir/verify_check.log | cut -c1-300 | head -6
