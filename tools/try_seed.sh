#!/bin/bash
# usage: tools/try_seed.sh <ID> <seed dir>   (maintenance helper; never run by a check)
# 1. verifies the seeded change in a fresh scratch worktree (demo passes without, fails with, test suite unchanged)
# 2. applies it to /repo, runs the property's check, and undoes it straight afterwards
id=$1; dir=$2; prop=${3:-$id}
wt=/tmp/vw_$id
git -C /repo worktree remove --force $wt 2>/dev/null
git -C /repo worktree add -q --detach $wt HEAD || exit 9
cd $wt
PYTHONPATH=$wt /venv/bin/python $dir/demo.py > $dir/verify_demo_without.log 2>&1; a=$?
git apply $dir/patch.diff || { echo "PATCH DOES NOT APPLY"; git -C /repo worktree remove --force $wt; exit 8; }
PYTHONPATH=$wt /venv/bin/python $dir/demo.py > $dir/verify_demo_with.log 2>&1; b=$?
PYTHONPATH=$wt /venv/bin/python -m pytest -q -p no:cacheprovider --timeout=900 --continue-on-collection-errors > $dir/verify_tests.log 2>&1
t=$(tail -1 $dir/verify_tests.log)
cd /verif
git -C /repo worktree remove --force $wt
echo "seed $id: demo without=$a with=$b tests: $t"
git -C /repo apply $dir/patch.diff || { echo "cannot apply to /repo"; exit 7; }
bin/check $prop > $dir/verify_check.log 2>&1; c=$?
git -C /repo checkout -- .
echo "seed $id: check $prop exit=$c"
grep "^  R-\|VIOLATION\|ANALYSIS" $dir/verify_check.log | cut -c1-260 | head -8
