#!/usr/bin/env python3
"""Regenerates MANIFEST.json from the table below (maintenance helper, not a check)."""
import json, os, subprocess

HERE = os.path.dirname(os.path.dirname(os.path.abspath(__file__)))

CLAIMED = {
    # id: (technique, level text, level note, design ref)
    "C20": ("AST key-flow analysis of convert.py + literal table/parameter-table agreement",
            "Static: every row x attribute suffix x use_underscore of the conversion table is pushed as a key through "
            "the stage order read from convert_model's AST and must end in a parameter name read from the target "
            "model's literal table; tuple/str type rule; reverse-lookup coverage; suffix-table agreement. "
            "Decides where names end up for every table entry, not the values carried.",
            "Trusted: dict/str builtin semantics; model parameter tables are literals. Not decided: numeric "
            "hand conversions and the 1e6 SLD rescale.", "C20"),
    "C08": ("AST data-dependence + affine layout algebra on mixture.py",
            "Static: the init/accumulate decision of MixtureKernel.Iq may not read accumulated values; _MixtureParts slice "
            "arithmetic equals make_mixture_info's append order as linear forms (all part counts, both operators); "
            "per-part (scale_k|1, 0); return formula; parser precedence.",
            "Trusted: numpy slicing. Not decided: numeric equality with separately evaluated parts.", "C08"),
    "C11": ("interprocedural parameter-mutation effect analysis (reaching-definition alias tracking on a CFG)",
            "Static: no public evaluation entry point mutates a caller-owned dict/array directly, through a view or in "
            "a resolved callee; no view of the reused result buffer is returned; shared scratch vector overwritten "
            "before use; who-may-write table for module state; library-handle typestate.",
            "Trusted: numpy view/copy semantics; unresolved callees are listed as notes. Not decided: bit-identity "
            "of results across call histories.", "C11"),
    "C15": ("regex automata (re._parser -> NFA/DFA, language equality against C99 grammar) + dispatch table agreement",
            "Static: exact language of FLOAT_RE and its zero-width context, extent stability, keyword regex structure "
            "and consumed-context overlap, tgmath list and integer grammar, replacement templates, dtype dispatch "
            "tables (convert_type, ctypes, numpy, dll name, FLOAT_SIZE conditionals, parse_dtype); converted token streams "
            "and single-precision OpenCL front-end acceptance of every model; float-range headroom of single-safe shape models "
            "(no intermediate of higher length degree than the value computed).",
            "Trusted: re.sub left-to-right semantics; reference grammars from C99 6.4.4.2. Not decided: that converted "
            "kernels agree numerically (rounding error is not bounded).", "C15"),
    "C18": ("typestate/def-use analysis of the cache path on make_dll's CFG",
            "Static: the cache path is only tested, logged, derived from, renamed onto and returned; the compiler "
            "writes a distinct temporary in the cache directory; the rename is dominated by the raising compile call; "
            "the loader opens only the published path; the entry points the loaders look up are the names the generator "
            "defines. Decides the shape that makes every interleaving and kill point safe.",
            "Trusted: rename(2) atomicity in one directory; compiler writes only its -o argument.", "C18"),
    "C02": ("sympy normal forms (log-derivative identity) of Dispersion._weights + AST mask/plumbing rules",
            "Static: each distribution's weight expression has the same d/dx log as the documented density (proportional "
            "for every x, centre, sigma); support widths; inclusive limit masks in all 7 classes with weights computed "
            "from the masked values; centre/width resolution; unit sum; relative_pd plumbing through 3 interfaces.",
            "Trusted: numpy elementwise semantics; symbols positive. Not decided: finiteness/monotonicity of the numbers.", "C02"),
    "C03": ("AST role inference for sibling-argument contradictions, signature binding, post-dominance, linearity typing",
            "Static: callees sharing same-meaning formals receive the same actuals; every resolved library call binds; "
            "pinhole normalisation post-dominates truncation; n-sigma window agreement; positive-q ordering; apply is "
            "linear; background added after smearing; one common index.",
            "Trusted: numpy linear operators. Not decided: numeric row sums of the slit matrices, zero-width identity.", "C03"),
    "C04": ("sympy normal-form comparison of resolution formulas read from the AST",
            "Static: erf argument, bin edges, (2.5,3) window and masks, slit u-substitution limits/prefactors/trip count, "
            "2-D ring mass and polar rotation equal the documented expressions as rational/trig normal forms.",
            "Formula agreement only. Not decided: convergence, rate, error bounds (numerical analysis).", "C04"),
    "C19": ("sympy normal forms through in-place NumPy updates + linearity typing",
            "Static: H = J0(q xi) q dq/2pi and H0 = q dq/2pi share one weight vector; apply = H.I - H0.I is linear; log grid "
            "with ratio > 1; acceptance mask polarity; background forced to 0 for SESANS; constructor binding.",
            "Not decided: quadrature accuracy against known Hankel pairs.", "C19"),
    "C10": ("AST/CFG post-dominance of the unknown-name refusal + table agreement across interfaces",
            "Static: the left-over test post-dominates the pop-based consumption in get_mesh and create_parameters; "
            "setParam/getParam end in raise on every non-matching path; suffix/default tables agree across direct, "
            "bumps, sasview and convert; each data branch builds one index from q range, mask==0 and ~isnan; hidden "
            "parameters; all interfaces share make_kernel_args/_calc_theory.",
            "Not decided: numeric equality of the theory across interfaces.", "C10"),
    "C17": ("def-use slice of the cache name and compiled text in make_dll + freshness/mtime-guard rules",
            "Static: library name depends on the whole generated source (CRC32), dtype bits and model id; the compiled "
            "text depends on nothing else; every piece make_source concatenates is read at call time or via an "
            "mtime-guarded cache and reaches the result; need_reload covers the module file and its C sources.",
            "Trusted: CRC32 distinguishes the texts in play; mtimes advance on edit. Edit histories are not executed.", "C17"),
    "C01": ("clang JSON AST rules on all generated kernels + Python layout/dominance/normal-form rules",
            "Static, on all 61 generated translation units x 3 kernels: accumulator carry/reset pairing, VALID and strict "
            "cutoff gates on every accumulation, per-level loop restart protocol; Python side: struct vs buffer layout, value "
            "vector, strides, max_pd refusal dominating truncation, chunk tiling in 3 drivers, normal form of Fq/Iq with zero "
            "guards, loop-slot guarantee for truncated distributions.  The OpenCL configuration of the same 61 units "
            "(clang -x cl on make_source()['opencl']) is decided too: work-item bound, carried q-point sums, gated accumulation; "
            "and the dll/OpenCL/CUDA Python drivers are cross-checked as siblings (argument order, result size, read-back, "
            "kernel selection, q layout).",
            "Trusted: clang's preprocessing equals the compiler's (and clang's OpenCL C front end the device compiler's). Not "
            "decided: the numeric identity with the weighted mean; the CUDA configuration of the kernel text.", "C01"),
    "C05": ("symbolic interpretation of the rotation helpers (clang AST) vs jitter.py's matrices, polynomial identity in sympy",
            "Static: rotation entries of qabc_rotation/qac_rotation equal the inverse of Rz Ry Rz Rx Ry Rz built from jitter.py; "
            "view/jitter slots, |cos| weight, zero-centred jitter, orientation excluded from 1-D, |q| only for unoriented models, "
            "in every unit.",
            "Not decided: numeric invariance statements (they follow from the matrices).", "C05"),
    "C06": ("symbolic interpretation of set_spin_weights/mag_sld (guards enumerated) + structural rules on Imagnetic kernels",
            "Static: channel weights in both guard cases, effective SLD per channel (Halpern-Johnson, orthonormal frame), "
            "channel loop and slot arithmetic in all 45 magnetic units, append order, polar->rectangular conversion, kernel "
            "selection by the magnetic flag; model-call arguments evaluated after the SLD substitution (builtin units and an "
            "SLD-translation witness).",
            "Not decided: equality with recombined non-magnetic evaluations.", "C06"),
    "C07": ("affine layout algebra + normal forms + dominance on product.py",
            "Static: every index/slice of ProductKernel equals the offset implied by make_product_info's assembly order as a "
            "linear form (all P,S pairs, 8 mode combinations); combination formula in 4 guard cases; injections dominate the S "
            "call; reported intermediates are the captured values; S guards precede table construction.",
            "Not decided: numeric equality with separate P and S evaluations.", "C07"),
    "C09": ("sibling cross-check: C writer (clang AST, all units) vs Python _loops vs reader; call-site/table agreement",
            "Static: result layout three ways, volume tuple order, gates, call arguments of every model call in every unit "
            "against the parameter table (order, arity) and against PyKernel's views; enumerated validations end in raise and "
            "are reachable from make_model_info.",
            "Not decided: equality of generated-plugin evaluations.", "C09"),
    "C14": ("case-label exhaustiveness + symbolic eq-volume-sphere check on every unit's radius_effective",
            "Static: mode list <-> case labels for all 30 models; every 'equivalent (outer) volume sphere' case satisfies "
            "4/3 pi R^3 = form_volume as normal forms; F^2,F interleave writer vs reader; I uses the reported shell volume.",
            "Not decided: 0 <= <F>^2 <= <F^2>, positivity, finiteness.", "C14"),
    "C16": ("AST def-use on the macro generator + clang AST of a reparameterised witness unit + regex automaton",
            "Static: all CALL_*/VALID macros built from base table through subs; witness unit: intermediates before VALID, VALID "
            "guards every call in 3 kernels, qualified identifiers; _IDENT_RE language; ordered table derivation.",
            "One witness reparameterisation (generator has no model-specific branch). Not decided: numeric equality with base.", "C16"),
    "C13": ("units (homogeneity) type system over the clang AST of the in-scope shape models",
            "Static: every arithmetic node of Iq/Fq/Iqac/Iqabc/form_volume/shell_volume/radius_effective is typed with a "
            "(length, SLD) degree from the declared unit strings; well-typedness with the right return degrees implies the "
            "scaling law for all inputs; C signatures do not contradict the table; unit strings agree with types.",
            "Literals are dimensionless; thresholds compare but do not compute. Unresolved functions are reported as "
            "unanalysed, never as violations. Not decided: the numeric statement itself.", "C13"),
}

NOT_APPLICABLE = {
    "C12": "Equality of two numerical quadratures written differently in each of 21 models; no structural clause "
           "that is a necessary condition of the property can be named, so static analysis does not apply.",
}

PENDING_REASON = "check not built yet in this commit (static rule set designed in DESIGN.md, implementation pending)"


REF_PROPS = {"C01", "C02", "C03", "C04", "C05", "C06", "C07", "C08", "C09", "C10", "C11", "C13", "C14", "C15", "C16", "C17", "C18", "C19", "C20"}
REF_TECH = "; value-numbering folds (global value numbering over the Python syntax tree) of the functions on the property's " \
           "evaluation path compared with their confirmed reference bodies"
REF_TEXT = " In addition every library function on the property's evaluation path must fold (returned value, visible effects, " \
           "refusals, calls with their path conditions, signature, constants read) to its confirmed reference; renames, " \
           "temporaries, statement order of independent statements and branch polarity are not differences."


def main():
    props = [json.loads(l)["id"] for l in open(os.path.join(HERE, "properties.jsonl"))]
    checks = []
    na = []
    for pid in props:
        if pid in CLAIMED:
            tech, text, note, ref = CLAIMED[pid]
            if pid in REF_PROPS:
                tech, text = tech + REF_TECH, text + REF_TEXT
            checks.append({
                "property_id": pid,
                "quick_cmd": "bin/check %s --tier quick" % pid,
                "thorough_cmd": "bin/check %s --tier thorough" % pid,
                "evidence_file": "evidence/%s.json" % pid,
                "replay_cmd_template": "bin/check %s --replay {path}" % pid,
                "engine": "sa",
                "level_claimed": {"category": "other", "text": text, "design_ref": "DESIGN.md section 2, " + ref},
                "level_note": note,
                "technique": "static analysis: " + tech,
            })
        elif pid in NOT_APPLICABLE:
            na.append({"property_id": pid, "reason": NOT_APPLICABLE[pid]})
        else:
            na.append({"property_id": pid, "reason": PENDING_REASON})
    try:
        commits = subprocess.check_output(
            ["git", "-C", "/repo", "log", "--format=%h %s", "e7d12698..HEAD"], text=True).strip().splitlines()
    except Exception:
        commits = []
    manifest = {
        "version": 1,
        "setup_cmd": "bin/setup",
        "hooks": {
            "guard": "SASMODELS_VERIF",
            "enable": "no source hooks are needed: the checks read /repo's working tree (ast, clang -fsyntax-only); "
                      "the guard variable is unused",
            "baseline_off_cmd": "cd /repo && /venv/bin/python -m pytest -ra -q -p no:cacheprovider --timeout=900 "
                                "--continue-on-collection-errors",
            "source_commits": [c for c in commits if " fix:" in c or c.split(" ", 1)[1].startswith("fix:")],
            "add_only": True,
        },
        "engines": [{
            "name": "sa", "path": "sa/",
            "serves_properties": sorted(CLAIMED),
            "kind_free_text": "repository-specific static analysis: Python ast rules with a statement CFG/dominators, "
                              "literal table readers, clang JSON AST of the generated C units, sympy normal forms, "
                              "value numbering of Python function bodies against reference folds, alpha/semantic alignment "
                              "of refactored functions, regex automata; no execution of sasmodels code decides a verdict",
        }],
        "checks": checks,
        "not_applicable": na,
        "notes": "Every check exits 0 / 1 (VIOLATION line) / 2 (ANALYSIS-ERROR: the analysis could not be carried "
                 "out). known_findings.json lists genuine defects recorded rather than repaired.",
    }
    with open(os.path.join(HERE, "MANIFEST.json"), "w") as fd:
        json.dump(manifest, fd, indent=1)
        fd.write("\n")


if __name__ == "__main__":
    main()
