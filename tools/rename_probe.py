#!/usr/bin/env python3
"""Probe for rename brittleness: copy /repo to a scratch dir, rename every non-parameter local of every library
function (x -> x_rn), and run all checks against the copy.  Every alarm is a false alarm."""
import ast, os, shutil, subprocess, sys, tempfile
sys.path.insert(0, os.path.join(os.path.dirname(os.path.abspath(__file__)), ".."))
from sa import alpha
repo = "/repo"
tmp = tempfile.mkdtemp(prefix="rnprobe_")
dst = os.path.join(tmp, "repo")
# copy of the committed tree (seeded changes may be applied to the working tree while this runs)
os.makedirs(dst, exist_ok=True)
subprocess.check_call("git -C %s archive HEAD | tar -x -C %s" % (repo, dst), shell=True)
only = set(sys.argv[2:])  # optional file filter
n = 0
for f in sorted(os.listdir(os.path.join(dst, "sasmodels"))):
    if not f.endswith(".py") or (only and f not in only):
        continue
    p = os.path.join(dst, "sasmodels", f)
    tree = ast.parse(open(p).read())
    changed = False
    def walk(node):
        global n, changed
        for child in ast.iter_child_nodes(node):
            if isinstance(child, (ast.FunctionDef, ast.AsyncFunctionDef)):
                params = {a.arg for x in ast.walk(child) if isinstance(x, ast.arguments) for a in x.args + x.kwonlyargs + x.posonlyargs + ([x.vararg] if x.vararg else []) + ([x.kwarg] if x.kwarg else [])}
                bound = alpha._bound(child) - params
                nested = {x.name for x in ast.walk(child) if isinstance(x, (ast.FunctionDef, ast.ClassDef)) and x is not child}
                bound -= nested
                bound -= {(a.asname or a.name) for x in ast.walk(child) if isinstance(x, (ast.Import, ast.ImportFrom)) for a in x.names}
                bound -= {x.name for x in ast.walk(child) if isinstance(x, ast.ExceptHandler) and x.name}
                for nd, attr in alpha._sites(child):
                    v = getattr(nd, attr)
                    if v in bound and isinstance(nd, ast.Name):
                        setattr(nd, attr, v + "_rn"); changed = True; n += 1
            elif isinstance(child, (ast.ClassDef, ast.If, ast.Try, ast.With, ast.For, ast.While)):
                walk(child)
    walk(tree)
    if changed:
        open(p, "w").write(ast.unparse(tree) + "\n")
print("renamed occurrences:", n, "in", dst)
env = dict(os.environ, SASMODELS_REPO=dst, SA_EVIDENCE_DIR=os.path.join(tmp, "ev"), SA_SELFTEST_CHILD="1")
os.makedirs(env["SA_EVIDENCE_DIR"])
props = sys.argv[1].split(",") if len(sys.argv) > 1 and sys.argv[1] != "all" else ["C%02d" % i for i in range(1, 21) if i != 12]
bad = 0
for pid in props:
    r = subprocess.run([os.path.join(os.path.dirname(os.path.abspath(__file__)), "..", "bin", "check"), pid], env=env, capture_output=True, text=True)
    lines = [l for l in r.stdout.splitlines() if l.startswith(("VIOLATION", "ANALYSIS", "  R-", "OK"))]
    print(pid, "exit", r.returncode)
    if r.returncode:
        bad += 1
        print("\n".join(l[:260] for l in r.stdout.splitlines()[:14]))
shutil.rmtree(tmp)
sys.exit(1 if bad else 0)
