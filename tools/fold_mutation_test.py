#!/usr/bin/env python3
"""Discrimination test of the E-val equivalence used by the reference rules and by semantic alignment.

For every function with a reference body (or only the curated ones), generate single-site semantic mutants of the
reference AST (statement deletion, operator / comparison / constant / condition / argument-order / name / keyword /
augmented-assignment / return mutations) and require refs.differences(mutant, reference) to be non-empty.  A survivor is
either an equivalent mutant (to be explained) or a hole in the fold (to be fixed) - the equivalence must never call a
behavioural change "the same".
usage: tools/fold_mutation_test.py [curated|all] [module ...]
"""
import ast, copy, os, sys, time
from concurrent.futures import ProcessPoolExecutor
sys.path.insert(0, os.path.join(os.path.dirname(os.path.abspath(__file__)), ".."))
os.environ["SA_NO_SEMALIGN"] = "1"
from sa import refs, pyval

NOOP = pyval.NOOP_CALLS


def in_skipped(node, parents):
    """Sites whose mutation is invisible by design: raise statements (messages), logging calls, docstrings, asserts' messages."""
    p = node
    while p is not None:
        if isinstance(p, ast.Raise):
            return True
        if isinstance(p, ast.Call):
            f = p.func
            nm = ast.unparse(f)
            if nm.startswith(NOOP):
                return True
        if isinstance(p, ast.Assert) and node is not p and p.msg is not None and any(node is x for x in ast.walk(p.msg)):
            return True
        if isinstance(p, ast.arguments):
            pass
        p = parents.get(p)
    return False


def mutants(fn):
    """Yield (description, mutated FunctionDef)."""
    base = fn
    nodes = list(ast.walk(base))
    parents = {}
    for n in nodes:
        for c in ast.iter_child_nodes(n):
            parents[c] = n
    index = {id(n): i for i, n in enumerate(nodes)}

    def clone_with(i, edit):
        g = copy.deepcopy(base)
        gn = list(ast.walk(g))
        gp = {}
        for n in gn:
            for c in ast.iter_child_nodes(n):
                gp[c] = n
        r = edit(gn[i], gp)
        return g if r is not False else None
    locals_ = sorted({n.id for n in nodes if isinstance(n, ast.Name) and isinstance(n.ctx, ast.Store)} | {a.arg for a in base.args.args})
    for i, n in enumerate(nodes):
        if n is base:
            continue
        if in_skipped(n, parents):
            continue
        par = parents.get(n)
        # annotations / decorators / default of the outer def are not body semantics handled elsewhere
        if isinstance(par, ast.arg) or isinstance(n, ast.arg):
            continue
        ln = getattr(n, "lineno", 0)
        if isinstance(n, ast.stmt) and not isinstance(n, (ast.FunctionDef, ast.ClassDef, ast.Import, ast.ImportFrom, ast.Pass, ast.Global, ast.Nonlocal)):
            if isinstance(n, ast.Expr) and isinstance(n.value, ast.Constant):
                continue
            if isinstance(n, ast.Expr) and isinstance(n.value, ast.Call) and ast.unparse(n.value.func).startswith(NOOP):
                continue
            def delete(node, gp):
                p = gp[node]
                for field in ("body", "orelse", "finalbody"):
                    blk = getattr(p, field, None)
                    if isinstance(blk, list) and any(x is node for x in blk):
                        k = [j for j, x in enumerate(blk) if x is node][0]
                        blk[k] = ast.Pass()
                        return True
                return False
            g = clone_with(i, delete)
            if g is not None:
                yield ("L%d delete `%s`" % (ln, ast.unparse(n).split("\n")[0][:60]), g)
        if isinstance(n, ast.BinOp):
            swap = {ast.Add: ast.Sub, ast.Sub: ast.Add, ast.Mult: ast.Div, ast.Div: ast.Mult, ast.Mod: ast.FloorDiv, ast.FloorDiv: ast.Mod,
                    ast.Pow: ast.Mult, ast.BitAnd: ast.BitOr, ast.BitOr: ast.BitAnd}
            if type(n.op) in swap and not (isinstance(n.op, ast.Mod) and isinstance(n.left, ast.Constant) and isinstance(n.left.value, str)):
                new = swap[type(n.op)]
                yield ("L%d binop %s -> %s in `%s`" % (ln, type(n.op).__name__, new.__name__, ast.unparse(n)[:50]),
                       clone_with(i, lambda node, gp, new=new: setattr(node, "op", new())))
        if isinstance(n, ast.Compare) and len(n.ops) == 1:
            flip = {ast.Lt: ast.LtE, ast.LtE: ast.Lt, ast.Gt: ast.GtE, ast.GtE: ast.Gt, ast.Eq: ast.NotEq, ast.NotEq: ast.Eq,
                    ast.Is: ast.IsNot, ast.IsNot: ast.Is, ast.In: ast.NotIn, ast.NotIn: ast.In}
            new = flip[type(n.ops[0])]
            yield ("L%d compare %s -> %s in `%s`" % (ln, type(n.ops[0]).__name__, new.__name__, ast.unparse(n)[:50]),
                   clone_with(i, lambda node, gp, new=new: setattr(node, "ops", [new()])))
        if isinstance(n, ast.Constant) and not isinstance(par, ast.Expr) and not isinstance(par, ast.JoinedStr):
            v = n.value
            if isinstance(v, bool):
                nv = not v
            elif isinstance(v, (int, float)):
                nv = v + 1
            elif isinstance(v, str):
                nv = v + "_"
            else:
                nv = None
            if nv is not None:
                yield ("L%d constant %r -> %r" % (ln, v, nv), clone_with(i, lambda node, gp, nv=nv: setattr(node, "value", nv)))
        if isinstance(n, (ast.If, ast.IfExp, ast.While)):
            yield ("L%d negate test `%s`" % (ln, ast.unparse(n.test)[:50]),
                   clone_with(i, lambda node, gp: setattr(node, "test", ast.UnaryOp(ast.Not(), node.test))))
        if isinstance(n, ast.Call):
            if len(n.args) >= 2 and ast.dump(n.args[0]) != ast.dump(n.args[1]) and not any(isinstance(a, ast.Starred) for a in n.args[:2]):
                def sw(node, gp):
                    node.args[0], node.args[1] = node.args[1], node.args[0]
                yield ("L%d swap args of `%s`" % (ln, ast.unparse(n)[:50]), clone_with(i, sw))
            if n.keywords:
                def dk(node, gp):
                    node.keywords = node.keywords[1:]
                yield ("L%d drop keyword %s of `%s`" % (ln, n.keywords[0].arg, ast.unparse(n)[:50]), clone_with(i, dk))
        if isinstance(n, ast.Name) and isinstance(n.ctx, ast.Load) and n.id in locals_ and len(locals_) > 1:
            other = locals_[(locals_.index(n.id) + 1) % len(locals_)]
            yield ("L%d name %s -> %s" % (ln, n.id, other), clone_with(i, lambda node, gp, other=other: setattr(node, "id", other)))
        if isinstance(n, ast.AugAssign):
            def toassign(node, gp):
                p = gp[node]
                for field in ("body", "orelse", "finalbody"):
                    blk = getattr(p, field, None)
                    if isinstance(blk, list) and any(x is node for x in blk):
                        k = [j for j, x in enumerate(blk) if x is node][0]
                        blk[k] = ast.Assign([node.target], node.value, lineno=node.lineno)
                        for t in ast.walk(blk[k].targets[0]):
                            if hasattr(t, "ctx") and t is blk[k].targets[0]:
                                t.ctx = ast.Store()
                        return True
                return False
            yield ("L%d augassign -> assign `%s`" % (ln, ast.unparse(n)[:50]), clone_with(i, toassign))
        if isinstance(n, ast.Return) and n.value is not None and not (isinstance(n.value, ast.Constant) and n.value.value is None):
            yield ("L%d return None instead of `%s`" % (ln, ast.unparse(n.value)[:40]),
                   clone_with(i, lambda node, gp: setattr(node, "value", ast.Constant(None))))
        if isinstance(n, ast.Break):
            def tocont(node, gp):
                p = gp[node]
                for field in ("body", "orelse", "finalbody"):
                    blk = getattr(p, field, None)
                    if isinstance(blk, list) and any(x is node for x in blk):
                        k = [j for j, x in enumerate(blk) if x is node][0]
                        blk[k] = ast.Continue()
                        return True
                return False
            yield ("L%d break -> continue" % ln, clone_with(i, tocont))
        if isinstance(n, ast.Subscript) and isinstance(n.ctx, ast.Load) and isinstance(n.slice, ast.Slice) and n.slice.lower is not None:
            def sl(node, gp):
                node.slice.lower = None
            yield ("L%d drop slice lower bound `%s`" % (ln, ast.unparse(n)[:40]), clone_with(i, sl))


def work(item):
    rel, qual, text = item
    ref_fn = ast.parse(text).body[0]
    out = []
    n = 0
    t0 = time.time()
    for desc, g in mutants(ref_fn):
        if g is None:
            continue
        ast.fix_missing_locations(g)
        try:
            compile(ast.Module(body=[g], type_ignores=[]), "<m>", "exec")
        except Exception:
            continue
        n += 1
        try:
            d = refs.differences(g, ast.parse(text).body[0], {})
        except Exception as e:
            d = [("error", str(e)[:80], None)]
        if not d:
            out.append(desc)
        if time.time() - t0 > 600:
            out.append("(time budget reached after %d mutants)" % n)
            break
    return rel, qual, n, out


def main():
    scope = sys.argv[1] if len(sys.argv) > 1 else "curated"
    mods = set(sys.argv[2:])
    bodies = refs._bodies()
    items = []
    for rel, entry in sorted(bodies.items()):
        m = rel[len("sasmodels/"):-3]
        if mods and m not in mods:
            continue
        for qual, text in sorted(entry["bodies"].items()):
            if scope == "curated" and qual not in refs.CURATED.get(m, {}):
                continue
            if qual.startswith("test_") or ".test_" in qual:
                continue
            items.append((rel, qual, text))
    total = surv = 0
    with ProcessPoolExecutor(max_workers=16) as ex:
        for rel, qual, n, out in ex.map(work, items, chunksize=1):
            total += n
            surv += len(out)
            for o in out:
                print("SURVIVOR %s:%s  %s" % (rel, qual, o), flush=True)
    print("functions=%d mutants=%d survivors=%d" % (len(items), total, surv))


if __name__ == "__main__":
    main()
