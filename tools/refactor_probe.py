#!/usr/bin/env python3
"""Probe for refactor brittleness: apply behaviour-preserving rewrites to every library function in a scratch copy of
/repo and run all checks against the copy.  Every alarm is a false alarm.

kinds: temp  (x = A op B  ->  _t = A; x = _t op B)
       ret   (return E    ->  _r = E; return _r)
       neg   (if c: X else: Y  ->  if not c: Y else: X)
       swap  (adjacent independent call-free assignments exchanged)
       ifexp (x = a if c else b  ->  if c: x = a / else: x = b)
       fnrename (module-level private function _f renamed to _f_rn at its definition and at every use in its module)
       addkw (every library function gains a keyword-only parameter `_probe=None`)
       cmpflip (a < b -> b > a, a >= b -> b <= a, a == b -> b == a for single comparisons)
usage: tools/refactor_probe.py <props|all> kind[,kind...] [file.py ...]
"""
import ast, os, shutil, subprocess, sys, tempfile
kinds = set(sys.argv[2].split(","))
only = set(sys.argv[3:])
repo = "/repo"
tmp = tempfile.mkdtemp(prefix="rfprobe_")
dst = os.path.join(tmp, "repo")
# copy of the committed tree (seeded changes may be applied to the working tree while this runs)
os.makedirs(dst, exist_ok=True)
subprocess.check_call("git -C %s archive HEAD | tar -x -C %s" % (repo, dst), shell=True)
count = {k: 0 for k in kinds}


def names(n):
    return {x.id for x in ast.walk(n) if isinstance(x, ast.Name)}


def has_call(n):
    return any(isinstance(x, (ast.Call, ast.Subscript, ast.Attribute, ast.Yield, ast.Await)) for x in ast.walk(n))


class T(ast.NodeTransformer):
    def __init__(self):
        self.k = 0

    def fresh(self, p):
        self.k += 1
        return "%s_%d" % (p, self.k)

    def block(self, stmts):
        out = []
        for st in stmts:
            st = self.visit(st)
            if "temp" in kinds and isinstance(st, ast.Assign) and len(st.targets) == 1 and isinstance(st.targets[0], ast.Name) \
                    and isinstance(st.value, ast.BinOp) and not isinstance(st.value.left, ast.Constant):
                t = self.fresh("_t")
                out.append(ast.Assign([ast.Name(t, ast.Store())], st.value.left, lineno=st.lineno))
                st.value.left = ast.Name(t, ast.Load())
                count["temp"] += 1
            if "ret" in kinds and isinstance(st, ast.Return) and st.value is not None and not isinstance(st.value, (ast.Name, ast.Constant)):
                t = self.fresh("_r")
                out.append(ast.Assign([ast.Name(t, ast.Store())], st.value, lineno=st.lineno))
                st.value = ast.Name(t, ast.Load())
                count["ret"] += 1
            if "ifexp" in kinds and isinstance(st, ast.Assign) and len(st.targets) == 1 and isinstance(st.targets[0], ast.Name) \
                    and isinstance(st.value, ast.IfExp):
                v = st.value
                st = ast.If(v.test, [ast.Assign([ast.Name(st.targets[0].id, ast.Store())], v.body, lineno=st.lineno)],
                            [ast.Assign([ast.Name(st.targets[0].id, ast.Store())], v.orelse, lineno=st.lineno)])
                count["ifexp"] += 1
            out.append(st)
        if "swap" in kinds:
            i = 0
            while i + 1 < len(out):
                a, b = out[i], out[i + 1]
                if all(isinstance(s, ast.Assign) and len(s.targets) == 1 and isinstance(s.targets[0], ast.Name) and not has_call(s.value)
                       for s in (a, b)):
                    ta, tb = a.targets[0].id, b.targets[0].id
                    if ta != tb and ta not in names(b.value) and tb not in names(a.value):
                        out[i], out[i + 1] = b, a
                        count["swap"] += 1
                        i += 2
                        continue
                i += 1
        return out

    def generic_visit(self, node):
        for field in ("body", "orelse", "finalbody"):
            blk = getattr(node, field, None)
            if isinstance(blk, list) and blk and isinstance(blk[0], ast.stmt):
                setattr(node, field, self.block(blk))
        if isinstance(node, ast.Try):
            for h in node.handlers:
                h.body = self.block(h.body)
        if "neg" in kinds and isinstance(node, ast.If) and node.orelse and not (len(node.orelse) == 1 and isinstance(node.orelse[0], ast.If)):
            node.test = ast.UnaryOp(ast.Not(), node.test)
            node.body, node.orelse = node.orelse, node.body
            count["neg"] += 1
        return node

    def visit_ClassDef(self, node):
        node.body = [self.visit(s) if isinstance(s, (ast.FunctionDef, ast.ClassDef)) else s for s in node.body]
        return node

    def visit_Module(self, node):
        node.body = [self.visit(s) if isinstance(s, (ast.FunctionDef, ast.ClassDef)) else s for s in node.body]
        return node


class CmpFlip(ast.NodeTransformer):
    def visit_Compare(self, node):
        self.generic_visit(node)
        if len(node.ops) == 1:
            flip = {ast.Lt: ast.Gt, ast.Gt: ast.Lt, ast.LtE: ast.GtE, ast.GtE: ast.LtE, ast.Eq: ast.Eq, ast.NotEq: ast.NotEq}
            t = type(node.ops[0])
            if t in flip:
                node.left, node.comparators = node.comparators[0], [node.left]
                node.ops = [flip[t]()]
                count["cmpflip"] += 1
        return node


def fnrename(tree):
    priv = {st.name for st in tree.body if isinstance(st, ast.FunctionDef) and st.name.startswith("_") and not st.name.startswith("__")}
    # names also bound otherwise (assigned, imported) or used as strings are left alone
    for n in ast.walk(tree):
        if isinstance(n, ast.Name) and isinstance(n.ctx, ast.Store) and n.id in priv:
            priv.discard(n.id)
        if isinstance(n, ast.Constant) and isinstance(n.value, str) and n.value in priv:
            priv.discard(n.value)
        if isinstance(n, ast.alias) and (n.asname or n.name) in priv:
            priv.discard(n.asname or n.name)
    for n in ast.walk(tree):
        if isinstance(n, ast.FunctionDef) and n.name in priv and n in tree.body:
            n.name += "_rn"
            count["fnrename"] += 1
        elif isinstance(n, ast.Name) and n.id in priv:
            n.id += "_rn"
    return priv


def addkw(tree):
    def visit(node, depth):
        for ch in ast.iter_child_nodes(node):
            if isinstance(ch, ast.FunctionDef) and depth < 2:
                if not any(a.arg == "_probe" for a in ch.args.kwonlyargs) and not ch.name.startswith("__"):
                    ch.args.kwonlyargs.append(ast.arg("_probe"))
                    ch.args.kw_defaults.append(ast.Constant(None))
                    count["addkw"] += 1
            elif isinstance(ch, ast.ClassDef):
                visit(ch, depth + 1)
    visit(tree, 0)


renamed_private = {}
for root in ("sasmodels", "sasmodels/custom"):
    for f in sorted(os.listdir(os.path.join(dst, root))):
        if not f.endswith(".py") or (only and f not in only):
            continue
        p = os.path.join(dst, root, f)
        tree = ast.parse(open(p).read())
        if "fnrename" in kinds:
            renamed_private[f] = fnrename(tree)
        if "addkw" in kinds:
            addkw(tree)
        if "cmpflip" in kinds:
            for st in tree.body:
                if isinstance(st, (ast.FunctionDef, ast.ClassDef)):
                    CmpFlip().visit(st)
        tree = T().visit(tree)
        ast.fix_missing_locations(tree)
        open(p, "w").write(ast.unparse(tree) + "\n")
print("rewrites:", count, "in", dst)
r = subprocess.run(["/venv/bin/python", "-c", "import sasmodels.core, sasmodels.direct_model, sasmodels.sasview_model, sasmodels.convert, sasmodels.bumps_model; print('imports ok')"],
                   cwd=dst, env=dict(os.environ, PYTHONPATH=dst), capture_output=True, text=True)
print(r.stdout.strip() or r.stderr[-300:])
env = dict(os.environ, SASMODELS_REPO=dst, SA_EVIDENCE_DIR=os.path.join(tmp, "ev"), SA_SELFTEST_CHILD="1")
os.makedirs(env["SA_EVIDENCE_DIR"])
props = sys.argv[1].split(",") if sys.argv[1] != "all" else ["C%02d" % i for i in range(1, 21) if i != 12]
bad = 0
for pid in props:
    r = subprocess.run([os.path.join(os.path.dirname(os.path.abspath(__file__)), "..", "bin", "check"), pid], env=env, capture_output=True, text=True)
    print(pid, "exit", r.returncode)
    if r.returncode:
        bad += 1
        print("\n".join(l[:300] for l in r.stdout.splitlines() if l.startswith(("  R-", "ANALYSIS")))[:3000])
if os.environ.get("KEEP"):
    print("kept", tmp)
else:
    shutil.rmtree(tmp)
sys.exit(1 if bad else 0)
