#!/usr/bin/env python3
"""Write sa/refshape.json (local-name spellings of the functions the rules were confirmed on) from /repo's HEAD tree."""
import json, os, subprocess, sys, tempfile, shutil
sys.path.insert(0, os.path.join(os.path.dirname(os.path.abspath(__file__)), ".."))
from sa import alpha
repo = os.environ.get("SASMODELS_REPO", "/repo")
tmp = tempfile.mkdtemp(prefix="refshape_")
try:
    subprocess.check_call("git -C %s archive HEAD sasmodels | tar -x -C %s" % (repo, tmp), shell=True)
    ref = alpha.build_reference(tmp)
    from sa import refs
    bodies = refs.build_bodies(tmp)
finally:
    shutil.rmtree(tmp)
out = os.path.join(os.path.dirname(os.path.abspath(__file__)), "..", "sa", "refshape.json")
with open(out, "w") as fd:
    json.dump(ref, fd, sort_keys=True, separators=(",", ":"))
out2 = os.path.join(os.path.dirname(os.path.abspath(__file__)), "..", "sa", "refbodies.json")
with open(out2, "w") as fd:
    json.dump(bodies, fd, sort_keys=True, indent=0)
print("reference bodies:", sum(len(v["bodies"]) for v in bodies.values()), "bytes:", os.path.getsize(out2))
print("functions:", sum(len(v) for v in ref.values()), "files:", len(ref), "bytes:", os.path.getsize(out))
