#!/usr/bin/env python3
"""Write sa/refshape.json (local-name spellings of the functions the rules were confirmed on) from /repo's HEAD tree."""
import json, os, subprocess, sys, tempfile, shutil
sys.path.insert(0, os.path.join(os.path.dirname(os.path.abspath(__file__)), ".."))
from sa import alpha
repo = os.environ.get("SASMODELS_REPO", "/repo")
tmp = tempfile.mkdtemp(prefix="refshape_")
try:
    subprocess.check_call("git -C %s archive HEAD sasmodels | tar -x -C %s" % (repo, tmp), shell=True)
    ref = alpha.build_reference(tmp)
    from sa import refs
    bodies = refs.build_bodies(tmp)
    import ast as _ast
    meta = {}
    mdir = os.path.join(tmp, "sasmodels", "models")
    for f in sorted(os.listdir(mdir)):
        if f.endswith(".py") and not f.startswith("_"):
            tree = _ast.parse(open(os.path.join(mdir, f)).read())
            flags = {}
            for st in tree.body:
                if isinstance(st, _ast.Assign) and len(st.targets) == 1 and isinstance(st.targets[0], _ast.Name) \
                        and st.targets[0].id in ("single", "opencl", "structure_factor", "have_Fq"):
                    flags[st.targets[0].id] = _ast.unparse(st.value)
            meta[f[:-3]] = flags
    # the conversion table of the reference tree, constant-folded (R-C20-rows)
    code = "import json,sys; sys.path.insert(0, %r); from sa import tables; t,_ = tables.conversion_table(); json.dump({'.'.join(map(str, v)): {m: [e[0], e[1]] for m, e in rows.items()} for v, rows in t.items()}, open(%r, 'w'), sort_keys=True, indent=0)" % (
        os.path.join(os.path.dirname(os.path.abspath(__file__)), ".."),
        os.path.join(os.path.dirname(os.path.abspath(__file__)), "..", "sa", "reftable.json"))
    subprocess.check_call([sys.executable, "-c", code], env=dict(os.environ, SASMODELS_REPO=tmp))
    # C side: shapes of the generated units of the reference tree
    env = dict(os.environ, SASMODELS_REPO=tmp, SA_SCRATCH=tmp)
    code = "import json,sys; sys.path.insert(0, %r); from sa import calpha; json.dump(calpha.build_reference(), open(%r, 'w'), sort_keys=True, separators=(',', ':'))" % (
        os.path.join(os.path.dirname(os.path.abspath(__file__)), ".."),
        os.path.join(os.path.dirname(os.path.abspath(__file__)), "..", "sa", "refcshape.json"))
    subprocess.check_call([sys.executable, "-c", code], env=env)
finally:
    shutil.rmtree(tmp)
with open(os.path.join(os.path.dirname(os.path.abspath(__file__)), "..", "sa", "refmeta.json"), "w") as fd:
    json.dump(meta, fd, sort_keys=True, indent=0)
out = os.path.join(os.path.dirname(os.path.abspath(__file__)), "..", "sa", "refshape.json")
with open(out, "w") as fd:
    json.dump(ref, fd, sort_keys=True, separators=(",", ":"))
out2 = os.path.join(os.path.dirname(os.path.abspath(__file__)), "..", "sa", "refbodies.json")
with open(out2, "w") as fd:
    json.dump(bodies, fd, sort_keys=True, indent=0)
print("reference bodies:", sum(len(v["bodies"]) for v in bodies.values()), "bytes:", os.path.getsize(out2))
print("functions:", sum(len(v) for v in ref.values()), "files:", len(ref), "bytes:", os.path.getsize(out))
