#!/usr/bin/env python3
"""Maintenance helper (never run by a check): append the violations of a replay
file to known_findings.json as open findings, after they were reproduced by hand.
usage: tools/triage.py replay/C20.json "<what>" "<repro>" [rule-filter] [function-substring]"""
import json, sys
replay, what, repro = sys.argv[1:4]
rf = sys.argv[4] if len(sys.argv) > 4 else None
ff = sys.argv[5] if len(sys.argv) > 5 else None
d = json.load(open(replay))
try:
    k = json.load(open("known_findings.json"))
except FileNotFoundError:
    k = {"open": [], "fixed": []}
have = {(e["rule"], e["file"], e["function"], e["construct"]) for e in k["open"]}
n = 0
for v in d["violations"]:
    if rf and v["rule"] != rf: continue
    if ff and ff not in v["function"] and ff not in v["construct"]: continue
    key = (v["rule"], v["file"], v["function"], v["construct"])
    if key in have: continue
    k["open"].append({"property": d["property"], "rule": v["rule"], "file": v["file"],
                      "function": v["function"], "construct": v["construct"],
                      "what": what.format(**v), "repro": repro})
    n += 1
json.dump(k, open("known_findings.json", "w"), indent=1)
print("added", n)
