#!/bin/bash
# Probe for rename brittleness on the C side: rename ten locals of the kernel template in a scratch copy of /repo and run the
# eight checks that read the generated units.  Every alarm is a false alarm.
rm -rf /tmp/sc_c /tmp/sc_c_ev && mkdir /tmp/sc_c && git -C /repo archive HEAD | tar -x -C /tmp/sc_c
sed -i 's/\bweight_norm\b/wnorm/g; s/\bweighted_form\b/wform/g; s/\bweighted_shell\b/wshell/g; s/\bweighted_radius\b/wradius/g; s/\bstep\b/istep/g; s/\bpd_value\b/pdv/g; s/\bpd_weight\b/pdw/g; s/\bq_index\b/qi/g; s/\blocal_values\b/lv/g; s/\bxs_weights\b/xw/g' /tmp/sc_c/sasmodels/kernel_iq.c
sed -i 's/\bsin_theta\b/s_th/g; s/\bcos_theta\b/c_th/g; s/\bin_spin\b/ispin/g' /tmp/sc_c/sasmodels/kernel_iq.c
bad=0
cd /verif
for p in C01 C05 C06 C07 C09 C11 C14 C16; do
  SASMODELS_REPO=/tmp/sc_c SA_EVIDENCE_DIR=/tmp/sc_c_ev SA_SELFTEST_CHILD=1 SA_SCRATCH=/tmp/sc_c bin/check $p > /tmp/sc_c_out.txt 2>&1; c=$?
  echo "$p exit $c"
  if [ $c -ne 0 ]; then bad=1; grep "ANALY\|^  R-" /tmp/sc_c_out.txt | cut -c1-240 | head -5; fi
done
rm -rf /tmp/sc_c /tmp/sc_c_ev /tmp/sc_c_out.txt
exit $bad
