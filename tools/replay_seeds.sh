#!/bin/bash
# maintenance helper: apply every stored seeded change to /repo in turn, run the property's check, undo.
cd /verif
mkdir -p /tmp/replay_ev
for d in seeded/*/; do
  id=$(basename $d); prop=${id%%-*}
  if ! git -C /repo apply /verif/$d/patch.diff 2>/dev/null; then echo "$id: patch no longer applies"; continue; fi
  SA_EVIDENCE_DIR=/tmp/replay_ev bin/check $prop > /tmp/replay_$id.log 2>&1; c=$?
  git -C /repo checkout -- .
  rules=$(grep "^  R-" /tmp/replay_$id.log | awk '{print $1}' | sort -u | tr '\n' ' ')
  echo "$id: exit=$c $rules"
done
