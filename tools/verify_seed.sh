#!/bin/bash
# phase 1 of try_seed.sh only (safe to run in parallel): demo without/with the change and the pinned test suite
id=$1; dir=$2
wt=/tmp/vw_$id
git -C /repo worktree remove --force $wt 2>/dev/null
git -C /repo worktree add -q --detach $wt HEAD || exit 9
cd $wt
PYTHONPATH=$wt /venv/bin/python $dir/demo.py > $dir/verify_demo_without.log 2>&1; a=$?
git apply $dir/patch.diff || { echo "seed $id: PATCH DOES NOT APPLY"; git -C /repo worktree remove --force $wt; exit 8; }
PYTHONPATH=$wt /venv/bin/python $dir/demo.py > $dir/verify_demo_with.log 2>&1; b=$?
PYTHONPATH=$wt /venv/bin/python -m pytest -q -p no:cacheprovider --timeout=900 --continue-on-collection-errors > $dir/verify_tests.log 2>&1
t=$(tail -1 $dir/verify_tests.log)
cd /verif
git -C /repo worktree remove --force $wt
echo "seed $id: demo without=$a with=$b tests: $t" | tee $dir/verify_summary.txt
