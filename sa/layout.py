"""E-lay: affine layout algebra over Python index expressions.

`affine(node, env, facts)` evaluates an `ast` expression built from + - * and
integer constants into a sympy expression.  `env` maps the *source text* of a
sub-expression (e.g. 'info.parameters.npars', 'self.par_index') to a sympy
value and is consulted first at every node; `facts` maps the source text of a
boolean test to True/False so that `a if test else b` can be resolved for the
case under examination.  Anything else raises AnalysisError (never a pass).
"""
import ast
import sympy as sp
from .report import AnalysisError
from . import pyfacts as pf


def affine(node, env, facts=None):
    facts = facts or {}
    key = pf.unparse(node)
    if key in env:
        v = env[key]
        return sp.sympify(v)
    if isinstance(node, ast.Constant) and isinstance(node.value, (int, float, bool)):
        return sp.Integer(int(node.value)) if isinstance(node.value, (int, bool)) else sp.Float(node.value)
    if isinstance(node, ast.BinOp):
        l, r = affine(node.left, env, facts), affine(node.right, env, facts)
        if isinstance(node.op, ast.Add): return l + r
        if isinstance(node.op, ast.Sub): return l - r
        if isinstance(node.op, ast.Mult): return sp.expand(l * r)
        if isinstance(node.op, ast.FloorDiv): return sp.floor(l / r)
        if isinstance(node.op, ast.Mod): return sp.Mod(l, r)
    if isinstance(node, ast.UnaryOp) and isinstance(node.op, ast.USub):
        return -affine(node.operand, env, facts)
    if isinstance(node, ast.IfExp):
        t = truth(node.test, facts)
        return affine(node.body if t else node.orelse, env, facts)
    if isinstance(node, ast.Call) and pf.call_name(node) == "int" and len(node.args) == 1:
        return affine(node.args[0], env, facts)
    if isinstance(node, ast.Compare) or isinstance(node, ast.BoolOp):
        return sp.Integer(1 if truth(node, facts) else 0)
    raise AnalysisError("layout: cannot evaluate %r (env keys: %s)" % (key, sorted(env)[:8]))


def truth(test, facts):
    key = pf.unparse(test)
    if key in facts:
        return facts[key]
    if isinstance(test, ast.UnaryOp) and isinstance(test.op, ast.Not):
        return not truth(test.operand, facts)
    if isinstance(test, ast.BoolOp):
        vals = [truth(v, facts) for v in test.values]
        return all(vals) if isinstance(test.op, ast.And) else any(vals)
    raise AnalysisError("layout: undecided test %r (facts: %s)" % (key, sorted(facts)))


def same(a, b):
    return sp.simplify(sp.expand(sp.sympify(a) - sp.sympify(b))) == 0


def slice_bounds(node, env, facts=None):
    """(lower, upper) of a slice expression: `a:b` subscript or slice(a, b) call."""
    if isinstance(node, ast.Slice):
        lo = affine(node.lower, env, facts) if node.lower else sp.Integer(0)
        hi = affine(node.upper, env, facts) if node.upper else None
        return lo, hi
    if isinstance(node, ast.Call) and pf.call_name(node) == "slice":
        if len(node.args) == 2:
            return affine(node.args[0], env, facts), affine(node.args[1], env, facts)
        if len(node.args) == 1:
            return sp.Integer(0), affine(node.args[0], env, facts)
    raise AnalysisError("layout: not a slice: %s" % pf.unparse(node))
