"""C20 - legacy parameter conversion.

Decided statically: (type) no str method applied to a tuple in convert.py;
(table) every row of the conversion table, pushed as a *key* through the
stage order that convert_model's source spells out, ends in a parameter name
of the target model; (stage) the dot/underscore typestate of the keys fed to
_convert_pars; (suffix) agreement of the suffix tables.
Not decided: the numeric values carried (SLD rescale, hand conversions).
"""
import ast, re
from ..report import run_check, AnalysisError
from .. import pyfacts as pf
from .. import tables

F = "sasmodels/convert.py"
STR_ONLY = {"startswith", "endswith", "split", "strip", "lstrip", "rstrip", "replace",
            "lower", "upper", "find", "join", "format", "partition", "rpartition", "encode"}


# ---------------------------------------------------------------------------
def _elem_kind(expr, env):
    """Kind of the elements obtained by iterating `expr`: 'key', 'pair', 'value' or None."""
    if isinstance(expr, ast.Name):
        return env.get(expr.id)
    if isinstance(expr, ast.Call):
        name = pf.call_name(expr)
        if name in ("list", "sorted", "tuple", "set", "reversed") and expr.args:
            return _elem_kind(expr.args[0], env)
        if isinstance(expr.func, ast.Attribute):
            if expr.func.attr == "items":
                return "pair"
            if expr.func.attr == "keys":
                return "key"
            if expr.func.attr == "values":
                return "value"
    return None


def rule_type(r):
    """for-loop variables bound to (key, value) pairs must not be used as strings."""
    mod = pf.lib("convert")
    for qn, fn in sorted(mod.functions.items()):
        env = {}
        for st in pf.walk_stmts(fn):
            if isinstance(st, ast.Assign) and len(st.targets) == 1 and isinstance(st.targets[0], ast.Name):
                k = _elem_kind(st.value, env)
                if k:
                    env[st.targets[0].id] = k
            if isinstance(st, ast.For):
                kind = _elem_kind(st.iter, env)
                if kind is None:
                    continue
                if isinstance(st.target, ast.Name):
                    var = st.target.id
                    bad = []
                    for n in ast.walk(st):
                        if isinstance(n, ast.Attribute) and isinstance(n.value, ast.Name) \
                                and n.value.id == var and n.attr in STR_ONLY and kind == "pair":
                            bad.append(n)
                    construct = "for %s in %s" % (var, pf.unparse(st.iter))
                    if bad:
                        r.violation(F, qn, construct, st.lineno,
                                    "loop variable is a (key, value) tuple but .%s() is called on it "
                                    "-> AttributeError for every non-empty parameter set" % bad[0].attr)
                    else:
                        r.ok(F, qn, construct, st.lineno, "elements are %s" % kind)
                elif isinstance(st.target, ast.Tuple):
                    ok = kind == "pair" and len(st.target.elts) == 2
                    r.check(ok or kind != "pair", F, qn,
                            "for %s in %s" % (pf.unparse(st.target), pf.unparse(st.iter)), st.lineno,
                            "tuple unpacking of %s" % kind)


# ---------------------------------------------------------------------------
# key-flow model of convert_model, read from the source
# ---------------------------------------------------------------------------
def _str_pattern(expr, var):
    """Describe a key expression built from loop variable `var`:
    ('slice+suffix', n, suffix) for var[n:]+'suffix', ('prefix+slice', prefix, n)."""
    if isinstance(expr, ast.BinOp) and isinstance(expr.op, ast.Add):
        l, rgt = expr.left, expr.right
        if isinstance(l, ast.Subscript) and isinstance(l.value, ast.Name) and l.value.id == var \
                and isinstance(l.slice, ast.Slice) and isinstance(rgt, ast.Constant):
            lo = pf.const_value(l.slice.lower) if l.slice.lower else 0
            hi = pf.const_value(l.slice.upper) if l.slice.upper else None
            return ("slice+suffix", lo, hi, rgt.value)
        if isinstance(l, ast.Constant) and isinstance(rgt, ast.Subscript) and isinstance(rgt.value, ast.Name) \
                and rgt.value.id == var and isinstance(rgt.slice, ast.Slice):
            lo = pf.const_value(rgt.slice.lower) if rgt.slice.lower else 0
            return ("prefix+slice", l.value, lo)
    return None


def _apply_pattern(pat, key):
    if pat[0] == "slice+suffix":
        _, lo, hi, suf = pat
        return key[lo:hi] + suf
    _, pre, lo = pat
    return pre + key[lo:]


def _if_chain(st):
    """Flatten if/elif chain into [(test, body)], else body."""
    out = []
    while True:
        out.append((st.test, st.body))
        if len(st.orelse) == 1 and isinstance(st.orelse[0], ast.If):
            st = st.orelse[0]
        else:
            return out, st.orelse


def read_prefix_renamer(fn):
    """_rename_magnetic_pars: [(prefix, pattern)] from `if k.startswith(P): pars[<expr>] = pars.pop(k)`."""
    rules = []
    loops = [st for st in pf.walk_stmts(fn) if isinstance(st, ast.For)]
    if not loops:
        raise AnalysisError("%s: no loop over keys" % fn.name)
    loop = loops[0]
    var = loop.target.id if isinstance(loop.target, ast.Name) else None
    for st in loop.body:
        if not isinstance(st, ast.If):
            continue
        chain, _ = _if_chain(st)
        for test, body in chain:
            if isinstance(test, ast.Call) and isinstance(test.func, ast.Attribute) \
                    and test.func.attr == "startswith" and isinstance(test.args[0], ast.Constant):
                prefix = test.args[0].value
                for b in body:
                    if isinstance(b, ast.Assign) and isinstance(b.targets[0], ast.Subscript):
                        pat = _str_pattern(b.targets[0].slice, var)
                        if pat:
                            rules.append((prefix, pat, b))
    if not rules:
        raise AnalysisError("%s: no prefix rename rules recognised" % fn.name)
    return rules


def read_suffix_renamer(fn):
    """_dot_pd_to_underscore_pd: [(suffix, cut, newsuffix)] from `if par.endswith(S): return par[:-n]+T`."""
    rules = []
    var = pf.positional_params(fn)[0]
    for st in fn.body:
        if isinstance(st, ast.If):
            chain, _ = _if_chain(st)
            for test, body in chain:
                if isinstance(test, ast.Call) and isinstance(test.func, ast.Attribute) \
                        and test.func.attr == "endswith" and isinstance(test.args[0], ast.Constant):
                    suffix = test.args[0].value
                    ret = body[0]
                    if isinstance(ret, ast.Return):
                        pat = _str_pattern(ret.value, var)
                        if pat and pat[0] == "slice+suffix":
                            rules.append((suffix, pat, ret))
    if not rules:
        raise AnalysisError("%s: no suffix rules recognised" % fn.name)
    return rules


def read_const_key_effects(body):
    """Constant keys stored / removed by a statement list: (adds, pops, dynamic)."""
    adds, pops, dynamic = set(), set(), False
    for st in body:
        for n in ast.walk(st):
            if isinstance(n, ast.Subscript) and isinstance(n.ctx, ast.Store):
                if isinstance(n.slice, ast.Constant) and isinstance(n.slice.value, str):
                    adds.add(n.slice.value)
                else:
                    dynamic = True
            if isinstance(n, ast.Subscript) and isinstance(n.ctx, ast.Del):
                if isinstance(n.slice, ast.Constant):
                    pops.add(n.slice.value)
            if isinstance(n, ast.Call) and isinstance(n.func, ast.Attribute):
                if n.func.attr == "pop" and n.args:
                    if isinstance(n.args[0], ast.Constant):
                        pops.add(n.args[0].value)
                    else:
                        dynamic = True
                if n.func.attr == "update":
                    for kw in n.keywords:
                        if kw.arg:
                            adds.add(kw.arg)
    return adds, pops, dynamic


def _version_test(test, version):
    """Evaluate `version <op> (tuple)` statically."""
    if isinstance(test, ast.Compare) and isinstance(test.left, ast.Name) and test.left.id == "version" \
            and len(test.ops) == 1:
        try:
            rhs = ast.literal_eval(test.comparators[0])
        except Exception:
            return None
        op = test.ops[0]
        return {ast.Eq: version == rhs, ast.Lt: version < rhs, ast.LtE: version <= rhs,
                ast.Gt: version > rhs, ast.GtE: version >= rhs, ast.NotEq: version != rhs}.get(type(op))
    return None


class Pipeline:
    """Static model of the key flow of convert_model, read from convert.py."""
    PRIMITIVE = ("_hand_convert_3_1_2_to_4_1", "_rename_magnetic_pars", "_rename_magnetic_angles",
                 "_convert_pars", "_rescale_sld", "_pd_to_underscores")

    def __init__(self):
        mod = pf.lib("convert")
        self.mod = mod
        cm = mod.func("convert_model")
        loops = [st for st in cm.body if isinstance(st, ast.For)]
        if not loops:
            raise AnalysisError("convert_model: version loop not found")
        self.loop = loops[0]
        # ordered stages acting on `newpars` inside the loop body
        self.stages = []
        for st in pf.walk_stmts(ast.Module(body=self.loop.body, type_ignores=[])):
            parent = mod.parents.get(st)
            cond = parent.test if isinstance(parent, ast.If) and st in parent.body else None
            if isinstance(st, ast.Assign) and len(st.targets) == 1 and isinstance(st.targets[0], ast.Name) \
                    and st.targets[0].id == "newpars" and isinstance(st.value, ast.Call):
                self.stages.append(("call", pf.call_name(st.value), st, cond))
            elif isinstance(st, ast.Expr) and isinstance(st.value, ast.Call) \
                    and pf.call_name(st.value) == "newpars.setdefault":
                key = st.value.args[0]
                if isinstance(key, ast.Constant):
                    self.stages.append(("default", key.value, st, cond))
        names = [s[1] for s in self.stages]
        for needed in ("_hand_convert", "_convert_pars"):
            if needed not in names:
                raise AnalysisError("convert_model: stage %s not found in the version loop" % needed)
        self.prefix_rules = read_prefix_renamer(mod.func("_rename_magnetic_pars"))
        self.suffix_rules = read_suffix_renamer(mod.func("_dot_pd_to_underscore_pd"))
        self.pd_dot = ast.literal_eval(mod.module_assign("PD_DOT"))
        # _rename_magnetic_angles: `if K in pars:` body effects
        self.angle_rules = []
        fn = mod.func("_rename_magnetic_angles")
        for st in fn.body:
            if isinstance(st, ast.If) and isinstance(st.test, ast.Compare) \
                    and isinstance(st.test.ops[0], ast.In) and isinstance(st.test.left, ast.Constant):
                adds, pops, _ = read_const_key_effects(st.body)
                self.angle_rules.append((st.test.left.value, adds, pops))
        # per-model hand conversion effects
        self.hand = {}
        fn = mod.func("_hand_convert_3_1_2_to_4_1")
        for st in fn.body:
            if isinstance(st, ast.If):
                chain, _ = _if_chain(st)
                for test, body in chain:
                    if isinstance(test, ast.Compare) and isinstance(test.comparators[0], ast.Constant):
                        self.hand[test.comparators[0].value] = read_const_key_effects(body)
        body = cm.body
        idx = body.index(self.loop)
        self.underscore_after_loop = any(
            isinstance(n, ast.Call) and pf.call_name(n) == "_pd_to_underscores"
            for st in body[idx + 1:] for n in ast.walk(st))

    def chain_of(self, name):
        """A helper in convert.py that only threads the dict through other stages:
        [(version test or None, callee)]; None if the body is anything else."""
        if not self.mod.has(name):
            return None
        fn = self.mod.func(name)
        seq = []
        for st in fn.body:
            if isinstance(st, ast.Expr) and isinstance(st.value, ast.Constant):
                continue   # docstring
            if isinstance(st, ast.Return):
                continue
            if isinstance(st, ast.If) and not st.orelse and all(
                    isinstance(b, ast.Assign) and isinstance(b.value, ast.Call) for b in st.body):
                for b in st.body:
                    seq.append((st.test, pf.call_name(b.value)))
                continue
            if isinstance(st, ast.Assign) and isinstance(st.value, ast.Call):
                seq.append((None, pf.call_name(st.value)))
                continue
            return None
        return seq

    def run_fn(self, name, keys, version, model, trans, underscore, depth=0):
        if name == "_hand_convert_3_1_2_to_4_1":
            eff = self.hand.get(model)
            return set(keys) - eff[1] if eff else set(keys)
        if name == "_rename_magnetic_pars":
            return self.rename_magnetic(keys)
        if name == "_rename_magnetic_angles":
            return self.rename_angles(keys)
        if name == "_convert_pars":
            return self.convert_pars(keys, trans)
        if name == "_rescale_sld":
            return set(keys)
        if name == "_pd_to_underscores":
            return self.to_underscore(keys) if underscore else set(keys)
        chain = self.chain_of(name) if depth < 4 else None
        if chain is None:
            raise AnalysisError("convert_model: stage %s is not understood by the key-flow model" % name)
        for test, callee in chain:
            if test is not None:
                verdict = _version_test(test, version)
                if verdict is None:
                    raise AnalysisError("%s: guard %s is not a version comparison" % (name, pf.unparse(test)))
                if not verdict:
                    continue
            keys = self.run_fn(callee, keys, version, model, trans, underscore, depth + 1)
        return keys

    # -- key transformers -------------------------------------------------
    def rename_magnetic(self, keys):
        out = set()
        for k in keys:
            for prefix, pat, _ in self.prefix_rules:
                if k.startswith(prefix):
                    k = _apply_pattern(pat, k)
                    break
            out.add(k)
        return out

    def rename_angles(self, keys):
        keys = set(keys)
        for trigger, adds, pops in self.angle_rules:
            if trigger in keys:
                keys |= adds
                keys -= pops
        return keys

    def convert_pars(self, keys, mapping):
        """_convert_pars semantics on keys: old+dot -> new+dot for dot in PD_DOT."""
        out = set(keys)
        for new, old in mapping.items():
            if old == new or old is None:
                continue
            for _, dot in self.pd_dot:
                src = old + dot
                if src in out and src in keys:
                    out.discard(src)
                    if new is not None:
                        out.add(new + dot)
        return out

    def to_underscore(self, keys):
        out = set()
        for k in keys:
            for suffix, pat, _ in self.suffix_rules:
                if k.endswith(suffix):
                    k = _apply_pattern(pat, k)
                    break
            out.add(k)
        return out

    def lookup_positions(self):
        """Entry positions that _conversion_target compares with the requested name."""
        fn = self.mod.func("_conversion_target")
        loops = [st for st in pf.walk_stmts(fn) if isinstance(st, ast.For)]
        if not loops or not isinstance(loops[0].target, ast.Tuple):
            raise AnalysisError("_conversion_target: loop over table items not found")
        entry = loops[0].target.elts[1].id
        arg = pf.positional_params(fn)[0]
        pos, open_from = set(), None
        for n in ast.walk(loops[0]):
            if isinstance(n, ast.Compare) and arg in pf.names_in(n):
                for sub in ast.walk(n):
                    if isinstance(sub, ast.Subscript) and isinstance(sub.value, ast.Name) and sub.value.id == entry:
                        if isinstance(sub.slice, ast.Slice):
                            lo = pf.const_value(sub.slice.lower) if sub.slice.lower else 0
                            step = pf.const_value(sub.slice.step) if sub.slice.step else 1
                            if sub.slice.upper is None and step == 1:
                                open_from = lo if open_from is None else min(open_from, lo)
                            elif sub.slice.upper is None:
                                pos |= set(range(lo, 12, step))
                        else:
                            v = pf.const_value(sub.slice)
                            if v is not None:
                                pos.add(v)
        return pos, open_from


def _translation(model, row_map):
    """_get_translation_table on the literal row: expand vector parameters."""
    tr = dict(row_map)
    for p in model.pars:
        if p["control"]:
            n = model.vector_length(p)
            oldid = tr.get(p["id"], p["id"])
            tr.pop(p["id"], None)
            for k in range(1, n + 1):
                tr.setdefault("%s%d" % (p["id"], k), (oldid + str(k)) if oldid is not None else None)
    return tr


def _valid_names(model):
    names = set(model.expanded_names()) | {"scale", "background"}
    slds = model.sld_names()
    if slds:
        names |= {"up_frac_i", "up_frac_f", "up_theta", "up_phi"}
        for s in slds:
            names |= {s + "_M0", s + "_mtheta", s + "_mphi"}
    return names


DOTS = ["", ".width", ".npts", ".nsigmas", ".type", ".lower", ".upper"]


def _strip_attr(key, underscore):
    sufs = [".width", ".npts", ".nsigmas", ".type", ".lower", ".upper", ".fittable", ".std", ".units"]
    if underscore:
        sufs = ["_pd_nsigma", "_pd_type", "_pd_n", "_pd"] + sufs
    for s in sufs:
        if key.endswith(s):
            return key[:-len(s)], s
    return key, ""


def _push(pipe, table, mods, versions, vi, new_model, old_key, underscore):
    """Push one key through every later pass of the version loop."""
    keys = {old_key}
    model_name = new_model
    for version2 in versions[vi:]:
        if version2 != versions[vi]:
            nxt = [nm for nm, e in table[version2].items() if e[0] == model_name.split(":")[0]]
            if not nxt:
                continue
            model_name = nxt[0]
        mdef = mods[model_name.split(":")[0]]
        rowmap = table[version2][model_name][1]
        trans = rowmap if ":" in model_name else _translation(mdef, rowmap)
        for kind, name, st, cond in pipe.stages:
            if kind == "call":
                keys = pipe.run_fn(name, keys, version2, model_name, trans, underscore)
    if underscore and pipe.underscore_after_loop:
        keys = pipe.to_underscore(keys)
    return keys, mods[model_name.split(":")[0]]


def rule_table(r):
    """Every table row, as a key, ends in a parameter name of the target model."""
    T = "sasmodels/conversion_table.py"
    table, _ = tables.conversion_table()
    mods = tables.models()
    pipe = Pipeline()
    versions = sorted(table)
    # the magnetic naming scheme the targets use must be the one modelinfo generates
    src = pf.lib("modelinfo").text
    for suffix in ("'_M0'", "'_mtheta'", "'_mphi'", "'up_frac_i'", "'up_frac_f'", "'up_theta'", "'up_phi'"):
        if suffix not in src:
            raise AnalysisError("modelinfo no longer generates magnetic name %s" % suffix)
    for vi, version in enumerate(versions):
        seen_old = {}
        for new_model, entry in sorted(table[version].items()):
            old_model, row = entry[0], entry[1]
            mid = new_model.split(":")[0]
            fnname = "CONVERSION_TABLE[%s][%s]" % (version, new_model)
            if not r.check(mid in mods, T, fnname, "model %s" % new_model, 0,
                           "target model file must exist"):
                continue
            r.check(old_model not in seen_old, T, fnname, "old name %s" % old_model, 0,
                    "old model name maps to one target (also %s)" % seen_old.get(old_model))
            seen_old[old_model] = new_model
            olds = [o for o in row.values() if o is not None]
            dup = {o for o in olds if olds.count(o) > 1}
            r.check(not dup, T, fnname, "old parameter names unique", 0, "duplicates: %s" % sorted(dup))
            mdef0 = mods[mid]
            rows0 = row if ":" in new_model else _translation(mdef0, row)
            results = {}
            attr_only = []
            for new, old in sorted(rows0.items(), key=lambda kv: kv[0]):
                if old is None or old == "CONTROL":
                    continue
                failing, bare_fails, nvariants = [], False, 0
                final_id = mid
                for underscore in (False, True):
                    for dot in DOTS:
                        nvariants += 1
                        keys, final_model = _push(pipe, table, mods, versions, vi, new_model, old + dot, underscore)
                        final_id = final_model.id
                        valid = _valid_names(final_model)
                        bad = []
                        for k in keys:
                            base, attr = _strip_attr(k, underscore)
                            if base not in valid:
                                bad.append(k)
                            elif underscore and attr in (".width", ".npts", ".nsigmas", ".type"):
                                bad.append(k)
                        if bad or not keys:
                            failing.append("%s%s[underscore=%s]->%s" % (old, dot, underscore, sorted(keys) or "<dropped>"))
                            if dot == "":
                                bare_fails = True
                if failing and not bare_fails:
                    attr_only.append((new, failing))
                    continue
                m = re.match(r"^(.*?)(\d+)$", new)
                mo = re.match(r"^(.*?)(\d+)$", old)
                if m and mo:
                    gkey = "%s<k> <- %s<k>" % (m.group(1), mo.group(1))
                    results.setdefault(gkey, []).append((m.group(2) + "<-" + mo.group(2), failing, nvariants, final_id))
                else:
                    results.setdefault("%s <- %s" % (new, old), []).append(("", failing, nvariants, final_id))
            for gkey, items in sorted(results.items()):
                badk = [k for k, failing, _, _ in items if failing]
                final_id = items[0][3]
                if badk:
                    construct = gkey + (" for k in [%s]" % ",".join(badk) if badk != [""] else "")
                    first = [f for _, f, _, _ in items if f][0]
                    r.violation(T, fnname, construct, 0,
                                "not a parameter of %s after conversion: %s%s" % (
                                    final_id, "; ".join(first[:3]), " ..." if len(first) > 3 else ""))
                else:
                    r.ok(T, fnname, gkey, 0, "%d rows x %d variants end in parameters of %s"
                         % (len(items), items[0][2], final_id))
            if attr_only:
                names = sorted(n for n, _ in attr_only)
                r.violation(T, fnname, "attributes not carried for rows: %s" % ", ".join(names), 0,
                            "the bare key converts but its .width/.npts/.lower/.upper attributes do not, e.g. %s"
                            % "; ".join(attr_only[0][1][:3]))


def rule_names(r):
    """Every old model name listed in an entry is recognised by the reverse lookup."""
    T = "sasmodels/conversion_table.py"
    table, _ = tables.conversion_table()
    pipe = Pipeline()
    pos, open_from = pipe.lookup_positions()
    if not pos and open_from is None:
        raise AnalysisError("_conversion_target: no comparison with the entry found")
    for version in sorted(table):
        by_pos = {}
        for new_model, entry in table[version].items():
            for i, e in enumerate(entry):
                if isinstance(e, str):
                    by_pos.setdefault(i, []).append(e)
        for i, names in sorted(by_pos.items()):
            covered = i in pos or (open_from is not None and i >= open_from)
            r.check(covered, F, "_conversion_target", "table %s: names at entry position %d" % (version, i), 0,
                    "%d old model names (e.g. %s) are listed at position %d; the lookup compares positions %s%s"
                    % (len(names), names[0], i, sorted(pos), "" if open_from is None else " and [%d:]" % open_from))


def rule_defaults(r):
    """Keys defaulted unconditionally must exist in every target model."""
    table, _ = tables.conversion_table()
    mods = tables.models()
    pipe = Pipeline()
    for kind, key, st, cond in pipe.stages:
        if kind != "default":
            continue
        missing = []
        for version in table:
            for new_model in table[version]:
                m = mods.get(new_model.split(":")[0])
                if m is None:
                    continue
                if key not in _valid_names(m):
                    missing.append(new_model)
        guarded = cond is not None
        construct = pf.unparse(st)
        if missing and not guarded:
            r.violation(F, "convert_model", construct, st.lineno,
                        "%r is added to every converted set but %d target models (e.g. %s) define no such parameter"
                        % (key, len(set(missing)), sorted(set(missing))[:3]))
        else:
            r.ok(F, "convert_model", construct, st.lineno,
                 "guarded by %s" % pf.unparse(cond) if guarded else "defined by every target model")


def rule_stage(r):
    """Typestate of key spelling: _convert_pars consumes dot attributes; nothing
    inside the version loop may turn them into underscores before a later pass."""
    mod = pf.lib("convert")
    pipe = Pipeline()
    cm = mod.func("convert_model")
    inside = [s for s in pipe.stages if s[0] == "call" and s[1] == "_pd_to_underscores"]
    table, _ = tables.conversion_table()
    nver = len(table)
    for kind, name, st, cond in inside:
        r.check(nver < 2, F, "convert_model", pf.unparse(st), st.lineno,
                "keys are rewritten to underscore form inside the loop over %d table versions; the next "
                "iteration's _convert_pars only renames dot-form attributes, so .width/.npts of a parameter "
                "renamed by a later table are left behind" % nver)
    after = [st for st in cm.body if cm.body.index(st) > cm.body.index(pipe.loop)
             and any(isinstance(n, ast.Call) and pf.call_name(n) == "_pd_to_underscores" for n in ast.walk(st))]
    for st in after:
        r.ok(F, "convert_model", pf.unparse(st), st.lineno, "underscore rewrite after the version loop")
    # _convert_pars structure: iterates mapping.items() as (new, old) and PD_DOT dot column
    cp = mod.func("_convert_pars")
    loops = [s for s in pf.walk_stmts(cp) if isinstance(s, ast.For)]
    ok = len(loops) >= 2 and pf.unparse(loops[0].target) in ("(new, old)", "new, old") \
        and "items" in pf.unparse(loops[0].iter) and "PD_DOT" in pf.unparse(loops[1].iter)
    r.check(ok, F, "_convert_pars", "for new, old in mapping.items(): for _, dot in PD_DOT", cp.lineno,
            "rename loop shape")
    # the copy: reads from `pars`, writes `newpars`
    r.check(any(isinstance(s, ast.Assign) and pf.unparse(s.value) == "pars.copy()" for s in cp.body),
            F, "_convert_pars", "newpars = pars.copy()", cp.lineno, "renames applied to a copy (simultaneous renaming)")


def rule_suffix(r):
    """_dot_pd_to_underscore_pd and PD_DOT agree; slice lengths equal the suffix lengths."""
    pipe = Pipeline()
    pd = {dot: under for under, dot in pipe.pd_dot if dot and under != dot}
    seen = set()
    for suffix, pat, node in pipe.suffix_rules:
        _, lo, hi, newsuf = pat
        construct = "endswith(%r) -> [:%s]+%r" % (suffix, hi, newsuf)
        ok = (lo in (0, None)) and hi == -len(suffix) and pd.get(suffix) == newsuf
        r.check(ok, F, "_dot_pd_to_underscore_pd", construct, node.lineno,
                "PD_DOT says %r <-> %r; slice must drop exactly len(suffix)=%d" % (suffix, pd.get(suffix), len(suffix)))
        seen.add(suffix)
    for dot, under in pd.items():
        r.check(dot in seen, F, "_dot_pd_to_underscore_pd", "suffix %r handled" % dot, 0,
                "PD_DOT lists %r -> %r" % (dot, under))
    # magnetic prefix renamer: slice start equals prefix length
    for prefix, pat, node in pipe.prefix_rules:
        lo = pat[1] if pat[0] == "slice+suffix" else pat[2]
        r.check(lo == len(prefix), F, "_rename_magnetic_pars", "startswith(%r) slice [%s:]" % (prefix, lo),
                node.lineno, "slice must drop exactly the prefix")


def rule_sld(r):
    """SLDs (and only SLDs) of 3.x sets are rescaled: the classification looks the *converted* name up by exact match in
    the expanded call-parameter list (sld1 ... sld10 are listed there), after the table renaming."""
    mod = pf.lib("convert")
    fn = mod.func("_is_sld")
    par = pf.positional_params(fn)[1]
    loops = [s_ for s_ in fn.body if isinstance(s_, ast.For)]
    exact = None
    for lp in loops:
        if pf.unparse(lp.iter).endswith("parameters.call_parameters"):
            v = pf.unparse(lp.target)
            for st in lp.body:
                if isinstance(st, ast.If) and pf.unparse(st.test) in ("%s.id == %s" % (v, par), "%s == %s.id" % (par, v)):
                    rets = [b for b in st.body if isinstance(b, ast.Return)]
                    if rets and pf.unparse(rets[0].value) in ("%s.type == 'sld'" % v, "'sld' == %s.type" % v):
                        exact = lp
    r.check(exact is not None, F, "_is_sld", "for p in call_parameters: if p.id == %s: return p.type == 'sld'" % par, fn.lineno,
            "numbered entries of vector SLDs (sld1 ... sld10) are matched by their full name" if exact is not None else
            "the SLD test does not look the full name up in the expanded call parameters: some numbered SLD entries are "
            "not recognised and keep their 3.x value (not rescaled by 1e6)")
    if exact is not None:
        earlier = [s_ for s_ in fn.body if s_.lineno < exact.lineno and isinstance(s_, (ast.For,))]
        r.check(not earlier, F, "_is_sld", "exact lookup comes before any fallback", exact.lineno)
    first = [s_ for s_ in fn.body if isinstance(s_, ast.If)]
    r.check(bool(first) and pf.unparse(first[0].test) == "%s.startswith('M0:')" % par and pf.unparse(first[0].body[0]) == "return True",
            F, "_is_sld", "magnetic magnitudes M0:* count as SLDs", first[0].lineno if first else fn.lineno)
    rs = mod.func("_rescale_sld")
    r.check(pf.contains_text(rs, "return dict(((par, _rescale(v, scale) if _is_sld(model_info, par) else v) for (par, v) in pars.items()))"), F,
            "_rescale_sld", "every item: rescaled iff _is_sld", rs.lineno)
    pipe = Pipeline()
    names = [s_[1] for s_ in pipe.stages if s_[0] == "call"]
    ok = "_rescale_sld" in names and names.index("_convert_pars") < names.index("_rescale_sld")
    r.check(ok, F, "convert_model", "stage order %s" % names, pipe.loop.lineno, "rescale acts on the renamed (current) names")
    st = [s_ for s_ in pipe.stages if s_[1] == "_rescale_sld"]
    if st:
        r.check(st[0][3] is not None and pf.unparse(st[0][3]) == "not model_info.structure_factor and version == (3, 1, 2)", F,
                "convert_model", "rescale only for 3.1.2 sets of non-structure-factor models", st[0][2].lineno)
        a = [pf.unparse(x) for x in st[0][2].value.args]
        r.check(a[-1:] in (["1000000.0"], ["1e6"]), F, "convert_model", "_rescale_sld(..., %s)" % a[-1], st[0][2].lineno, "factor 1e6")


from . import extra3 as _x3
RULES = [
    ("R-C20-sld", 6, "SLD classification and rescale stage", rule_sld),
    ("R-C20-type", 3, "no str method on a (key,value) tuple in convert.py", rule_type),
    ("R-C20-names", 2, "every listed old model name is looked up", rule_names),
    ("R-C20-table", 300, "each table row ends in a parameter of the target model under the source's stage order", rule_table),
    ("R-C20-sld-chain", 50, "names rescaled as SLDs in the 3.x pass are SLDs of the current model even when a later table renames them", _x3.rule_c20_sld_chain),
    ("R-C20-rows", 60, "every confirmed (new -> legacy) pair of the conversion table is still there", _x3.rule_c20_rows),
    ("R-C20-defaults", 2, "defaulted keys exist in every target model", rule_defaults),
    ("R-C20-stage", 2, "dot/underscore typestate across the version loop", rule_stage),
    ("R-C20-suffix", 8, "suffix tables agree", rule_suffix),
]


from . import shared
RULES = RULES + shared.bundle('C20', [], ['convert'])
from .. import refs as _refs
RULES = RULES + [_refs.ref_rule('C20')]


def run(tier="quick", replay=None):
    return run_check(
        "C20", RULES, tier=tier, replay=replay,
        explanation="Key-flow analysis of convert.py read from its AST (stage order of convert_model, prefix and "
                    "suffix renamers, hand conversions) applied to every row x attribute suffix x use_underscore of "
                    "the literal conversion table, with target names read from the literal parameter tables of "
                    "sasmodels/models/*.py; plus a tuple/str type rule and suffix-table agreement. Values are not decided.",
        assumptions=["dict/str builtin semantics", "model parameter tables are literal lists",
                     "magnetic names follow modelinfo._get_call_parameters (checked by presence of the suffix literals)"])
