"""C03 - resolution smearing is a normalised average with full support.

Decided: sibling-argument agreement for callees that share formal names with
the same meaning; every call into the library binds against the callee's
signature; the pinhole normalisation post-dominates the truncation; window
agreement; positive-q ordering; linearity of `apply`; background added after
smearing; one common index.  Not decided: that slit rows sum to one
numerically; exact zero-width identity.
"""
import ast
from ..report import run_check, AnalysisError
from .. import pyfacts as pf
from .. import effects

R = "sasmodels/resolution.py"
Q_LIKE = {"q", "qi", "q_calc", "q_i"}


# ---------------------------------------------------------------------------
def _flatten_sum(node):
    if isinstance(node, ast.BinOp) and isinstance(node.op, (ast.Add, ast.Sub)):
        return _flatten_sum(node.left) + _flatten_sum(node.right)
    return [node]


def _is_square_of(term, names, exact=False):
    """term is X**2 / X*X with X mentioning one of names (exact: X is that name) -> the names"""
    base = None
    if isinstance(term, ast.BinOp) and isinstance(term.op, ast.Pow) and pf.const_value(term.right) == 2:
        base = term.left
    elif isinstance(term, ast.BinOp) and isinstance(term.op, ast.Mult) and pf.unparse(term.left) == pf.unparse(term.right):
        base = term.left
    if base is None:
        return set()
    if exact:
        return {base.id} & names if isinstance(base, ast.Name) else set()
    return pf.names_in(base) & names


def _roles(ix, modname, qual, formal, depth=0):
    """Roles of a formal in a function body: 'parallel' (q +- x) and/or 'perp' (q**2 + x**2)."""
    fn = ix.find(modname, qual)
    if fn is None or depth > 3:
        return set()
    aliases = {formal}
    # loop aliases through zip(): for i, (qi, w, l) in enumerate(zip(q, width, length))
    for st in pf.walk_stmts(fn):
        if isinstance(st, ast.For):
            it = st.iter
            tgt = st.target
            if isinstance(it, ast.Call) and pf.call_name(it) == "enumerate" and it.args:
                it = it.args[0]
                if isinstance(tgt, ast.Tuple) and len(tgt.elts) == 2:
                    tgt = tgt.elts[1]
            if isinstance(it, ast.Call) and pf.call_name(it) == "zip" and isinstance(tgt, ast.Tuple):
                for a, t in zip(it.args, tgt.elts):
                    if isinstance(a, ast.Name) and a.id in aliases and isinstance(t, ast.Name):
                        aliases.add(t.id)
    roles = set()
    for node in ast.walk(fn):
        if isinstance(node, ast.BinOp) and isinstance(node.op, (ast.Add, ast.Sub)):
            terms = _flatten_sum(node)
            lin_f = any((pf.names_in(t) & aliases) and not _is_square_of(t, aliases) and not any(
                isinstance(n, ast.BinOp) and isinstance(n.op, ast.Pow) for n in ast.walk(t)) for t in terms)
            sq_f = any(_is_square_of(t, aliases, exact=True) for t in terms)
            lin_q = any((pf.names_in(t) & Q_LIKE) and not _is_square_of(t, Q_LIKE | aliases) and not any(
                isinstance(n, ast.BinOp) and isinstance(n.op, ast.Pow) for n in ast.walk(t)) for t in terms)
            sq_q = any(_is_square_of(t, Q_LIKE) for t in terms)
            if lin_f and lin_q:
                roles.add("parallel")
            if sq_f and sq_q:
                roles.add("perp")
        if isinstance(node, ast.Call):
            cands = ix.resolve(node, modname, None)
            for cm, cq, _ in cands:
                cp = pf.positional_params(ix.find(cm, cq))
                for i, a in enumerate(node.args):
                    if isinstance(a, ast.Name) and a.id in aliases and i < len(cp):
                        roles |= _roles(ix, cm, cq, cp[i], depth + 1)
    return roles


def _bind(call, callee, is_method):
    """formal -> actual text for a call (None if */** used)."""
    cp = pf.positional_params(callee)
    if is_method and cp and cp[0] in ("self", "cls"):
        cp = cp[1:]
    out = {}
    for i, a in enumerate(call.args):
        if isinstance(a, ast.Starred):
            return None
        if i < len(cp):
            out[cp[i]] = pf.unparse(a)
    for kw in call.keywords:
        if kw.arg is None:
            return None
        out[kw.arg] = pf.unparse(kw.value)
    return out


def rule_sibling_args(r):
    """Two callees with same-named, same-meaning formals must receive the same actuals."""
    ix = effects.index()
    targets = [("resolution", "Slit1D.__init__"), ("resolution", "Pinhole1D.__init__"),
               ("resolution2d", "Slit2D.__init__")]
    for modname, qual in targets:
        fn = ix.find(modname, qual)
        if fn is None:
            raise AnalysisError("%s.%s missing" % (modname, qual))
        f = "sasmodels/%s.py" % modname
        calls = []
        for c in pf.calls_in(fn):
            for cm, cq, im in ix.resolve(c, modname, qual.split(".")[0]):
                b = _bind(c, ix.find(cm, cq), im)
                if b is not None:
                    calls.append((c, cm, cq, b))
        for i in range(len(calls)):
            for j in range(i + 1, len(calls)):
                c1, m1, q1, b1 = calls[i]
                c2, m2, q2, b2 = calls[j]
                if (m1, q1) == (m2, q2):
                    continue
                shared = [k for k in b1 if k in b2 and k not in ("q", "q_calc", "self")]
                for formal in shared:
                    r1 = _roles(ix, m1, q1, formal)
                    r2 = _roles(ix, m2, q2, formal)
                    construct = "%s(%s=%s) vs %s(%s=%s)" % (q1, formal, b1[formal], q2, formal, b2[formal])
                    if not r1 or not r2 or r1 != r2:
                        r.note(f, qual, construct, c1.lineno, "formals named alike but meaning not comparable: %s / %s" % (sorted(r1), sorted(r2)))
                        continue
                    same = b1[formal] == b2[formal] or _same_origin(fn, b1[formal], b2[formal])
                    r.check(same, f, qual, construct, c1.lineno,
                            "both callees use %r as the %s extent, yet receive different values: the sampling grid "
                            "and the weight matrix disagree about which slit dimension is which" % (formal, "/".join(sorted(r1)))
                            if not same else "same actual for the %s extent" % "/".join(sorted(r1)))


def _same_origin(fn, a, b):
    """np.maximum(x, C) and x denote the same quantity for this purpose."""
    strip = lambda s: s.replace("np.maximum(", "").split(",")[0].strip()
    return strip(a) == strip(b)


# ---------------------------------------------------------------------------
def rule_ctor_bind(r):
    """Every call that resolves to a library function or constructor binds against its signature."""
    ix = effects.index()
    callers = ["direct_model", "bumps_model", "sasview_model", "resolution", "resolution2d", "sesans", "product",
               "mixture", "core", "details", "kernel", "kerneldll", "kernelpy", "weights"]
    for modname in callers:
        mod = ix.mods.get(modname)
        if mod is None:
            continue
        f = "sasmodels/%s.py" % modname
        for qual, fn in sorted(mod.functions.items()):
            cls = qual.rsplit(".", 1)[0] if "." in qual and qual.rsplit(".", 1)[0] in mod.classes else None
            for c in pf.calls_in(fn):
                if any(isinstance(a, ast.Starred) for a in c.args) or any(k.arg is None for k in c.keywords):
                    continue
                for cm, cq, im in ix.resolve(c, modname, cls):
                    callee = ix.find(cm, cq)
                    a = callee.args
                    pos = [x.arg for x in a.posonlyargs + a.args]
                    if im and pos and pos[0] in ("self", "cls"):
                        pos = pos[1:]
                        ndef = len(a.defaults)
                    else:
                        ndef = len(a.defaults)
                    kwonly = [x.arg for x in a.kwonlyargs]
                    required = pos[:len(pos) - ndef] if ndef <= len(pos) else []
                    problems = []
                    if len(c.args) > len(pos) and a.vararg is None:
                        problems.append("%d positional arguments for %d parameters" % (len(c.args), len(pos)))
                    given = set(pos[:len(c.args)])
                    for kw in c.keywords:
                        if kw.arg not in pos and kw.arg not in kwonly and a.kwarg is None:
                            problems.append("unknown keyword %r (parameters: %s)" % (kw.arg, ", ".join(pos)))
                        elif kw.arg in given:
                            problems.append("parameter %r given twice" % kw.arg)
                        given.add(kw.arg)
                    for p in required:
                        if p not in given:
                            problems.append("required parameter %r not supplied" % p)
                    construct = "%s -> %s.%s" % (pf.unparse(c)[:100], cm, cq)
                    if problems:
                        r.violation(f, qual, construct, c.lineno, "; ".join(problems) + ": the call raises TypeError whenever it is reached")
                    else:
                        r.ok(f, qual, construct, c.lineno)


# ---------------------------------------------------------------------------
def rule_normalise(r):
    mod = pf.lib("resolution")
    fn = mod.func("pinhole_resolution")
    cfg = pf.cfg(fn)
    rets = [s for s in pf.walk_stmts(fn) if isinstance(s, ast.Return)]
    if not rets or not isinstance(rets[-1].value, ast.Name):
        raise AnalysisError("pinhole_resolution: return of the weight matrix not found")
    W = rets[-1].value.id
    norm = [s for s in cfg.stmts() if isinstance(s, ast.AugAssign) and isinstance(s.op, ast.Div)
            and pf.unparse(s.target) == W and "sum(%s, axis=0)" % W in pf.inlined_text(fn, s.value).replace("np.", "")]
    if not norm:
        r.violation(R, "pinhole_resolution", "%s /= sum(%s, axis=0)" % (W, W), fn.lineno,
                    "no column normalisation: the weights of a smeared point do not sum to one")
        return
    N = norm[0]
    stores = [s for s in cfg.stmts() if isinstance(s, ast.Assign) and isinstance(s.targets[0], ast.Subscript)
              and pf.unparse(s.targets[0].value) == W]
    if len(stores) < 2:
        raise AnalysisError("pinhole_resolution: truncation stores not found")
    for s in stores:
        r.check(cfg.postdominates(N, s) and cfg.dominates(s, N), R, "pinhole_resolution", pf.unparse(s), s.lineno,
                "truncation happens before the normalisation, so the truncated kernel is renormalised to one")
    later = [s for s in cfg.stmts() if s is not N and cfg.dominates(N, s) and W in pf.assigned_names(s) | {
        pf.unparse(t.value) for t in getattr(s, "targets", []) if isinstance(t, ast.Subscript)}]
    r.check(not later, R, "pinhole_resolution", "normalisation is the last write to %s" % W, N.lineno)
    # weights are differences of a monotone cdf over bin edges
    defs = [s for s in pf.walk_stmts(fn) if isinstance(s, ast.Assign) and pf.unparse(s.targets[0]) == W]
    ok = defs and pf.unparse(defs[0].value) in ("cdf[1:] - cdf[:-1]", "np.diff(cdf, axis=0)")
    r.check(bool(ok), R, "pinhole_resolution", pf.unparse(defs[0]) if defs else "weights = ?", defs[0].lineno if defs else 0,
            "bin masses are successive differences of the cdf (non-negative for increasing edges)")
    be = mod.func("bin_edges")
    first = be.body[1] if isinstance(be.body[0], ast.Expr) else be.body[0]
    r.check(isinstance(first, ast.If) and "np.diff(x) < 0" in pf.unparse(first.test) and pf.ends_in_raise(first.body),
            R, "bin_edges", "if ... (np.diff(x) < 0).any(): raise", first.lineno, "edges are increasing or construction fails")
    # 2-D: weighted mean
    m2 = pf.lib("resolution2d")
    ap = m2.func("Pinhole2D.apply")
    avg = [c for c in pf.calls_in(ap) if pf.call_name(c) in ("np.average", "average")]
    r.check(bool(avg) and any(k.arg == "weights" and pf.unparse(k.value) == "self.q_calc_weights" for k in avg[0].keywords),
            "sasmodels/resolution2d.py", "Pinhole2D.apply", "np.average(theory, axis=0, weights=self.q_calc_weights)",
            ap.lineno, "2-D smearing is a weighted mean (weights normalised by np.average)")


def rule_window(r):
    mod = pf.lib("resolution")
    fn = mod.func("Pinhole1D.__init__")
    ext = [c for c in pf.calls_in(fn) if pf.call_name(c) == "pinhole_extend_q"]
    res = [c for c in pf.calls_in(fn) if pf.call_name(c) == "pinhole_resolution"]
    if not ext or not res:
        raise AnalysisError("Pinhole1D.__init__: extend/resolution calls not found")
    def kw(c, name, pos):
        for k in c.keywords:
            if k.arg == name:
                return pf.unparse(k.value)
        return pf.unparse(c.args[pos]) if len(c.args) > pos else "<default>"
    a, b = kw(ext[0], "nsigma", 2), kw(res[0], "nsigma", 3)
    r.check(a == b, R, "Pinhole1D.__init__", "nsigma: extend_q(%s) vs resolution(%s)" % (a, b), fn.lineno,
            "the sampled q range and the truncation window use the same n-sigma")
    for q in ("Pinhole1D.__init__", "pinhole_resolution", "pinhole_extend_q"):
        f = mod.func(q)
        names = pf.positional_params(f)
        d = dict(zip(names[len(names) - len(f.args.defaults):], f.args.defaults))
        r.check("nsigma" in d and pf.unparse(d["nsigma"]) == "PINHOLE_N_SIGMA", R, q, "default nsigma=PINHOLE_N_SIGMA", f.lineno)
    # extend_q spans q - n_low*sigma .. q + n_high*sigma
    ex = mod.func("pinhole_extend_q")
    txt = pf.unparse(ex)
    r.check("np.min(q - nsigma_low * q_width)" in txt and "np.max(q + nsigma_high * q_width)" in txt, R,
            "pinhole_extend_q", "q_min, q_max = min(q - n_low*dq), max(q + n_high*dq)", ex.lineno,
            "calculated range spans every point's window")
    sx = mod.func("slit_extend_q")
    txt = pf.unparse(sx)
    r.check("np.min(q - length)" in txt and "np.max(np.sqrt((q + length) ** 2 + width ** 2))" in txt, R, "slit_extend_q",
            "q_min, q_max = min(q-length), max(sqrt((q+length)^2 + width^2))", sx.lineno)


def rule_positive_q(r):
    mod = pf.lib("resolution")
    for qual in ("Pinhole1D.__init__", "Slit1D.__init__"):
        fn = mod.func(qual)
        cfg = pf.cfg(fn)
        filt = [s for s in cfg.stmts() if isinstance(s, ast.Assign) and pf.unparse(s.targets[0]) == "self.q_calc"
                and "abs(self.q_calc) >= cutoff" in pf.unparse(s.value)]
        absq = [s for s in cfg.stmts() if isinstance(s, ast.Assign) and pf.unparse(s.targets[0]) == "self.q_calc"
                and pf.unparse(s.value) in ("abs(self.q_calc)", "np.abs(self.q_calc)")]
        wm = [s for s in cfg.stmts() if isinstance(s, ast.Assign) and pf.unparse(s.targets[0]) == "self.weight_matrix"]
        cut = [s for s in cfg.stmts() if isinstance(s, ast.Assign) and pf.unparse(s.targets[0]) == "cutoff"]
        if not (filt and absq and wm and cut):
            r.violation(R, qual, "filter |q_calc| >= cutoff; weight matrix; q_calc = |q_calc|", fn.lineno,
                        "one of the three steps is missing: %s" % [bool(filt), bool(wm), bool(absq)])
            continue
        r.check(pf.unparse(cut[0].value) == "MINIMUM_ABSOLUTE_Q * np.min(self.q)", R, qual, pf.unparse(cut[0]), cut[0].lineno,
                "cutoff relative to the smallest measured q")
        r.check(cfg.dominates(filt[0], wm[0]) and cfg.dominates(wm[0], absq[0]), R, qual,
                "order: filter -> weight matrix -> abs", wm[0].lineno,
                "weights are built on the signed grid, theory is requested at |q| >= cutoff > 0")
        args = pf.unparse(wm[0].value)
        r.check("self.q_calc" in args and "self.q" in args, R, qual, "weight matrix built from the filtered self.q_calc",
                wm[0].lineno)
    v = pf.const_value(mod.module_assign("MINIMUM_ABSOLUTE_Q"))
    r.check(v is not None and 0 < v < 1, R, "<module>", "MINIMUM_ABSOLUTE_Q = %s" % v, 0, "strictly positive fraction")


# ---------------------------------------------------------------------------
CONST, LIN, NONLIN = 0, 1, 2
LINEAR_CALLS = {"np.dot": (0, 1), "np.reshape": (0,), "np.average": (0,), "np.trapz": (0,), "np.trapezoid": (0,),
                "np.asarray": (0,), "np.sum": (0,), "np.mean": (0,)}
LINEAR_METHODS = {"flatten", "reshape", "ravel", "transpose", "copy", "astype"}


def _lin(node, env, ix, modname, cls):
    """Linearity type of an expression in the variables of env (name -> type)."""
    if isinstance(node, ast.Name):
        return env.get(node.id, CONST)
    if isinstance(node, (ast.Constant, ast.Attribute)):
        return CONST
    if isinstance(node, ast.Subscript):
        return _lin(node.value, env, ix, modname, cls)
    if isinstance(node, ast.UnaryOp):
        return _lin(node.operand, env, ix, modname, cls)
    if isinstance(node, ast.BinOp):
        l, rr = _lin(node.left, env, ix, modname, cls), _lin(node.right, env, ix, modname, cls)
        if isinstance(node.op, (ast.Add, ast.Sub)):
            return max(l, rr)
        if isinstance(node.op, (ast.Mult, ast.MatMult)):
            return NONLIN if (l and rr) else max(l, rr)
        if isinstance(node.op, ast.Div):
            return NONLIN if rr else l
        return NONLIN if (l or rr) else CONST
    if isinstance(node, ast.IfExp):
        return max(_lin(node.body, env, ix, modname, cls), _lin(node.orelse, env, ix, modname, cls))
    if isinstance(node, ast.Call):
        name = pf.call_name(node) or ""
        argt = [_lin(a, env, ix, modname, cls) for a in node.args]
        kwt = {k.arg: _lin(k.value, env, ix, modname, cls) for k in node.keywords}
        if isinstance(node.func, ast.Attribute) and node.func.attr in LINEAR_METHODS and name not in LINEAR_CALLS \
                and not name.startswith(("np.", "numpy.")):
            base = _lin(node.func.value, env, ix, modname, cls)
            return NONLIN if any(argt) else base
        if name in LINEAR_CALLS:
            lin_pos = LINEAR_CALLS[name]
            n_lin = sum(1 for i, t in enumerate(argt) if t == LIN and i in lin_pos)
            if any(t == NONLIN for t in argt) or any(t for t in kwt.values()):
                return NONLIN
            if any(t == LIN and i not in lin_pos for i, t in enumerate(argt)):
                return NONLIN
            return NONLIN if n_lin > 1 else (LIN if n_lin else CONST)
        cands = ix.resolve(node, modname, cls)
        if cands:
            cm, cq, im = cands[0]
            callee = ix.find(cm, cq)
            cp = pf.positional_params(callee)
            if im and cp and cp[0] == "self":
                cp = cp[1:]
            sub = {p: t for p, t in zip(cp, argt)}
            return _lin_function(callee, sub, ix, cm, None)
        if not any(argt) and not any(kwt.values()):
            return CONST
        return NONLIN
    if isinstance(node, (ast.Tuple, ast.List)):
        return max([_lin(e, env, ix, modname, cls) for e in node.elts] + [CONST])
    if isinstance(node, ast.Compare):
        return NONLIN if any(_lin(x, env, ix, modname, cls) for x in [node.left] + node.comparators) else CONST
    return NONLIN


def _lin_function(fn, env, ix, modname, cls):
    env = dict(env)
    worst = CONST
    for st in pf.walk_stmts(fn):
        if isinstance(st, ast.Assign):
            t = _lin(st.value, env, ix, modname, cls)
            for n in pf.assigned_names(st):
                env[n] = max(env.get(n, CONST), t) if isinstance(pf_parent_if(fn, st), ast.If) else t
        elif isinstance(st, ast.AugAssign):
            cur = _lin(st.target, env, ix, modname, cls)
            t = _lin(st.value, env, ix, modname, cls)
            if isinstance(st.op, (ast.Add, ast.Sub)):
                new = max(cur, t)
            elif isinstance(st.op, ast.Mult):
                new = NONLIN if (cur and t) else max(cur, t)
            elif isinstance(st.op, ast.Div):
                new = NONLIN if t else cur
            else:
                new = NONLIN if (cur or t) else CONST
            for n in pf.assigned_names(st):
                env[n] = new
        elif isinstance(st, ast.Return) and st.value is not None:
            worst = max(worst, _lin(st.value, env, ix, modname, cls))
    return worst


def pf_parent_if(fn, st):
    return None


def rule_linear(r):
    ix = effects.index()
    targets = [("resolution", "Perfect1D.apply"), ("resolution", "Pinhole1D.apply"), ("resolution", "Slit1D.apply"),
               ("resolution2d", "Pinhole2D.apply"), ("resolution2d", "Slit2D.apply"), ("sesans", "SesansTransform.apply")]
    for modname, qual in targets:
        fn = ix.find(modname, qual)
        if fn is None:
            raise AnalysisError("%s.%s missing" % (modname, qual))
        arg = pf.positional_params(fn)[1]
        t = _lin_function(fn, {arg: LIN}, ix, modname, qual.split(".")[0])
        r.check(t in (LIN,), "sasmodels/%s.py" % modname, qual, "apply(%s) is linear in %s" % (arg, arg), fn.lineno,
                "linearity type %s (0 const, 1 linear, 2 non-linear): scale and background must pass through smearing"
                % t)


def rule_background(r):
    mod = pf.lib("direct_model")
    fn = mod.func("DataMixin._calc_theory")
    f = "sasmodels/direct_model.py"
    cfg = pf.cfg(fn)
    P = pf.positional_params(fn)[1]
    copy_st = [s for s in cfg.stmts() if isinstance(s, ast.Assign) and pf.unparse(s.targets[0]) == P
               and pf.unparse(s.value) in ("%s.copy()" % P, "dict(%s)" % P)]
    zero = [s for s in cfg.stmts() if isinstance(s, ast.Assign) and pf.unparse(s.targets[0]) == "%s['background']" % P
            and pf.const_value(s.value) == 0]
    call = [s for s in cfg.stmts() if any(isinstance(c, ast.Call) and pf.call_name(c) == "call_kernel" for c in pf.own_exprs(s))]
    if not call:
        raise AnalysisError("_calc_theory: call_kernel not found")
    ok = bool(copy_st and zero) and cfg.dominates(copy_st[0], zero[0]) and cfg.dominates(zero[0], call[0])
    r.check(ok, f, "DataMixin._calc_theory", "%s = %s.copy(); %s['background'] = 0 before call_kernel" % (P, P, P),
            call[0].lineno, "theory is computed without background")
    bg = [s for s in cfg.stmts() if isinstance(s, ast.Assign) and "%s.get('background'" % P in pf.unparse(s.value)]
    r.check(bool(bg) and "%s.get('background'" % P in pf.unparse(bg[0].value) and cfg.dominates(bg[0], zero[0]) if zero else False,
            f, "DataMixin._calc_theory", "background read from the caller's parameters before it is zeroed",
            bg[0].lineno if bg else 0)
    rets = [s for s in cfg.stmts() if isinstance(s, ast.Return)]
    res = [s for s in cfg.stmts() if isinstance(s, ast.Assign) and isinstance(s.value, ast.Call)
           and pf.call_name(s.value) == "self.resolution.apply"]
    bgname = pf.unparse(bg[0].targets[0]) if bg else "background"
    okr = False
    if rets and res:
        rv = rets[-1].value
        smeared = pf.unparse(res[0].targets[0])
        okr = isinstance(rv, ast.BinOp) and isinstance(rv.op, ast.Add) and {pf.unparse(rv.left), pf.unparse(rv.right)} == {smeared, bgname}
    r.check(okr, f, "DataMixin._calc_theory", "return %s" % (pf.unparse(rets[-1].value) if rets else "?"),
            rets[-1].lineno if rets else 0, "background is added after smearing")
    if res and call:
        tgt = pf.unparse(call[0].targets[0]) if isinstance(call[0], ast.Assign) else None
        r.check(tgt is not None and pf.unparse(res[0].value.args[0]) == tgt, f, "DataMixin._calc_theory",
                "resolution.apply(%s)" % tgt, res[0].lineno, "smearing is applied to the background-free theory")


def rule_index(r):
    mod = pf.lib("direct_model")
    fn = mod.func("DataMixin._interpret_data")
    f = "sasmodels/direct_model.py"
    n = 0
    for node in ast.walk(fn):
        if isinstance(node, ast.Subscript) and isinstance(node.value, ast.Attribute) \
                and isinstance(node.value.value, ast.Name) and node.value.value.id == "data":
            n += 1
            r.check(pf.unparse(node.slice) == "index", f, "DataMixin._interpret_data", pf.unparse(node), node.lineno,
                    "every data array handed on is selected with the one common index")
    if n < 8:
        raise AnalysisError("_interpret_data: only %d data subscripts found" % n)
    store = [s for s in pf.walk_stmts(fn) if isinstance(s, ast.Assign) and "self.index" in pf.unparse(s.targets[0])]
    r.check(bool(store) and "index" in pf.unparse(store[0].value), f, "DataMixin._interpret_data",
            "self.Iq, self.dIq, self.index = Iq, dIq, index", store[0].lineno if store else 0)


def rule_reach(r):
    """The calculated grid is extended all the way to [q_min, q_max]: the number of added points is rounded *up*
    (so at least one point is added whenever the bound lies outside the data) and the new points end on the bound."""
    mod = pf.lib("resolution")
    for qual, gen in (("linear_extrapolation", "np.linspace"), ("geometric_extrapolation", "np.logspace")):
        fn = mod.func(qual)
        for side in ("low", "high"):
            ns = [st for st in pf.walk_stmts(fn) if isinstance(st, ast.Assign) and pf.unparse(st.targets[0]) == "n_" + side]
            if not ns:
                raise AnalysisError("%s: n_%s not found" % (qual, side))
            v = ns[0].value
            arms = [v.body, v.orelse] if isinstance(v, ast.IfExp) else [v]
            ok = True
            for a in arms:
                c = pf.const_value(a)
                if c is not None:
                    ok = ok and c >= 1
                    continue
                inner = a
                if isinstance(inner, ast.Call) and pf.call_name(inner) == "int" and inner.args:
                    inner = inner.args[0]
                ok = ok and isinstance(inner, ast.Call) and pf.call_name(inner) in ("np.ceil", "ceil", "math.ceil")
            r.check(ok, R, qual, pf.unparse(ns[0]), ns[0].lineno,
                    "count rounded up: >= 1 whenever the branch is taken" if ok else
                    "the number of extension points is not rounded up: it can be 0, the grid then stops at the data and the "
                    "resolution window of the outermost points is not spanned")
            qs = [st for st in pf.walk_stmts(fn) if isinstance(st, ast.Assign) and pf.unparse(st.targets[0]) == "q_" + side
                  and isinstance(st.value, ast.Subscript)]
            okq = False
            if qs:
                call = qs[0].value.value
                sl = pf.unparse(qs[0].value.slice)
                if isinstance(call, ast.Call) and pf.call_name(call) == gen and len(call.args) >= 3:
                    a0, a1, a2 = (pf.unparse(x) for x in call.args[:3])
                    if side == "low":
                        okq = "q_min" in a0 and a2 == "n_low + 1" and sl == ":-1"
                    else:
                        okq = "q_max" in a1 and a2 == "n_high + 1" and sl == "1:"
            r.check(okq, R, qual, pf.unparse(qs[0]) if qs else "q_%s" % side, qs[0].lineno if qs else fn.lineno,
                    "n+1 points from the bound to the data end, the shared end point dropped")
        ret = [st for st in fn.body if isinstance(st, ast.Return)]
        r.check(bool(ret) and pf.unparse(ret[0].value) == "np.concatenate([q_low, q, q_high])", R, qual, "return np.concatenate([q_low, q, q_high])",
                ret[0].lineno if ret else 0)
    for qual, callee in (("pinhole_extend_q", "linear_extrapolation"), ("slit_extend_q", "geometric_extrapolation")):
        fn = mod.func(qual)
        ret = [st for st in fn.body if isinstance(st, ast.Return)]
        r.check(bool(ret) and pf.unparse(ret[0].value) == "%s(q, q_min, q_max)" % callee, R, qual, "return %s(q, q_min, q_max)" % callee,
                ret[0].lineno if ret else 0)


RULES = [
    ("R-C03-reach", 12, "calculated grid reaches the window bounds", rule_reach),
    ("R-C03-sibling-args", 1, "callees sharing same-meaning formals get the same actuals", rule_sibling_args),
    ("R-C03-ctor-bind", 150, "every resolved library call binds against the callee signature", rule_ctor_bind),
    ("R-C03-normalise", 5, "normalisation post-dominates truncation; weighted mean in 2-D", rule_normalise),
    ("R-C03-window", 6, "n-sigma window agreement", rule_window),
    ("R-C03-positive-q", 7, "strictly positive |q| requested, in the right order", rule_positive_q),
    ("R-C03-linear", 6, "apply is linear in the theory", rule_linear),
    ("R-C03-background", 4, "background added after smearing", rule_background),
    ("R-C03-index", 9, "one common index", rule_index),
]


from . import shared
RULES = RULES + shared.bundle('C03', [], ['resolution', 'resolution2d', 'direct_model'])
from . import folds as _folds
RULES = RULES + [_folds.fold_rule('C03')]
from .. import refs as _refs
RULES = RULES + [_refs.ref_rule('C03')]


def run(tier="quick", replay=None):
    return run_check(
        "C03", RULES, tier=tier, replay=replay,
        explanation="AST rules on resolution.py, resolution2d.py, direct_model.py: role inference of formals (q+-x vs "
                    "q^2+x^2) for the sibling-argument contradiction rule, signature binding of every resolved call, "
                    "post-dominance of the normalisation, linearity typing of the apply methods, dominance ordering in "
                    "_calc_theory, subscript agreement. Numeric row sums and the zero-width identity are not decided.",
        assumptions=["np.dot/np.average/reshape are linear in their array argument", "numpy broadcasting semantics"])
