"""C16 - a reparameterised model equals its base model at the translated parameters.

Decided: every CALL_*/VALID macro is generated from the base table through the
substitution table (none reads the caller table directly) while the parameter
struct and counts come from the caller table; in the reparameterised witness
unit the intermediates are computed before the validity test, which guards
every model call inside the innermost loop body, in all three kernels, and the
call arguments are the translated expressions in base order; identifier
substitution; ordered single-pass table derivation.
Not decided: numeric equality with the base model.
"""
import ast, re
from ..report import run_check, AnalysisError
from .. import pyfacts as pf
from .. import cfront, rx
from ..ckernel import Kernel, VARIANTS, norm, kids, var_decls, if_parts
from ..nf import c_text, c_callee

G = "sasmodels/generate.py"


def analyse_unit(unit, extra):
    out = []
    KI = "sasmodels/kernel_iq.c"
    def inst(rule, ok, fn, construct, line, detail=""):
        out.append((rule, "ok" if ok else "violation", KI, fn, construct, line, detail))
    w = unit.meta
    new, replaced, inter = w.get("new", []), w.get("replaced", []), w.get("intermediate", [])
    for variant in VARIANTS:
        k = Kernel(unit, variant)
        fn = "witness:%s" % variant
        inner = k.innermost()
        stmts = kids(inner)
        # intermediates: const double _var_<name> declared in the innermost body
        vdecl = [(n, d, init, st) for n, d, init, st in var_decls(inner) if n.startswith("_var_")]
        vif = k.valid_if()
        if vif is None:
            inst("R-C16-order", False, fn, "if (VALID(...)) found in the loop body", k.fn.get("_line", 0), "missing")
            continue
        pos_if = [i for i, s in enumerate(stmts) if s is vif][0]
        for name in inter:
            dd = [x for x in vdecl if x[0] == "_var_" + name]
            ok = bool(dd) and [i for i, s in enumerate(stmts) if s is dd[0][3]][0] < pos_if
            inst("R-C16-order", ok, fn, "_var_%s defined before VALID" % name, dd[0][1].get("_line", 0) if dd else 0,
                 "intermediates are recomputed for every mesh point, ahead of the validity test and the calls")
            if dd:
                txt = norm(c_text(dd[0][2]))
                refs_new = any("local_values.table.%s" % p in txt for p in new)
                inst("R-C16-ident", refs_new and not re.search(r"(?<![\w.])(%s)(?![\w])" % "|".join(new), re.sub(r"local_values\.table\.\w+", "T", txt)),
                     fn, "_var_%s = %s" % (name, c_text(dd[0][2])), dd[0][1].get("_line", 0),
                     "caller parameters are qualified with the parameter table")
        cond = norm(c_text(if_parts(vif)[0]))
        inst("R-C16-order", "_var_" in cond or any("local_values.table.%s" % p in cond for p in new), fn, "VALID(%s)" % cond[:100],
             vif.get("_line", 0), "validity is the base model's region expressed in the new parameters")
        inst("R-C16-ident", not any(re.search(r"(?<![\w.])%s(?![\w])" % b, re.sub(r"local_values\.table\.\w+", "T", cond).replace("_var_", "V")) for b in replaced), fn,
             "VALID mentions no replaced base parameter by bare name", vif.get("_line", 0))
        calls = k.model_calls()
        for c in calls:
            anc_ok = any(x is c for x in cfront.walk(vif))
            a = [norm(c_text(x)) for x in kids(c)[1:]]
            inst("R-C16-order", anc_ok, fn, "%s(...) guarded by VALID" % c_callee(c), c.get("_line", 0),
                 "no model function is evaluated at an invalid translated point")
            bare = [x for x in a if re.fullmatch(r"[A-Za-z_]\w*", x) and x in replaced + inter + new]
            inst("R-C16-ident", not bare, fn, "%s(%s)" % (c_callee(c), ", ".join(a))[:160], c.get("_line", 0),
                 "arguments are translated expressions, table members or prefixed intermediates (bare: %s)" % bare)
        # the replaced base parameters are not members of the caller's table; the new ones are
        base_kp = w.get("base_kernel_parameters", [])
        fv = [c for c in calls if c_callee(c) == "form_volume"]
        if fv:
            a = [norm(c_text(x)) for x in kids(fv[0])[1:]]
            inst("R-C16-order", len(a) == 2 and all("local_values.table.vol" in x for x in a), fn,
                 "form_volume(%s)" % ", ".join(a)[:140], fv[0].get("_line", 0), "both volume arguments are functions of the new parameters")
    # struct members = caller table
    for rec in unit.records.values():
        if rec.get("kind") == "RecordDecl":
            names = [f["name"] for f in kids(rec) if f.get("kind") == "FieldDecl"]
            if names and names == w.get("kernel_parameters"):
                inst("R-C16-order", True, "witness:ParameterTable", "struct members %s" % names, rec.get("_line", 0),
                     "the parameter struct follows the caller (new) table")
                break
    else:
        inst("R-C16-order", False, "witness:ParameterTable", "struct members = caller table %s" % w.get("kernel_parameters"), 0, "no such struct")
    return out


_C = None


def _c_results():
    global _C
    if _C is None:
        _C = cfront.map_units("sa.rules.c16:analyse_unit", names=set(), include_witness=True)
        if "_reparam_witness" not in _C:
            raise AnalysisError("reparameterised witness unit was not generated")
    return _C


def make_c_rule(rule_id):
    def run(r):
        for unit, rows in sorted(_c_results().items()):
            for row in rows:
                if row[0] == rule_id:
                    _, status, f, fn, construct, line, detail = row
                    getattr(r, status)(f, fn, construct, line, detail)
    return run


def rule_subs(r):
    g = pf.lib("generate")
    ms = g.func("make_source")
    assigns = {}
    for s in pf.walk_stmts(ms):
        if isinstance(s, ast.Assign) and isinstance(s.targets[0], ast.Name):
            assigns.setdefault(s.targets[0].id, []).append(s)
    # reference lists come from the base table through subs (whatever the lists are called)
    ref_vars = {}
    for name, ss in assigns.items():
        for st in ss:
            if isinstance(st.value, ast.Call) and pf.call_name(st.value) == "_call_pars":
                a = [pf.unparse(x) for x in st.value.args]
                ref_vars[name] = a
                r.check(len(a) == 2 and a[0].startswith("base_table.") and a[1] == "subs", G, "make_source",
                        "%s = _call_pars(%s)" % (name, ", ".join(a)), st.lineno,
                        "call arguments are the base model's parameters, each replaced by its translation")
    got_lists = {a[0] for a in ref_vars.values()}
    for lst in ("base_table.form_volume_parameters", "base_table.iq_parameters", "base_table.orientation_parameters"):
        r.check(lst in got_lists, G, "make_source", "reference list for %s" % lst, ms.lineno)
    # every macro string that names a model function is formatted from those lists only
    FUNCS = ("form_volume(", "shell_volume(", "radius_effective(", "Iq(", "Fq(", "Iqac(", "Iqabc(", "Iqxy(")
    allowed = set(ref_vars) | {"is_hollow"}
    join_vars = {}
    for name, ss in assigns.items():
        for st in ss:
            if isinstance(st.value, ast.Call) and pf.unparse(st.value.func) == "','.join":
                join_vars[name] = st
                names = pf.names_in(st.value)
                r.check(names <= set(ref_vars), G, "make_source", pf.unparse(st)[:80], st.lineno,
                        "argument list = q arguments + substituted references" if names <= set(ref_vars) else "reads %s" % sorted(names - set(ref_vars)))
    for name, ss in assigns.items():
        for st in ss:
            txt = pf.unparse(st.value)
            if "#define CALL_" in txt and any(f_ in txt for f_ in FUNCS):
                names = pf.names_in(st.value)
                bad = {n for n in names if n not in allowed and n not in join_vars}
                r.check(not bad and "call_table" not in txt, G, "make_source", "%s = %s" % (name, txt[:70]), st.lineno,
                        "macro text built only from the substituted reference lists" if not bad else "reads %s directly" % sorted(bad))
    # which macro text is emitted is decided by the base model, never by the caller's table
    mod = pf.lib("generate")
    for name, ss in assigns.items():
        for st in ss:
            if "#define CALL_" not in pf.unparse(st.value) and name not in ref_vars:
                continue
            node, child = mod.parents.get(st), st
            while node is not None and node is not ms:
                if isinstance(node, ast.If):
                    t = pf.unparse(node.test)
                    r.check("call_table" not in t, G, "make_source", "`%s = ...` emitted under `if %s`" % (name, t[:70]), node.lineno,
                            "the choice of macro depends on the base model only" if "call_table" not in t else
                            "the macro is chosen by looking at the caller's (new) table: a reparameterisation whose new parameters "
                            "have another type silently gets the wrong macro (e.g. volume 1, R_eff 0)")
                child, node = node, mod.parents.get(node)
    txt = pf.unparse(ms)
    r.check("(subs, translation_vars, valid) = _build_translation(model_info, '_v')" in txt or
            "subs, translation_vars, valid = _build_translation(model_info, '_v')" in txt, G, "make_source",
            "subs, translation_vars, valid = _build_translation(model_info, '_v')", ms.lineno)
    r.check("'\\\\\\n'.join((p.as_definition() for p in call_table.kernel_parameters))" in txt, G, "make_source",
            "PARAMETER_TABLE from call_table.kernel_parameters", ms.lineno, "the struct the caller fills follows the new table")
    for macro, src in (("MAX_PD", "call_table.max_pd"), ("NUM_PARS", "call_table.npars"), ("NUM_VALUES", "call_table.nvalues"),
                       ("NUM_MAGNETIC", "call_table.nmagnetic")):
        r.check("'#define %s %%%s' %% %s" % (macro, "s" if macro == "MAX_PD" else "d", src) in txt, G, "make_source",
                "#define %s from %s" % (macro, src), ms.lineno)
    r.check("call_table = model_info.parameters" in txt and "base_table = model_info.base" in txt, G, "make_source",
            "call_table = model_info.parameters; base_table = model_info.base", ms.lineno)
    cp = g.func("_call_pars")
    r.check(pf.contains_text(cp, "return [subs[p.id] for p in pars]"), G, "_call_pars", "[subs[p.id] for p in pars]", cp.lineno,
            "order of the base list is kept")
    bt = g.func("_build_translation")
    t = pf.unparse(bt)
    r.check("subs = {p.id: table_id + '.' + p.id for p in base_table}" in t and
            "subs.update(((name, eq) for (name, eq) in assigns if name in base_pars))".replace("(name, eq) in", "name, eq in") in t.replace("(name, eq) in", "name, eq in"),
            G, "_build_translation", "subs: identity for untouched base parameters, translation for replaced ones", bt.lineno,
            "untouched base parameters keep their meaning")
    r.check("validity = _build_validity_check(model_info.valid, table_id, subs)" in t, G, "_build_translation",
            "VALID built from the base model's predicate through subs", bt.lineno)


def rule_ident(r):
    g = pf.lib("generate")
    node = g.module_assign("_IDENT_RE")
    pat = ast.literal_eval(node.args[0])
    items = list(rx.parse(pat))
    left, body, right = rx.split_context(items)
    la = [rx.describe_assert(x) for x in left]
    ok = len(la) == 1 and la[0][0] == "not" and la[0][1] == -1 and la[0][2] is not None and \
        la[0][2] == frozenset([ord(".")] + list(range(ord("0"), ord("9") + 1)))
    r.check(ok, G, "_IDENT_RE", "not preceded by '.' or a digit", node.lineno, "so 1e5, 1.0f and member names are not rewritten")
    A = rx.DFA(rx.nfa_of(body))
    B = rx.DFA(rx.nfa_of(rx.parse(r"[A-Za-z_][A-Za-z0-9_]*")))
    w1, w2 = rx.equivalent(A, B)
    r.check(w1 is None and w2 is None, G, "_IDENT_RE", "matches whole C identifiers", node.lineno, "witness %r %r" % (w1, w2))
    bt = g.func("_build_translation")
    ids = [f for f in ast.walk(bt) if isinstance(f, ast.FunctionDef) and f.name == "id_sub"]
    if not ids:
        raise AnalysisError("_build_translation.id_sub missing")
    t = pf.unparse(ids[0])
    r.check("if name in variables:\n        return var_prefix + name".replace("\n        ", " ") in t, G, "_build_translation.id_sub",
            "intermediates get the prefix", ids[0].lineno)
    r.check("if name in call_pars: return table_id + '.' + name" in t, G, "_build_translation.id_sub",
            "caller parameters are qualified with the table", ids[0].lineno)
    rets = sorted([s for s in ast.walk(ids[0]) if isinstance(s, ast.Return)], key=lambda s: s.lineno)
    r.check(bool(rets) and pf.unparse(rets[-1].value) == "name", G, "_build_translation.id_sub", "other identifiers unchanged", ids[0].lineno,
            "C constants and math functions pass through")
    t = pf.unparse(bt)
    r.check("variables = set((name for (name, expr) in assigns if name not in call_pars and name not in base_pars))".replace("(name, expr) in", "name, expr in")
            in t.replace("(name, expr) in", "name, expr in"), G, "_build_translation",
            "intermediates = LHS names that are neither caller nor base parameters", bt.lineno)
    r.check("assigns = [(name, _IDENT_RE.sub(id_sub, eq)) for (name, eq) in assigns]".replace("(name, eq) in", "name, eq in")
            in t.replace("(name, eq) in", "name, eq in"), G, "_build_translation", "substitution applied to every right-hand side", bt.lineno)
    vc = g.func("_build_validity_check")
    t = pf.unparse(vc)
    r.check("return '(%s)' % subs[name] if name in subs else name" in t, G, "_build_validity_check",
            "base names replaced by their parenthesised translation", vc.lineno)


def rule_table(r):
    mi = pf.lib("modelinfo")
    MI = "sasmodels/modelinfo.py"
    si = mi.func("_simple_insert")
    loops = [s for s in si.body if isinstance(s, ast.For)]
    ok = len(loops) == 1 and pf.unparse(loops[0].iter) == "parameters"
    r.check(ok, MI, "_simple_insert", "one ordered pass over the old list", si.lineno, "untouched parameters keep their relative order")
    t = pf.unparse(si)
    r.check("if par.id not in remove: new_list.append(par)" in t, MI, "_simple_insert", "kept iff not removed", si.lineno)
    r.check("if par.id in remove and insert: new_list.extend(insert) insert = []" in t, MI, "_simple_insert",
            "new block inserted once, at the first removed parameter", si.lineno)
    ia = mi.func("_insert_after")
    loops = [s for s in ia.body if isinstance(s, ast.For) and pf.unparse(s.iter) == "parameters"]
    r.check(len(loops) == 1, MI, "_insert_after", "one ordered pass over the old list", ia.lineno)
    t = pf.unparse(ia)
    r.check("if par.id not in remove: new_list.append(par) _process_group(par.id)" in t, MI, "_insert_after",
            "kept iff not removed; insertions follow their anchor", ia.lineno)
    r.check("raise ValueError('parameter %s not listed in insert_after' % name)" in t, MI, "_insert_after",
            "every new parameter must be placed", ia.lineno)
    dt = mi.func("derive_table")
    r.check("return ParameterTable(new)" in pf.unparse(dt), MI, "derive_table", "derived list re-validated by ParameterTable", dt.lineno)
    core = pf.lib("core")
    rp = core.func("reparameterize")
    t = pf.unparse(rp)
    r.check("old_pars = [match.group(1) for match in _LHS_RE.finditer(translation) if match.group(1) in base_pars]" in t, "sasmodels/core.py",
            "reparameterize", "removed = LHS names that are base parameters", rp.lineno)
    r.check("table = modelinfo.derive_table(base.parameters, remove=old_pars, insert=new_pars, insert_after=insert_after)" in t,
            "sasmodels/core.py", "reparameterize", "derive_table(base.parameters, remove, insert, insert_after)", rp.lineno)
    r.check("caller = copy.copy(base)" in t and "caller.parameters = table" in t and "caller.translation = translation" in t,
            "sasmodels/core.py", "reparameterize", "caller is a copy of base with new table and translation", rp.lineno,
            "Iq, form_volume, valid ... stay the base model's")


def rule_offsets(r):
    """Positions the kernel relies on are located in the *derived* table by name, never assumed from the base layout:
    a new parameter may be inserted anywhere (insert_after), including after the orientation angles."""
    mi = pf.lib("modelinfo")
    MI = "sasmodels/modelinfo.py"
    init = mi.func("ParameterTable.__init__")
    # theta_offset: a running sum of lengths over kernel_parameters up to the parameter named theta
    loops = [s_ for s_ in pf.walk_stmts(init) if isinstance(s_, ast.For) and pf.unparse(s_.iter) == "self.kernel_parameters"
             and "theta_offset" in pf.unparse(s_)]
    ok = False
    if loops:
        t = pf.unparse(loops[0])
        ok = "if p.name == 'theta':" in t and "self.theta_offset = offset" in t and "offset += p.length" in t and "break" in t
    r.check(ok, MI, "ParameterTable.__init__", "theta_offset found by scanning kernel_parameters for 'theta', summing lengths",
            loops[0].lineno if loops else init.lineno,
            "the view angles are read at values[theta_par+2..]; theta_par must be theta's real position in the table at hand"
            if ok else "theta_offset is not computed by a name scan over the table: with insert_after={'phi': ...} the kernel "
            "reads the view angles from the wrong slots")
    t = pf.unparse(init)
    r.check("self.magnetism_index = [k for (k, p) in enumerate(self.call_parameters) if p.id.endswith('_M0')]".replace("(k, p)", "k, p")
            in t.replace("(k, p)", "k, p"), MI, "ParameterTable.__init__", "magnetism_index located by name scan", init.lineno)
    ca = mi.func("ParameterTable.check_angles")
    r.check("if phi != theta + 1:" in pf.unparse(ca) and "if psi >= 0 and psi != phi + 1:" in pf.unparse(ca), MI,
            "ParameterTable.check_angles", "adjacency of theta, phi, psi enforced on the derived table", ca.lineno,
            "derive_table ends in ParameterTable(new), which runs check_angles")
    g = pf.lib("generate")
    ms = g.func("make_source")
    r.check(pf.contains_text(ms, "magpars = [k - 2 for (k, p) in enumerate(call_table.call_parameters) if p.type == 'sld']"),
            "sasmodels/generate.py", "make_source", "MAGNETIC_PARS located in the caller table by type scan", ms.lineno)


RULES = [
    ("R-C16-offsets", 4, "kernel-relevant positions located by scan in the derived table", rule_offsets),
    ("R-C16-subs", 16, "all call macros generated from the base table through subs", rule_subs),
    ("R-C16-order", 19, "witness: intermediates -> VALID -> guarded calls, in three kernels", make_c_rule("R-C16-order")),
    ("R-C16-ident", 12, "witness: qualified identifiers only", make_c_rule("R-C16-ident")),
    ("R-C16-ident-re", 8, "identifier regex and substitution function", rule_ident),
    ("R-C16-table", 10, "ordered single-pass table derivation", rule_table),
]


from . import shared
RULES = RULES + shared.bundle('C16', ['gpu', 'carry', 'gate', 'restart', 'driver', 'values', 'stride', 'norm', 'loops'], ['modelinfo', 'core', 'generate'])
from .. import refs as _refs
RULES = RULES + [_refs.ref_rule('C16')]


def run(tier="quick", replay=None):
    return run_check(
        "C16", RULES, tier=tier, replay=replay,
        explanation="AST def-use on generate.make_source/_build_translation (macro strings formatted only from lists obtained by "
                    "_call_pars(base_table.*, subs)); clang AST of a reparameterised witness unit generated from the current "
                    "tree (cylinder with volume/eccentricity and one intermediate): order intermediates < VALID < calls in the "
                    "innermost loop body of all three kernels, argument qualification; regex automaton for _IDENT_RE; "
                    "table derivation structure.",
        assumptions=["one witness reparameterisation stands for the generator's behaviour (its code path has no model-specific branch)"])
