"""C05 - orientation and angular jitter convention.

Decided: the rotation entries computed by qabc_rotation / qac_rotation equal,
as polynomials in sin/cos of the six angles, the entries of
(Rz(phi) Ry(theta) Rz(psi) Rx(dphi) Ry(dtheta) Rz(dpsi))^-1, the reference
being built from jitter.py's own Rx, Ry, Rz and @-chains (which must spell the
convention named in the property); view/jitter slot handling in the kernels;
|cos(dtheta)| weight; zero-centred jitter; 1-D exclusion of orientation;
unoriented models see only |q|.  Not decided: the numeric invariance
statements (they follow from the matrices).
"""
import ast
import sympy as sp
from ..report import run_check, AnalysisError
from .. import pyfacts as pf
from .. import nf, cfront
from ..ckernel import Kernel, norm, kids, var_decls
from ..nf import c_text, c_callee, CInterp, sym

KI = "sasmodels/kernel_iq.c"
J = "sasmodels/jitter.py"
ANG = ["theta", "phi", "psi", "dtheta", "dphi", "dpsi"]


# ---------------------------------------------------------------------------
def _matrix_fn(mod, name):
    """Rx/Ry/Rz from jitter.py as a function angle(deg) -> sympy Matrix."""
    fn = mod.func(name)
    rot = [s for s in fn.body if isinstance(s, ast.Assign) and pf.unparse(s.targets[0]) == "rot"]
    pre = [s for s in fn.body if isinstance(s, ast.Assign) and pf.unparse(s.targets[0]) == "angle"]
    if not rot or not isinstance(rot[0].value, ast.List):
        raise AnalysisError("jitter.%s: literal rotation matrix not found" % name)
    def build(a):
        env = {"angle": a}
        if pre:
            env["angle"] = nf.py_expr(pre[0].value, {"angle": a})
        rows = [[nf.py_expr(e, env) for e in row.elts] for row in rot[0].value.elts]
        return sp.Matrix(rows)
    return build, fn


def _chain(fn, want_len):
    """The `A(x)@B(y)@C(z)@points` chain assigned to points: [(matrix name, angle name)]."""
    best = None
    for st in pf.walk_stmts(fn):
        if isinstance(st, ast.Assign) and pf.unparse(st.targets[0]) == "points":
            terms = []
            node = st.value
            while isinstance(node, ast.BinOp) and isinstance(node.op, ast.MatMult):
                terms.insert(0, node.right)
                node = node.left
            terms.insert(0, node)
            if len(terms) >= 2 and pf.unparse(terms[-1]) == "points":
                mats = []
                for t in terms[:-1]:
                    if isinstance(t, ast.Call) and isinstance(t.func, ast.Name) and len(t.args) == 1 and isinstance(t.args[0], ast.Name):
                        mats.append((t.func.id, t.args[0].id))
                    else:
                        mats = None
                        break
                if mats and len(mats) == want_len:
                    # the 3-angle jitter form is the `else` arm (len(jitter) != 4)
                    best = (mats, st)
    if best is None:
        raise AnalysisError("jitter.%s: rotation chain not found" % fn.name)
    return best


def reference_rotation():
    mod = pf.module(J)
    mats = {n: _matrix_fn(mod, n)[0] for n in ("Rx", "Ry", "Rz")}
    view, vst = _chain(mod.func("orient_relative_to_beam"), 3)
    jit, jst = _chain(mod.func("apply_jitter"), 3)
    s = {a: sym(a) for a in ANG}
    V = sp.eye(3)
    for m, a in view:
        V = V * mats[m](s[a])
    Jm = sp.eye(3)
    for m, a in jit:
        Jm = Jm * mats[m](s[a])
    return V * Jm, view, jit, vst, jst


def analyse_unit(unit, extra):
    out = []
    def inst(rule, ok, fn, construct, line, detail=""):
        out.append((rule, "ok" if ok else "violation", KI, fn, construct, line, detail))
    s = {a: sym(a) for a in ANG}
    qx, qy = sym("qx"), sym("qy")
    have_abc = "qabc_rotation" in unit.functions
    have_ac = "qac_rotation" in unit.functions
    if have_abc or have_ac:
        R, view, jit, _, _ = reference_rotation()
        Rinv = R.T
    if have_abc:
        f = unit.fn("qabc_rotation")
        pnames = [p["name"] for p in unit.params(f)]

        def run_abc(script):
            interp = CInterp(unit.functions)
            interp.script = script
            rot = {}
            env = {"rotation": nf.Ref({"rot": rot}, "rot")}
            for p in pnames[1:]:
                env[p] = s[p]
            try:
                interp.stmt(unit.body(f), env)
            except CInterp.Return:
                pass
            return interp.trace, rot
        for trace, rot in nf.enumerate_paths(run_abc):
            subs = nf.path_assumptions(trace)
            where_ = "" if not trace else " on the path %s" % nf.path_text(trace)
            for (i, j) in ((1, 1), (1, 2), (2, 1), (2, 2), (3, 1), (3, 2)):
                name = "R%d%d" % (i, j)
                got = rot.get(name)
                want = Rinv[i - 1, j - 1]
                if subs and got is not None:
                    got, want = got.subs(subs), want.subs(subs)
                ok = got is not None and nf.equal(got, want, trig=True)
                inst("R-C05-matrix", ok, "%s:qabc_rotation" % unit.name, "rotation->%s%s" % (name, where_), f.get("_line", 0),
                     "equals entry (%d,%d) of (Rz(phi)Ry(theta)Rz(psi)Rx(dphi)Ry(dtheta)Rz(dpsi))^-1 as a polynomial in sin/cos" % (i, j)
                     if ok else "differs from the documented rotation: residual %s" % (sp.simplify(nf.residual(got, want, True)) if got is not None else "missing"))
        # apply: linear map with the matrix rows
        fa = unit.fn("qabc_apply")
        Rs = {n: sym("rotation_" + n) for n in ("R11", "R12", "R21", "R22", "R31", "R32")}
        outs = {}
        env = {"rotation": nf.Ref({"rot": dict(Rs)}, "rot"), "qx": qx, "qy": qy,
               "qa_out": nf.Ref(outs, "qa"), "qb_out": nf.Ref(outs, "qb"), "qc_out": nf.Ref(outs, "qc")}
        interp = CInterp(unit.functions)
        try:
            interp.stmt(unit.body(fa), env)
        except CInterp.Return:
            pass
        for nm, (a, b) in (("qa", ("R11", "R12")), ("qb", ("R21", "R22")), ("qc", ("R31", "R32"))):
            ok = nm in outs and nf.equal(outs[nm], Rs[a] * qx + Rs[b] * qy)
            inst("R-C05-matrix", ok, "%s:qabc_apply" % unit.name, "*%s_out = %s*qx + %s*qy" % (nm, a, b), fa.get("_line", 0),
                 "(qa,qb,qc) = R^-1 (qx,qy,0)")
    if have_ac:
        f = unit.fn("qac_rotation")
        pnames = [p["name"] for p in unit.params(f)]

        def run_ac(script):
            interp = CInterp(unit.functions)
            interp.script = script
            rot = {}
            env = {"rotation": nf.Ref({"rot": rot}, "rot")}
            for p in pnames[1:]:
                env[p] = s[p]
            try:
                interp.stmt(unit.body(f), env)
            except CInterp.Return:
                pass
            return interp.trace, rot
        zero = {s["psi"]: 0, s["dpsi"]: 0}
        for trace, rot in nf.enumerate_paths(run_ac):
            subs = nf.path_assumptions(trace)
            where_ = "" if not trace else " on the path %s" % nf.path_text(trace)
            for j in (1, 2):
                name = "R3%d" % j
                got = rot.get(name)
                want = Rinv[2, j - 1].subs(zero)
                if subs and got is not None:
                    got, want = got.subs(subs), want.subs(subs)
                ok = got is not None and nf.equal(got, want, trig=True)
                inst("R-C05-matrix", ok, "%s:qac_rotation" % unit.name, "rotation->%s%s" % (name, where_), f.get("_line", 0),
                     "third row of the inverse rotation with psi = dpsi = 0" if ok else
                     "differs: residual %s" % (sp.simplify(nf.residual(got, want, True)) if got is not None else "missing"))
        fa = unit.fn("qac_apply")
        Rs = {n: sym("rotation_" + n) for n in ("R31", "R32")}
        outs = {}
        env = {"rotation": nf.Ref({"rot": dict(Rs)}, "rot"), "qx": qx, "qy": qy,
               "qab_out": nf.Ref(outs, "qab"), "qc_out": nf.Ref(outs, "qc")}
        interp = CInterp(unit.functions, facts={"dqab_sq > 0": True})
        try:
            interp.stmt(unit.body(fa), env)
        except CInterp.Return:
            pass
        qc = Rs["R31"] * qx + Rs["R32"] * qy
        ok = "qc" in outs and nf.equal(outs["qc"], qc)
        inst("R-C05-matrix", ok, "%s:qac_apply" % unit.name, "*qc_out = R31*qx + R32*qy", fa.get("_line", 0))
        got = outs.get("qab")
        ok = got is not None and nf.equal(got ** 2, qx ** 2 + qy ** 2 - qc ** 2)
        inst("R-C05-matrix", ok, "%s:qac_apply" % unit.name, "*qab_out = sqrt(qx^2 + qy^2 - qc^2)", fa.get("_line", 0),
             "|q|^2 is preserved by the rotation")
    # ---- kernel side ----------------------------------------------------
    meta = unit.meta
    orient = meta.get("orientation", [])
    k = Kernel(unit, "Iqxy")
    fn = "%s:Iqxy" % unit.name
    decl = {n: init for n, d, init, st in k.decls}
    calls = {c_callee(n): n for n in cfront.walk(k.body) if n.get("kind") == "CallExpr"}
    model_call = [n for n in k.model_calls(("Iq", "Fq", "Iqac", "Iqabc", "Iqxy"))]
    if not model_call:
        inst("R-C05-radial", False, fn, "model function call in the 2-D kernel", k.fn.get("_line", 0), "not found")
        return out
    mc = model_call[0]
    callee = c_callee(mc)
    args = [norm(c_text(a)) for a in kids(mc)[1:]]
    if not orient and callee == "Iqxy":
        # exception (one named idiom, with reason): a model that defines Iqxy itself receives (qx, qy) by design
        # (kernel_iq.c: "Still want to provide Iqxy in case the user model wants full control of
        # orientation/magnetism"); today this is micromagnetic_FF_3D, whose pattern is anisotropic about the field.
        out.append(("R-C05-radial", "note", KI, fn, "model defines Iqxy itself and receives (qx, qy)", mc.get("_line", 0),
                    "outside the |q|-only clause by design (field-direction anisotropy)"))
        return out
    if not orient:
        # unoriented: the model sees only |q|
        ok = callee in ("Iq", "Fq") and args[0] == "sqrt(qx*qx+qy*qy)" and not any(
            a in ("qx", "qy") or "qx" in a for a in args[1:])
        inst("R-C05-radial", ok, fn, "%s(%s, ...)" % (callee, args[0]), mc.get("_line", 0),
             "a model without orientation parameters is evaluated at |q| only, so I(-q) = I(q) and the value is isotropic")
        tabargs = [a for a in args if a.startswith("local_values.table.")]
        inst("R-C05-1d", not any(a.split(".")[-1] in ("theta", "phi", "psi") for a in tabargs), fn,
             "no orientation member among the model arguments", mc.get("_line", 0))
        return out
    asym = "psi" in orient
    want_callee = "Iqabc" if asym else "Iqac"
    if callee == "Iqxy":
        out.append(("R-C05-view-jitter", "note", KI, fn, "model defines Iqxy itself (CRUFT path)", mc.get("_line", 0), ""))
        return out
    want_q = ["qa", "qb", "qc"] if asym else ["qa", "qc"]
    ok = callee == want_callee and args[:len(want_q)] == want_q
    inst("R-C05-radial", ok, fn, "%s(%s, ...)" % (callee, ", ".join(args[:len(want_q)])), mc.get("_line", 0),
         "qx, qy reach the model only through the rotation (linear in (qx,qy); qab even)")
    inst("R-C05-1d", not any(a.split(".")[-1] in ("theta", "phi", "psi") for a in args if a.startswith("local_values.table.")),
         fn, "no orientation member among the model arguments", mc.get("_line", 0),
         "orientation acts only through the rotation")
    D, V = k.p_details, k.p_values
    want = {"theta": 2, "phi": 3}
    if asym:
        want["psi"] = 4
    for a, off in want.items():
        got = norm(c_text(decl[a])) if decl.get(a) is not None else None
        inst("R-C05-view-jitter", got == norm("%s[%s->theta_par+%d]" % (V, D, off)), fn, "%s = values[theta_par + %d]" % (a, off),
             k.fn.get("_line", 0), "view angle read from the nominal value slot (found %s)" % got)
    # table slots zeroed before the loops (top level of the function body)
    top = [norm(c_text(x)) for x in kids(k.body) if x.get("kind") == "BinaryOperator"]
    for a in want:
        z = [t for t in top if t.startswith("local_values.table.%s=" % a)]
        inst("R-C05-view-jitter", bool(z) and z[0].split("=")[1] in ("0", "0.", "0.0"), fn, "local_values.table.%s = 0" % a,
             k.fn.get("_line", 0), "jitter defaults to zero when the angle has no distribution")
    rot_call = calls.get("qabc_rotation" if asym else "qac_rotation")
    if rot_call is None:
        inst("R-C05-view-jitter", False, fn, "rotation built inside the mesh loop", k.fn.get("_line", 0), "call not found")
    else:
        a = [norm(c_text(x)) for x in kids(rot_call)[1:]]
        wanta = ["&rotation", "theta", "phi", "psi", "dtheta", "dphi", "local_values.table.psi"] if asym else \
            ["&rotation", "theta", "phi", "dtheta", "dphi"]
        inst("R-C05-view-jitter", a == wanta, fn, "%s(%s)" % (c_callee(rot_call), ", ".join(a)), rot_call.get("_line", 0),
             "view angles first, jitter angles second, in the order of the rotation's parameters")
        fdecl = unit.fn(c_callee(rot_call))
        pn = [p["name"] for p in unit.params(fdecl)]
        inst("R-C05-view-jitter", pn[1:] == (["theta", "phi", "psi", "dtheta", "dphi", "dpsi"] if asym else ["theta", "phi", "dtheta", "dphi"]),
             fn, "%s parameters %s" % (c_callee(rot_call), pn[1:]), fdecl.get("_line", 0))
    # projection: dtheta/dphi taken from the table, weight = |cos(dtheta)| * weight0
    stm = [(norm(c_text(n)), n) for n in cfront.walk(k.innermost()) if n.get("kind") == "BinaryOperator" and n.get("opcode") == "="]
    d = dict((t.split("=")[0], (t.split("=", 1)[1], n)) for t, n in stm)
    inst("R-C05-view-jitter", d.get("dtheta", ("",))[0] == "local_values.table.theta" and d.get("dphi", ("",))[0] == "local_values.table.phi",
         fn, "dtheta, dphi = local_values.table.theta, .phi", k.fn.get("_line", 0), "jitter angles are the mesh values of the angle slots")
    w = d.get("weight")
    if w is None:
        inst("R-C05-cos", False, fn, "weight = fabs(cos(dtheta*pi/180)) * weight0", k.fn.get("_line", 0), "assignment not found")
    else:
        e = CInterp(unit.functions).expr(kids(w[1])[1], {"dtheta": sym("dtheta"), "weight0": sym("weight0")})
        ok = nf.equal(e, sp.Abs(sp.cos(sym("dtheta") * sp.pi / 180)) * sym("weight0"))
        inst("R-C05-cos", ok, fn, "weight = %s" % c_text(kids(w[1])[1]), w[1].get("_line", 0),
             "mesh weight times |cos(dtheta)| (equirectangular projection)")
    # apply call
    ap = calls.get("qabc_apply" if asym else "qac_apply")
    if ap is not None:
        a = [norm(c_text(x)) for x in kids(ap)[1:]]
        wanta = ["&rotation", "qx", "qy", "&qa", "&qb", "&qc"] if asym else ["&rotation", "qx", "qy", "&qa", "&qc"]
        inst("R-C05-view-jitter", a == wanta, fn, "%s(%s)" % (c_callee(ap), ", ".join(a)), ap.get("_line", 0))
    # 1-D kernel of an oriented model passes no orientation member
    k1 = Kernel(unit, "Iq")
    for mc1 in k1.model_calls(("Iq", "Fq")):
        a1 = [norm(c_text(x)) for x in kids(mc1)[1:]]
        inst("R-C05-1d", not any(x.split(".")[-1] in ("theta", "phi", "psi") for x in a1 if x.startswith("local_values.table.")),
             "%s:Iq" % unit.name, "1-D call passes no orientation member", mc1.get("_line", 0),
             "orientation parameters have no effect on 1-D data")
    return out


_C = None


def _c_results():
    global _C
    if _C is None:
        _C = cfront.map_units("sa.rules.c05:analyse_unit")
    return _C


def make_c_rule(rule_id):
    def run(r):
        for unit, rows in sorted(_c_results().items()):
            for row in rows:
                if row[0] == rule_id:
                    _, status, f, fn, construct, line, detail = row
                    getattr(r, status)(f, fn, construct, line, detail)
    return run


def rule_convention(r):
    """jitter.py's own chains spell the documented convention."""
    R, view, jit, vst, jst = reference_rotation()
    r.check(view == [("Rz", "phi"), ("Ry", "theta"), ("Rz", "psi")], J, "orient_relative_to_beam", pf.unparse(vst), vst.lineno,
            "view = Rz(phi) Ry(theta) Rz(psi)")
    r.check(jit == [("Rx", "dphi"), ("Ry", "dtheta"), ("Rz", "dpsi")], J, "apply_jitter", pf.unparse(jst), jst.lineno,
            "jitter = Rx(dphi) Ry(dtheta) Rz(dpsi)")
    mod = pf.module(J)
    tx = mod.func("transform_xyz")
    order = [pf.call_name(s.value) for s in tx.body if isinstance(s, ast.Assign) and isinstance(s.value, ast.Call)
             and pf.call_name(s.value) in ("apply_jitter", "orient_relative_to_beam")]
    r.check(order == ["apply_jitter", "orient_relative_to_beam"], J, "transform_xyz", "jitter applied first, then the view", tx.lineno,
            "R = view . jitter")
    # each elementary matrix is a proper rotation: M M^T = I, det = 1 (mod sin^2+cos^2)
    a = sym("a")
    for n in ("Rx", "Ry", "Rz"):
        build, fn = _matrix_fn(mod, n)
        M = build(a)
        ok = all(nf.equal((M * M.T)[i, j], 1 if i == j else 0, trig=True) for i in range(3) for j in range(3)) \
            and nf.equal(M.det(), 1, trig=True)
        r.check(ok, J, n, "orthonormal with determinant 1", fn.lineno)
        axis = {"Rx": 0, "Ry": 1, "Rz": 2}[n]
        r.check(all(M[axis, j] == (1 if j == axis else 0) for j in range(3)), J, n, "leaves its own axis fixed", fn.lineno)
    # right-handed sense: Rz(90) x = y, Rx(90) y = z, Ry(90) z = x
    bz, _ = _matrix_fn(mod, "Rz"); bx, _ = _matrix_fn(mod, "Rx"); by, _ = _matrix_fn(mod, "Ry")
    half = sp.Integer(90)
    def at(M):
        return M.applyfunc(lambda e: sp.nsimplify(sp.simplify(e)))
    r.check(at(bz(half)) * sp.Matrix([1, 0, 0]) == sp.Matrix([0, 1, 0]), J, "Rz", "Rz(90) x = y", 0, "counter-clockwise")
    r.check(at(bx(half)) * sp.Matrix([0, 1, 0]) == sp.Matrix([0, 0, 1]), J, "Rx", "Rx(90) y = z", 0)
    r.check(at(by(half)) * sp.Matrix([0, 0, 1]) == sp.Matrix([1, 0, 0]), J, "Ry", "Ry(90) z = x", 0)
    # documentation states the same product
    import os
    from ..report import REPO
    doc = open(os.path.join(REPO, "doc/guide/orientation/orientation.rst")).read()
    flat = " ".join(doc.split())
    r.check("R = R_z(\\phi)\\, R_y(\\theta)\\, R_z(\\Psi)\\, R_x(\\Delta\\phi)\\, R_y(\\Delta\\theta)\\, R_z(\\Delta\\Psi)" in flat,
            "doc/guide/orientation/orientation.rst", "<doc>", "R = Rz(phi) Ry(theta) Rz(Psi) Rx(dphi) Ry(dtheta) Rz(dPsi)", 0,
            "documented convention")


def rule_python_side(r):
    mi = pf.lib("modelinfo")
    MI = "sasmodels/modelinfo.py"
    ca = mi.func("ParameterTable.check_angles")
    txt = pf.unparse(ca)
    r.check("if phi != theta + 1:" in txt and "if psi >= 0 and psi != phi + 1:" in txt, MI, "ParameterTable.check_angles",
            "phi follows theta, psi follows phi", ca.lineno, "the kernel reads view angles at theta_par+2, +3, +4")
    for t in ("raise TypeError('phi must follow theta')", "raise TypeError('psi must follow phi')"):
        r.check(t in txt, MI, "ParameterTable.check_angles", t, ca.lineno)
    init = mi.func("ParameterTable.__init__")
    txt = pf.unparse(init)
    r.check("self.check_angles()" in txt, MI, "ParameterTable.__init__", "check_angles() called for every table", init.lineno)
    r.check("if p.name == 'theta':" in txt and "self.theta_offset = offset" in txt and "offset += p.length" in txt, MI,
            "ParameterTable.__init__", "theta_offset = sum of lengths before theta", init.lineno)
    r.check("self.iq_parameters = [p for p in self.kernel_parameters if p.type not in ('orientation', 'magnetic')]" in txt, MI,
            "ParameterTable.__init__", "iq_parameters exclude orientation", init.lineno)
    r.check("self.form_volume_parameters = [p for p in self.kernel_parameters if p.type == 'volume']" in txt, MI,
            "ParameterTable.__init__", "form_volume_parameters are the volume parameters", init.lineno)
    r.check("self.pd_1d = set((p.name for p in self.call_parameters if p.polydisperse and p.type not in ('orientation', 'magnetic')))" in txt,
            MI, "ParameterTable.__init__", "pd_1d excludes orientation", init.lineno, "angular dispersity inactive for 1-D data")
    d = pf.lib("details")
    cd = d.func("CallDetails.__init__")
    r.check("self.theta_par = parameters.theta_offset" in pf.unparse(cd), "sasmodels/details.py", "CallDetails.__init__",
            "theta_par = parameters.theta_offset", cd.lineno)
    dm = pf.lib("direct_model")
    gm = dm.func("get_mesh")
    t = pf.unparse(gm)
    r.check("elif dim == '1d':" in t and "active = lambda name: name in parameters.pd_1d" in t, "sasmodels/direct_model.py", "get_mesh",
            "1-D data: only pd_1d distributions are active", gm.lineno)
    g = pf.lib("generate")
    v = pf.const_value(g.module_assign("PROJECTION"))
    r.check(v == 1, "sasmodels/generate.py", "<module>", "PROJECTION = %s" % v, 0, "equirectangular projection selects the |cos| weight")
    # zero-centred jitter: shared with C02 (weights.get_weights) and the inactive branch of _pop_par_weights
    pw = dm.func("_pop_par_weights")
    r.check(pf.contains_text(pw, "pd = ([value if relative else 0.0], [1.0])"), "sasmodels/direct_model.py", "_pop_par_weights",
            "inactive angular distribution = [0.0]", pw.lineno)
    from .c02 import rule_centre
    rule_centre(r)


from . import extra3 as _x3
from . import parity as _parity
RULES = [
    ("R-C05-convention", 11, "jitter.py spells the documented convention with proper rotations", rule_convention),
    ("R-C05-matrix", 100, "kernel rotation entries = documented inverse rotation (polynomial identity)", make_c_rule("R-C05-matrix")),
    ("R-C05-parity", 18, "particle-frame intensity of every oriented model is invariant under q -> -q (parity typing)", _parity.rule_parity),
    ("R-C05-view-jitter", 100, "view/jitter slots in oriented kernels", make_c_rule("R-C05-view-jitter")),
    ("R-C05-cos", 18, "|cos(dtheta)| projection weight", make_c_rule("R-C05-cos")),
    ("R-C05-radial", 55, "q reaches the model as |q| or through the rotation only", make_c_rule("R-C05-radial")),
    ("R-C05-1d", 70, "no orientation member in 1-D / unoriented calls", make_c_rule("R-C05-1d")),
    ("R-C05-py-qlayout", 4, "Python path: (nq, 2) q buffer written and read by the same columns; default Iqxy evaluates Iq at |q|", _x3.rule_py_qlayout),
    ("R-C05-python", 18, "angle adjacency, offsets, 1-D exclusion, projection constant", rule_python_side),
    ("R-C05-orient-limits", 40, "orientation limits symmetric about zero in every model table", _x3.rule_c05_orient_limits),
    ("R-C05-guard", 8, "sqrt of the in-plane remainder guarded in qac_apply (all symmetric oriented units)", _x3.make_helper_rule("R-C05-guard")),
]


from . import shared
RULES = RULES + shared.bundle('C05', ['tablebounds', 'gauss-tables', 'gpu', 'carry', 'gate', 'restart', 'driver', 'values', 'stride', 'centre', 'loops'], ['details', 'weights', 'direct_model'])
from .. import refs as _refs
RULES = RULES + [_refs.ref_rule('C05')]


def run(tier="quick", replay=None):
    return run_check(
        "C05", RULES, tier=tier, replay=replay,
        explanation="Symbolic straight-line interpretation of qabc_rotation/qac_rotation/q*_apply from the clang AST of every "
                    "oriented unit; entries compared as polynomials in sin/cos atoms (sympy expand, cos^2 -> 1 - sin^2) with "
                    "the inverse of the product built from jitter.py's literal Rx, Ry, Rz and @-chains; structural rules on "
                    "the expanded Iqxy kernels (view angles at theta_par+2..4, zeroed jitter slots, argument orders, |cos| "
                    "weight, |q| for unoriented models) and on the Python tables.",
        assumptions=["R^-1 = R^T for the product of the three elementary rotations (each checked orthonormal)"])
