"""Parity typing of the particle-frame intensity functions (C05: I(-q) = I(q)).

(qa, qb, qc) = R^-1 (qx, qy, 0) is linear in (qx, qy), so the detector point -q reaches the model as (-qa, -qb, -qc)
[Iqabc] or (qab, -qc) [Iqac; qab is a magnitude].  An abstract interpretation over the clang AST of every oriented
model assigns each expression one of

    E  invariant under that sign change          O  changes sign
    N  provably neither (with the construct that made it so)      U  not decided (unsupported construct)

with the usual rules (E*O = O, O*O = E, O+O = O, E+O = N, cos/fabs/square/sinc of E|O = E, sin of O = O, `O == 0` = E,
`O < c` = N, a branch on an N condition makes what it assigns N, ...), calls into functions of the unit are analysed with
the parities of their actual arguments, loops are iterated to a fixed point.  The function's return value must be E.
"""
from ..report import AnalysisError
from .. import cfront
from ..ckernel import kids
from ..nf import c_text, c_strip, c_callee

E, O, N, U = "E", "O", "N", "U"

EVEN_FUNCS = {"cos", "cosh", "fabs", "abs", "square", "sas_sinx_x", "sas_2J1x_x", "sas_3j1x_x", "sas_J0", "j0", "sas_JN"}
ODD_FUNCS = {"sin", "sinh", "tan", "tanh", "asin", "atan", "cbrt", "cube", "sas_J1", "j1", "erf", "sas_erf", "sas_Si"}
EVEN_ARG_ONLY = {"sqrt", "log", "exp", "expm1", "log1p", "pow", "sas_gamma", "sas_gammaln", "acos", "floor", "ceil", "trunc", "fmax", "fmin",
                 "atan2", "erfc", "sas_erfc", "log10", "tgamma", "lgamma", "sas_lgamma", "fmod", "isnan", "isinf", "isfinite"}


class Val:
    __slots__ = ("p", "why")

    def __init__(self, p, why=None):
        self.p, self.why = p, why

    def __repr__(self):
        return self.p


def vE():
    return Val(E)


def join(a, b):
    if a.p == b.p:
        return a if a.why or not b.why else b
    for x in (a, b):
        if x.p == N:
            return x
    for x in (a, b):
        if x.p == U:
            return x
    return Val(N, "a value that is even on one path and odd on another")


class Ret(Exception):
    pass


class Parity:
    def __init__(self, unit):
        self.unit = unit
        self.memo = {}
        self.depth = 0

    def loc(self, n):
        f, l = self.unit.where(n)
        return "%s:%s" % (f, l)

    # ------------------------------------------------------------------ expressions
    def expr(self, n, env):
        k = n.get("kind")
        if k in ("ImplicitCastExpr", "ParenExpr", "ConstantExpr", "CStyleCastExpr"):
            return self.expr(kids(n)[0], env)
        if k in ("IntegerLiteral", "FloatingLiteral", "CharacterLiteral", "StringLiteral", "UnaryExprOrTypeTraitExpr"):
            return vE()
        if k == "DeclRefExpr":
            name = n["referencedDecl"]["name"]
            return env.get(name, vE())     # globals / constants / tables are invariant
        if k == "ArraySubscriptExpr":
            base, idx = kids(n)
            b = self.expr(base, env)
            i = self.expr(idx, env)
            if i.p != E:
                return Val(N if i.p in (O, N) else U, i.why or "array index %s depends on the sign of q (%s)" % (c_text(idx), self.loc(n)))
            return b
        if k == "MemberExpr":
            return self.expr(kids(n)[0], env) if kids(n) else vE()
        if k == "UnaryOperator":
            op = n.get("opcode")
            v = self.expr(kids(n)[0], env)
            if op in ("-", "+"):
                return v
            if op == "!":
                return v if v.p in (E, N, U) else Val(N, "`!` applied to a sign-changing value (%s)" % self.loc(n))
            if op in ("++", "--"):
                name = c_text(kids(n)[0]).strip()
                if v.p == O:
                    env[name] = Val(N, "%s of a sign-changing value (%s)" % (op, self.loc(n)))
                return env.get(name, v)
            if op == "*":
                return v
            if op == "&":
                return v
            return Val(U, "unary %s (%s)" % (op, self.loc(n)))
        if k == "BinaryOperator":
            op = n.get("opcode")
            if op == "=":
                v = self.expr(kids(n)[1], env)
                self.assign(kids(n)[0], v, env)
                return v
            if op == ",":
                self.expr(kids(n)[0], env)
                return self.expr(kids(n)[1], env)
            a, b = self.expr(kids(n)[0], env), self.expr(kids(n)[1], env)
            return self.binop(op, a, b, n)
        if k == "CompoundAssignOperator":
            op = n.get("opcode")[:-1]
            a, b = self.expr(kids(n)[0], env), self.expr(kids(n)[1], env)
            v = self.binop(op, a, b, n)
            self.assign(kids(n)[0], v, env)
            return v
        if k == "ConditionalOperator":
            c, x, y = kids(n)
            cv = self.expr(c, env)
            xv, yv = self.expr(x, env), self.expr(y, env)
            if cv.p == E:
                return join(xv, yv)
            if cv.p == U:
                return Val(U, cv.why)
            # the choice itself depends on the sign of q: only harmless when both alternatives are invariant and equal-valued,
            # which this analysis cannot see
            return Val(N, cv.why or "selection `%s ? .. : ..` on a condition that changes with the sign of q (%s)" % (c_text(c)[:40], self.loc(n)))
        if k == "CallExpr":
            return self.call(n, env)
        if k == "InitListExpr":
            v = vE()
            for ch in kids(n):
                v = join(v, self.expr(ch, env))
            return v
        return Val(U, "expression kind %s (%s)" % (k, self.loc(n)))

    def binop(self, op, a, b, n):
        for x in (a, b):
            if x.p == N:
                return x
        for x in (a, b):
            if x.p == U:
                return x
        if op in ("*", "/"):
            return Val(E if a.p == b.p else O)
        if op in ("+", "-"):
            if a.p == b.p:
                return Val(a.p)
            return Val(N, "`%s`: sum of an invariant and a sign-changing term (%s)" % (c_text(n)[:50], self.loc(n)))
        if op in ("==", "!="):
            if a.p == E and b.p == E:
                return vE()
            # O compared with zero is invariant; O == O' (both change sign) is invariant too
            if a.p == O and b.p == O:
                return vE()
            other = kids(n)[1] if a.p == O else kids(n)[0]
            o2 = c_strip(other)
            if o2.get("kind") in ("IntegerLiteral", "FloatingLiteral") and float(o2["value"]) == 0.0:
                return vE()
            return Val(N, "`%s` compares a sign-changing value with a non-zero invariant (%s)" % (c_text(n)[:50], self.loc(n)))
        if op in ("<", ">", "<=", ">="):
            if a.p == E and b.p == E:
                return vE()
            return Val(N, "`%s` orders a value that changes sign with q: the two halves of the detector take different branches (%s)"
                       % (c_text(n)[:50], self.loc(n)))
        if op in ("&&", "||"):
            return vE() if a.p == E and b.p == E else Val(N, "logical operator on a sign-dependent value (%s)" % self.loc(n))
        if op in ("%", "&", "|", "^", "<<", ">>"):
            return vE() if a.p == E and b.p == E else Val(U, "integer operator %s on a sign-changing value (%s)" % (op, self.loc(n)))
        return Val(U, "operator %s (%s)" % (op, self.loc(n)))

    def lname(self, n):
        n = c_strip(n)
        while n.get("kind") == "ParenExpr":
            n = c_strip(kids(n)[0])
        k = n.get("kind")
        if k == "DeclRefExpr":
            return n["referencedDecl"]["name"]
        if k in ("ArraySubscriptExpr", "MemberExpr"):
            return self.lname(kids(n)[0])
        if k == "UnaryOperator" and n.get("opcode") in ("*", "&"):
            return self.lname(kids(n)[0])
        return None

    def assign(self, lhs, v, env):
        name = self.lname(lhs)
        if name is None:
            return
        l0 = c_strip(lhs)
        if l0.get("kind") in ("ArraySubscriptExpr", "MemberExpr"):
            env[name] = join(env.get(name, v), v)     # weak update of aggregates
        else:
            env[name] = v
        ctl = env.get("__control__")
        if ctl is not None and ctl.p != E:
            env[name] = Val(ctl.p if ctl.p in (N, U) else N, ctl.why)

    def call(self, n, env):
        name = c_callee(n)
        args = kids(n)[1:]
        av = [self.expr(a, env) for a in args]
        if name == "SINCOS" or name == "sincos":
            pass
        if name in EVEN_FUNCS:
            a0 = av[-1] if name == "sas_JN" else (av[0] if av else vE())
            return vE() if a0.p in (E, O) and all(x.p == E for x in (av[:-1] if name == "sas_JN" else av[1:])) else Val(a0.p, a0.why)
        if name in ODD_FUNCS:
            a0 = av[0] if av else vE()
            return Val(a0.p, a0.why)
        if name in EVEN_ARG_ONLY:
            if name == "pow" and len(av) == 2 and av[1].p == E and av[0].p == O:
                e2 = c_strip(args[1])
                if e2.get("kind") in ("IntegerLiteral", "FloatingLiteral") and float(e2["value"]) == int(float(e2["value"])):
                    return Val(E if int(float(e2["value"])) % 2 == 0 else O)
            for x in av:
                if x.p in (N, U):
                    return x
            if all(x.p == E for x in av):
                return vE()
            return Val(N, "%s(...) of a value that changes sign with q (%s)" % (name, self.loc(n)))
        fn = self.unit.functions.get(name)
        if fn is not None and self.unit.body(fn) is not None:
            # pointer arguments: out-parameters are followed by name
            params = [p["name"] for p in self.unit.params(fn)]
            ptr = [("*" in p["type"]["qualType"] or "[" in p["type"]["qualType"]) for p in self.unit.params(fn)]
            key = (name, tuple(x.p for x in av))
            if key in self.memo and not any(ptr):
                return self.memo[key]
            if self.depth > 10:
                return Val(U, "call depth (%s)" % name)
            sub = {p: v for p, v in zip(params, av)}
            self.depth += 1
            try:
                rv = self.run(fn, sub)
            finally:
                self.depth -= 1
            for p, is_ptr, a in zip(params, ptr, args):
                if is_ptr:
                    tgt = self.lname(a)
                    if tgt is not None and p in sub:
                        env[tgt] = sub[p]
            if not any(ptr):
                self.memo[key] = rv
            return rv
        if all(x.p == E for x in av):
            return vE()
        return Val(U, "call of %s, which has no body in the unit, with a sign-changing argument (%s)" % (name, self.loc(n)))

    # ------------------------------------------------------------------ statements
    def run(self, fn, env):
        self.ret = getattr(self, "ret", None)
        saved = self.ret
        self.ret = None
        self.block(self.unit.body(fn), env)
        rv = self.ret if self.ret is not None else vE()
        self.ret = saved
        return rv

    def block(self, comp, env):
        for st in kids(comp):
            self.stmt(st, env)

    def copyenv(self, env):
        return dict(env)

    def merge(self, env, e1, e2):
        for k in set(e1) | set(e2):
            if k == "__control__":
                continue
            a, b = e1.get(k), e2.get(k)
            if a is None or b is None:
                env[k] = a or b
            else:
                env[k] = join(a, b)

    def stmt(self, st, env):
        k = st.get("kind")
        if k == "CompoundStmt":
            self.block(st, env)
        elif k == "DeclStmt":
            for d in kids(st):
                if d.get("kind") == "VarDecl":
                    init = kids(d)
                    env[d["name"]] = self.expr(init[0], env) if init else vE()
                    ctl = env.get("__control__")
                    if ctl is not None and ctl.p != E and init:
                        env[d["name"]] = Val(N if ctl.p != U else U, ctl.why)
        elif k == "ReturnStmt":
            v = self.expr(kids(st)[0], env) if kids(st) else vE()
            ctl = env.get("__control__")
            if ctl is not None and ctl.p != E:
                v = Val(N if ctl.p != U else U, ctl.why)
            self.ret = v if self.ret is None else join(self.ret, v)
        elif k == "IfStmt":
            parts = kids(st)
            cv = self.expr(parts[0], env)
            outer = env.get("__control__")
            e1, e2 = self.copyenv(env), self.copyenv(env)
            if cv.p != E:
                bad = Val(cv.p if cv.p in (N, U) else N, cv.why or "branch on `%s`, which changes with the sign of q (%s)" % (c_text(parts[0])[:40], self.loc(st)))
                e1["__control__"] = bad
                e2["__control__"] = bad
            self.stmt(parts[1], e1)
            if len(parts) > 2:
                self.stmt(parts[2], e2)
            self.merge(env, e1, e2)
            if outer is not None:
                env["__control__"] = outer
            else:
                env.pop("__control__", None)
        elif k in ("ForStmt", "WhileStmt", "DoStmt"):
            parts = st.get("inner", [])
            if k == "ForStmt":
                init, cond, inc, body = parts[0], parts[2], parts[3], parts[4]
                if init and init.get("kind"):
                    self.stmt(init, env)
            elif k == "WhileStmt":
                cond, body, inc = parts[0], parts[1], None
            else:
                body, cond, inc = parts[0], parts[1], None
            for _ in range(5):
                before = {k_: v_.p for k_, v_ in env.items()}
                e1 = self.copyenv(env)
                if cond and cond.get("kind"):
                    cv = self.expr(cond, e1)
                    if cv.p != E:
                        e1["__control__"] = Val(cv.p if cv.p in (N, U) else N, cv.why or "loop bound depends on the sign of q (%s)" % self.loc(st))
                self.stmt(body, e1)
                if inc and inc.get("kind"):
                    self.expr(inc, e1)
                e1.pop("__control__", None) if "__control__" not in env else None
                self.merge(env, dict(env), e1)
                if {k_: v_.p for k_, v_ in env.items()} == before:
                    break
        elif k in ("NullStmt", "BreakStmt", "ContinueStmt"):
            pass
        elif k == "SwitchStmt":
            parts = kids(st)
            cv = self.expr(parts[0], env)
            e1 = self.copyenv(env)
            if cv.p != E:
                e1["__control__"] = Val(N if cv.p != U else U, cv.why)
            self.stmt(parts[1], e1)
            self.merge(env, dict(env), e1)
        elif k in ("CaseStmt", "DefaultStmt"):
            self.stmt(kids(st)[-1], env)
        else:
            self.expr(st, env)


def parity_unit(unit, extra):
    out = []
    ab = unit.functions.get("Iqabc")
    ac = unit.functions.get("Iqac")
    for fname, fn, odd_params in (("Iqabc", ab, (0, 1, 2)), ("Iqac", ac, (1,))):
        if fn is None or unit.body(fn) is None:
            continue
        params = [p["name"] for p in unit.params(fn)]
        env = {p: Val(O if i in odd_params else E) for i, p in enumerate(params)}
        an = Parity(unit)
        rv = an.run(fn, env)
        f, l = unit.where(fn)
        what = "%s(%s) is invariant under q -> -q" % (fname, ", ".join(("-" if i in odd_params else "") + p for i, p in enumerate(params[:3])) + ", ...")
        if rv.p == E:
            out.append(("R-C05-parity", "ok", f, "%s:%s" % (unit.name, fname), what, l, "every path returns a value of even parity"))
        elif rv.p == U:
            out.append(("R-C05-parity", "note", f, "%s:%s" % (unit.name, fname), what, l, "not decided: %s" % rv.why))
        else:
            out.append(("R-C05-parity", "violation", f, "%s:%s" % (unit.name, fname), what, l,
                        "the returned intensity is %s: %s - I(-q) differs from I(q) for this model" % (
                            "odd in q" if rv.p == O else "neither even nor odd in q", rv.why or "product of an odd number of sign-changing factors")))
    return out


_cache = None


def rule_parity(r):
    global _cache
    if _cache is None:
        _cache = cfront.map_units("sa.rules.parity:parity_unit")
    n = 0
    for unit, rows in sorted(_cache.items()):
        for row in rows:
            _, status, f, fn, construct, line, detail = row
            n += 1
            getattr(r, status)(f, fn, construct, line, detail)
    if n < 18:
        raise AnalysisError("parity rule examined only %d oriented model functions" % n)
