"""C15 - precision conversion.

Decided: exact language of the literal-tagging regex (DFA equality with the
C99 decimal floating grammar minus the documented exclusion), its zero-width
context, extent stability, replacement templates; structure and consumed
context of the `double` keyword regex; tgmath promotion list and integer
grammar; dtype dispatch tables.  Not decided: that converted kernels build and
agree numerically.
"""
import ast, re
from ..report import run_check, AnalysisError
from .. import pyfacts as pf
from .. import rx

F = "sasmodels/generate.py"
NONWORD_ASCII = frozenset(c for c in range(128) if not (chr(c).isalnum() or chr(c) == "_"))


def _pattern_of(node):
    """(pattern string, flags) of a re.compile(...) call or a plain string node."""
    if isinstance(node, ast.Call) and pf.call_name(node) in ("re.compile", "compile"):
        flags = 0
        for a in node.args[1:] + [k.value for k in node.keywords if k.arg == "flags"]:
            for n in ast.walk(a):
                if isinstance(n, ast.Attribute) and n.attr in ("VERBOSE", "X"):
                    flags |= re.VERBOSE
                if isinstance(n, ast.Attribute) and n.attr in ("MULTILINE", "M"):
                    flags |= re.MULTILINE
        return ast.literal_eval(node.args[0]), flags
    return ast.literal_eval(node), 0


REF_FLOAT = r"((0|[1-9]\d*)\.\d*|\.\d+)([eE][+-]?\d+)?|(0|[1-9]\d*)[eE][+-]?\d+"
C99_FLOAT = r"(\d*\.\d+|\d+\.)([eE][+-]?\d+)?|\d+[eE][+-]?\d+"
LEADING_ZERO = r"0\d+(\.\d*)?([eE][+-]?\d+)?"
C99_HEX = r"0[xX]([0-9a-fA-F]*\.[0-9a-fA-F]+|[0-9a-fA-F]+\.?)[pP][+-]?\d+"


def rule_float_lang(r):
    g = pf.lib("generate")
    node = g.module_assign("FLOAT_RE")
    pat, flags = _pattern_of(node)
    items = rx.parse(pat, flags)
    left, body, right = rx.split_context(items)
    # zero-width context: not preceded / followed by a word character
    la = [rx.describe_assert(x) for x in left]
    ra = [rx.describe_assert(x) for x in right]
    r.check(any(k == "not" and d == -1 and cs == rx.WORD for k, d, cs in la), F, "FLOAT_RE",
            "left context (?<!\\w)", node.lineno, "a literal may not start inside an identifier or number: %s" % [(k, d) for k, d, _ in la])
    r.check(any(k == "not" and d == 1 and cs == rx.WORD for k, d, cs in ra), F, "FLOAT_RE",
            "right context (?!\\w)", node.lineno, "a literal may not be cut before a suffix/identifier: %s" % [(k, d) for k, d, _ in ra])
    A = rx.DFA(rx.nfa_of(body))
    B = rx.DFA(rx.nfa_of(rx.parse(REF_FLOAT)))
    w1, w2 = rx.equivalent(A, B)
    r.check(w1 is None, F, "FLOAT_RE", "language within C99 decimal floating constants (no leading zero)", node.lineno,
            "matches %r which is not a floating constant" % w1 if w1 is not None else "DFA inclusion, %d states" % len(A.table))
    r.check(w2 is None, F, "FLOAT_RE", "language covers C99 decimal floating constants (no leading zero)", node.lineno,
            "misses the floating constant %r" % w2 if w2 is not None else "DFA inclusion")
    # the difference to full C99 is exactly the documented exclusion (leading zero in the integer part)
    C = rx.DFA(rx.nfa_of(rx.parse(C99_FLOAT)))
    Z = rx.DFA(rx.nfa_of(rx.parse(REF_FLOAT + "|" + LEADING_ZERO)))
    w = rx.difference_witness(C, Z)
    r.check(w is None, F, "FLOAT_RE", "C99 decimal constants missed are only those with a leading zero", node.lineno,
            "also misses %r" % w if w is not None else "difference to C99 confined to 0<digits>...")
    w = rx.difference_witness(C, A)
    if w is not None:
        r.violation(F, "FLOAT_RE", "decimal floating constants with a leading zero are not tagged", node.lineno,
                    "e.g. %r stays double precision (documented exclusion; integer part must be 0 or [1-9]\\d*)" % w)
    else:
        r.ok(F, "FLOAT_RE", "decimal floating constants with a leading zero", node.lineno)
    # hexadecimal floating constants
    H = rx.DFA(rx.nfa_of(rx.parse(C99_HEX)))
    wh = rx.difference_witness(H, A)
    if wh is not None:
        r.violation(F, "FLOAT_RE", "hexadecimal floating constants are not tagged", node.lineno,
                    "e.g. %r is a C99 floating constant outside the pattern's language" % wh)
    else:
        r.ok(F, "FLOAT_RE", "hexadecimal floating constants", node.lineno)
    # extent stability: from an accepting state, a non-word character may not lead to a longer match
    bad = None
    for i, acc in enumerate(A.accepting):
        if not acc:
            continue
        for c in NONWORD_ASCII:
            t = A.table[i][c]
            if t is not None and t in A.live:
                bad = (i, chr(c))
    r.check(bad is None, F, "FLOAT_RE", "no match is a proper prefix of another match across a non-word character",
            node.lineno, "alternation order cannot change the extent" if bad is None else
            "after a complete literal, %r can extend the match: leftmost-first alternation may stop early" % bad[1])
    # replacement template
    tf = g.func("_tag_float")
    subs = [c for c in pf.calls_in(tf) if isinstance(c.func, ast.Attribute) and c.func.attr == "sub"
            and pf.unparse(c.func.value) == "FLOAT_RE"]
    if not subs:
        raise AnalysisError("_tag_float: FLOAT_RE.sub call not found")
    repl = subs[0].args[0]
    flag = pf.positional_params(tf)[1]
    ok = isinstance(repl, ast.BinOp) and isinstance(repl.op, ast.Mod) and isinstance(repl.left, ast.Constant) \
        and repl.left.value == "\\g<0>%s" and pf.unparse(repl.right) == flag
    r.check(ok, F, "_tag_float", "FLOAT_RE.sub(%s, ...)" % pf.unparse(repl), subs[0].lineno,
            "replacement keeps the whole match and appends only the flag")
    r.check(pf.unparse(subs[0].args[1]) == pf.positional_params(tf)[0], F, "_tag_float", "substitution over the whole source",
            subs[0].lineno)


def _keyword_sub(g):
    fn = g.func("_convert_type")
    for c in pf.calls_in(fn):
        if pf.call_name(c) == "re.sub":
            return fn, c
    raise AnalysisError("_convert_type: re.sub call not found")


def _boundary(node):
    """Describe a boundary element: ('assert'|'consume', has_anchor, charset, optional tail literals)."""
    op, av = node
    name = str(op)
    if name in ("ASSERT", "ASSERT_NOT"):
        direction, sub = av
        sub = list(sub)
        if name == "ASSERT_NOT" and len(sub) == 1 and rx.charset(*sub[0]) is not None:
            return ("assert", True, rx.ALL - rx.charset(*sub[0]), direction)
        if name == "ASSERT" and len(sub) == 1 and str(sub[0][0]) == "BRANCH":
            anchor, cs = False, frozenset()
            for alt in sub[0][1][1]:
                alt = list(alt)
                if len(alt) == 1 and str(alt[0][0]) == "AT":
                    anchor = True
                elif len(alt) == 1 and rx.charset(*alt[0]) is not None:
                    cs |= rx.charset(*alt[0])
                else:
                    return None
            return ("assert", anchor, cs, direction)
        if name == "ASSERT" and len(sub) == 1 and rx.charset(*sub[0]) is not None:
            return ("assert", False, rx.charset(*sub[0]), direction)
        return None
    if name == "SUBPATTERN":
        sub = list(av[3] if len(av) > 3 else av[1])
        if len(sub) == 1:
            return _boundary(sub[0])
        return None
    if name == "BRANCH":
        anchor, cs, tails = False, frozenset(), []
        for alt in av[1]:
            alt = list(alt)
            if len(alt) == 1 and str(alt[0][0]) == "AT":
                anchor = True
            elif alt and rx.charset(*alt[0]) is not None:
                cs |= rx.charset(*alt[0])
                if len(alt) > 1:
                    tails.append(alt[1:])
            else:
                return None
        return ("consume", anchor, cs, tails)
    if name == "AT":
        return ("assert", True, frozenset(), 0)
    return None


def _decompose_keyword(items):
    """-> dict(left=..., core='double', widths=[...], right=..., groups=...)"""
    items = list(items)
    # literal run
    lits = [i for i, (op, av) in enumerate(items) if str(op) == "LITERAL"]
    if not lits:
        raise AnalysisError("keyword regex: no literal run")
    i0 = lits[0]
    i1 = i0
    while i1 + 1 < len(items) and str(items[i1 + 1][0]) == "LITERAL":
        i1 += 1
    core = "".join(chr(av) for op, av in items[i0:i1 + 1])
    left_items = items[:i0]
    right_items = items[i1 + 1:]
    return core, left_items, right_items


def rule_keyword(r):
    g = pf.lib("generate")
    fn, call = _keyword_sub(g)
    pat, flags = _pattern_of(call.args[0])
    items = list(rx.parse(pat, flags))
    core, left_items, right_items = _decompose_keyword(items)
    r.check(core == "double", F, "_convert_type", "keyword literal %r" % core, call.lineno)
    # left boundary
    lb = None
    left_tail = []
    if len(left_items) == 1:
        lb = _boundary(left_items[0])
    elif len(left_items) >= 1:
        lb = _boundary(left_items[0])
        left_tail = left_items[1:]
    if lb is None:
        raise AnalysisError("keyword regex: left boundary not understood: %s" % left_items)
    nonword = NONWORD_ASCII
    ascii_ = frozenset(range(128))
    r.check(lb[1] and (lb[2] & ascii_) == nonword, F, "_convert_type", "left boundary: start of text or a non-identifier character",
            call.lineno, "%s %s" % (lb[0], "anchor" if lb[1] else "no anchor"))
    # optional 'c' prefix (cdouble) allowed only directly after the boundary
    tails = lb[3] if lb[0] == "consume" else []
    tail_lang = set()
    for t in tails:
        tail_lang |= set(rx.finite_language(t))
    for t in left_tail:
        pass
    if left_tail:
        tail_lang |= set(rx.finite_language(left_tail))
    r.check(tail_lang <= {"", "c"}, F, "_convert_type", "prefix between boundary and keyword: %s" % sorted(tail_lang),
            call.lineno, "only the complex prefix c may precede `double` inside the identifier")
    # right side: optional width then boundary; locate inside possibly nested groups
    def flatten(its):
        out = []
        for op, av in its:
            if str(op) == "SUBPATTERN":
                sub = list(av[3] if len(av) > 3 else av[1])
                # keep a group that is a pure boundary or a pure width as a unit
                if _boundary((op, av)) is not None:
                    out.append((op, av))
                else:
                    out.extend(flatten(sub))
            else:
                out.append((op, av))
        return out
    flat = flatten(right_items)
    if not flat:
        raise AnalysisError("keyword regex: nothing after the keyword")
    rb = _boundary(flat[-1])
    if rb is None:
        raise AnalysisError("keyword regex: right boundary not understood")
    widths = rx.finite_language(flat[:-1]) if len(flat) > 1 else [""]
    r.check(set(widths) == {"", "2", "4", "8", "16"}, F, "_convert_type", "vector widths %s" % widths, call.lineno,
            "OpenCL vector types double2/4/8/16")
    r.check(rb[1] and (rb[2] & ascii_) == nonword, F, "_convert_type", "right boundary: end of text or a non-identifier character",
            call.lineno, "%s" % rb[0])
    # replacement keeps groups 1 and 2 around the new type name
    repl = call.args[1]
    ok = isinstance(repl, ast.BinOp) and isinstance(repl.left, ast.Constant) and repl.left.value == "\\1%s\\2" \
        and pf.unparse(repl.right) == pf.positional_params(fn)[1]
    r.check(ok, F, "_convert_type", "replacement %s" % pf.unparse(repl), call.lineno, "keeps both context groups")
    # group structure: group 1 = left context, group 2 = everything after the keyword
    top = [str(op) for op, av in items]
    r.check(top[0] == "SUBPATTERN" and top[-1] == "SUBPATTERN" and len([t for t in top if t == "SUBPATTERN"]) == 2,
            F, "_convert_type", "top-level groups \\1 <keyword> \\2", call.lineno, "%s" % top)
    return lb, rb


def rule_consume(r):
    """A boundary character consumed on the right that is also required (and consumed) on the
    left makes re.sub skip the second of two adjacent occurrences."""
    g = pf.lib("generate")
    fn, call = _keyword_sub(g)
    pat, flags = _pattern_of(call.args[0])
    items = list(rx.parse(pat, flags))
    core, left_items, right_items = _decompose_keyword(items)
    lb = _boundary(left_items[0]) if left_items else None
    def last_boundary(its):
        its = list(its)
        while its:
            op, av = its[-1]
            b = _boundary((op, av))
            if b is not None:
                return b
            if str(op) == "SUBPATTERN":
                its = list(av[3] if len(av) > 3 else av[1])
            else:
                return None
        return None
    rb = last_boundary(right_items)
    if lb is None or rb is None:
        raise AnalysisError("keyword regex: boundaries not understood")
    overlap = (lb[2] & rb[2]) if (lb[0] == "consume" and rb[0] == "consume") else frozenset()
    sample = "".join(sorted(chr(c) for c in overlap if 32 < c < 127))[:12]
    r.check(not overlap, F, "_convert_type", "right boundary is %sd, left boundary is %sd" % (rb[0], lb[0]), call.lineno,
            "the separator between two adjacent keywords (any of %r ...) is consumed by the first match and is then "
            "not available as the left boundary of the second: `double f(double,double)` keeps its last `double`"
            % sample if overlap else "no separator is consumed twice")


DOCUMENTED_TGMATH = {"sin", "cos", "tan", "asin", "acos", "atan", "sinh", "cosh", "tanh", "asinh", "acosh", "atanh",
                     "atan2", "exp", "exp2", "exp10", "expm1", "log", "log2", "log10", "log1p",
                     "pow", "pown", "powr", "sqrt", "rsqrt", "rootn", "erf", "erfc", "tgamma", "fabs", "fmin", "fmax"}


def rule_tgmath(r):
    g = pf.lib("generate")
    node = g.module_assign("TGMATH_INT_RE")
    pat, flags = _pattern_of(node)
    items = list(rx.parse(pat, flags))
    kinds = [str(op) for op, _ in items]
    # expected shape: \b <functions group> \s* ( \s* <integer> (?= \s* [,)] )
    if kinds[0] != "AT" or "BOUNDARY" not in str(items[0][1]):
        r.violation(F, "TGMATH_INT_RE", "word boundary before the function name", node.lineno, str(items[0]))
    else:
        r.ok(F, "TGMATH_INT_RE", "word boundary before the function name", node.lineno)
    funcs = rx.finite_language([items[1]])
    missing = sorted(DOCUMENTED_TGMATH - set(funcs))
    r.check(not missing, F, "TGMATH_INT_RE", "function alternation covers the documented list", node.lineno,
            "missing %s" % missing if missing else "%d names" % len(funcs))
    # integer grammar: locate the part between the open parenthesis and the lookahead
    idx_paren = [i for i, (op, av) in enumerate(items) if rx.charset(op, av) == frozenset([ord("(")])]
    if not idx_paren:
        raise AnalysisError("TGMATH_INT_RE: open parenthesis not found")
    i = idx_paren[0]
    rest = items[i + 1:]
    if str(rest[-1][0]) != "ASSERT":
        r.violation(F, "TGMATH_INT_RE", "argument end is a lookahead", node.lineno, "integer end not protected")
        return
    r.ok(F, "TGMATH_INT_RE", "argument end is a lookahead", node.lineno)
    la_dir, la_sub = rest[-1][1]
    la = rx.DFA(rx.nfa_of(list(la_sub)))
    ref_la = rx.DFA(rx.nfa_of(rx.parse(r"\s*[,)]")))
    w1, w2 = rx.equivalent(la, ref_la)
    r.check(w1 is None and w2 is None and la_dir == 1, F, "TGMATH_INT_RE", "lookahead = optional space then , or )",
            node.lineno, "witness %r %r" % (w1, w2))
    mid = rest[:-1]
    A = rx.DFA(rx.nfa_of(mid))
    B = rx.DFA(rx.nfa_of(rx.parse(r"\s*[+-]?(0|[1-9]\d*)")))
    w1, w2 = rx.equivalent(A, B)
    r.check(w1 is None and w2 is None, F, "TGMATH_INT_RE", "first argument = [+-]?(0|[1-9]\\d*)", node.lineno,
            "differs on %r / %r" % (w1, w2) if (w1 or w2) else "DFA equality")
    fx = g.func("_fix_tgmath_int")
    subs = [c for c in pf.calls_in(fx) if isinstance(c.func, ast.Attribute) and c.func.attr == "sub"]
    r.check(bool(subs) and isinstance(subs[0].args[0], ast.Constant) and subs[0].args[0].value == "\\g<0>.", F,
            "_fix_tgmath_int", "replacement appends only '.'", fx.lineno)


def rule_raw_text(r):
    """The substitutions are applied to raw text: nothing masks string literals or comments."""
    g = pf.lib("generate")
    masked = False
    for qual in ("convert_type", "_convert_type", "_tag_float", "_fix_tgmath_int"):
        fn = g.func(qual)
        for c in pf.calls_in(fn):
            nm = pf.call_name(c) or ""
            if any(k in nm.lower() for k in ("token", "mask", "strip_comment", "lex")):
                masked = True
        for n in ast.walk(fn):
            if isinstance(n, ast.Constant) and isinstance(n.value, str) and ('"' in n.value and "\\" in n.value and "(" in n.value):
                masked = True
    if masked:
        r.ok(F, "convert_type", "string literals and comments are masked before substitution", 0)
    else:
        r.violation(F, "convert_type", "regex substitution over raw text", g.func("convert_type").lineno,
                    "floating literals and the word double inside string literals and comments are rewritten too "
                    "(e.g. printf(\"1.0\") becomes printf(\"1.0f\")): the conversion does not tokenise its input")


def rule_dispatch(r):
    g = pf.lib("generate")
    fn = g.func("convert_type")
    # F-constants
    bits = {}
    for name in ("F16", "F32", "F64"):
        v = g.module_assign(name)
        txt = pf.unparse(v)
        m = re.search(r"float(\d+)", txt)
        bits[name] = int(m.group(1)) // 8 if m else None
    bits["F128"] = 16
    chain = [s for s in fn.body if isinstance(s, ast.If)]
    if not chain:
        raise AnalysisError("convert_type: dispatch chain not found")
    retn = [s for s in fn.body if isinstance(s, ast.Return)]
    size_var = None
    if retn:
        for n in ast.walk(retn[0].value):
            if isinstance(n, ast.BinOp) and isinstance(n.op, ast.Mod) and isinstance(n.left, ast.Constant) and "FLOAT_SIZE" in str(n.left.value):
                size_var = pf.unparse(n.right)
    if size_var is None:
        raise AnalysisError("convert_type: '#define FLOAT_SIZE %d' % <var> not found in the return value")
    cur = chain[0]
    want = {"F16": (2, "half", "f"), "F32": (4, "float", "f"), "F64": (8, None, None), "F128": (16, "long double", "L")}
    seen = set()
    while True:
        t = cur.test
        if isinstance(t, ast.Compare) and isinstance(t.comparators[0], ast.Name):
            key = t.comparators[0].id
            fbytes, conv = None, (None, None)
            for b in cur.body:
                if isinstance(b, ast.Assign) and pf.unparse(b.targets[0]) == size_var:
                    fbytes = pf.const_value(b.value)
                if isinstance(b, ast.Assign) and isinstance(b.value, ast.Call) and pf.call_name(b.value) == "_convert_type":
                    conv = (pf.const_value(b.value.args[1]), pf.const_value(b.value.args[2]))
            if key in want:
                seen.add(key)
                r.check((fbytes, conv[0], conv[1]) == want[key] and bits.get(key) == fbytes, F, "convert_type",
                        "%s -> FLOAT_SIZE %s, type %s, suffix %s" % (key, fbytes, conv[0], conv[1]), cur.lineno,
                        "want %s; itemsize of %s is %s" % (want[key], key, bits.get(key)))
        if len(cur.orelse) == 1 and isinstance(cur.orelse[0], ast.If):
            cur = cur.orelse[0]
        else:
            r.check(pf.ends_in_raise(cur.orelse), F, "convert_type", "unknown dtype raises", cur.lineno)
            break
    r.check(seen == set(want), F, "convert_type", "all four precisions dispatched", fn.lineno, "%s" % sorted(seen))
    ret = [s for s in fn.body if isinstance(s, ast.Return)][0]
    r.check("#define FLOAT_SIZE %d" in pf.unparse(ret.value) and size_var in pf.unparse(ret.value), F, "convert_type",
            "FLOAT_SIZE defined from the per-precision size", ret.lineno)
    first = fn.body[1] if isinstance(fn.body[0], ast.Expr) else fn.body[0]
    r.check(isinstance(first, ast.Assign) and pf.call_name(first.value) == "_fix_tgmath_int", F, "convert_type",
            "integer promotion precedes literal tagging", first.lineno,
            "so that promoted integers (1.) are tagged as well")
    # ctypes and numpy dispatch in kerneldll
    k = pf.lib("kerneldll")
    KF = "sasmodels/kerneldll.py"
    def ifexp_table(expr):
        out = []
        while isinstance(expr, ast.IfExp):
            out.append((pf.unparse(expr.test), pf.unparse(expr.body)))
            expr = expr.orelse
        out.append(("else", pf.unparse(expr)))
        return out
    ld = k.func("DllModel._load_dll")
    ft = [s for s in pf.walk_stmts(ld) if isinstance(s, ast.Assign) and pf.unparse(s.targets[0]) == "float_type"]
    if not ft:
        raise AnalysisError("DllModel._load_dll: float_type not found")
    tab = ifexp_table(ft[0].value)
    r.check(tab == [("self.dtype == generate.F32", "ct.c_float"), ("self.dtype == generate.F64", "ct.c_double"),
                    ("else", "ct.c_longdouble")], KF, "DllModel._load_dll", "float_type = %s" % tab, ft[0].lineno,
            "ctypes argument type per precision")
    ki = k.func("DllKernel.__init__")
    ad = [s for s in pf.walk_stmts(ki) if isinstance(s, ast.Assign) and pf.unparse(s.targets[0]) == "self._as_dtype"]
    if not ad:
        raise AnalysisError("DllKernel.__init__: _as_dtype not found")
    tab = ifexp_table(ad[0].value)
    r.check(tab[0] == ("dtype == generate.F32", "np.float32") and tab[1] == ("dtype == generate.F64", "np.float64")
            and ("longdouble" in tab[2][1] or "float128" in tab[2][1]), KF, "DllKernel.__init__", "_as_dtype = %s" % tab, ad[0].lineno,
            "scalar conversion per precision")
    dn = k.func("dll_name")
    r.check(any(isinstance(s, ast.Assign) and pf.unparse(s.value) == "8 * dtype.itemsize" for s in dn.body) and
            "bits" in pf.unparse(dn), KF, "dll_name", "bits = 8*dtype.itemsize in the library name", dn.lineno)
    md = k.func("make_dll")
    src = pf.unparse(md)
    r.check("generate.convert_type(source, dtype)" in src, KF, "make_dll", "source converted with the dtype in the name",
            md.lineno)
    # FLOAT_SIZE users: every conditional compares with 4 (single vs double-or-wider)
    import glob, os
    from ..report import REPO
    n = 0
    for path in sorted(glob.glob(os.path.join(REPO, "sasmodels", "models", "**", "*.c"), recursive=True) +
                       [os.path.join(REPO, "sasmodels", "kernel_iq.c"), os.path.join(REPO, "sasmodels", "kernel_header.c")]):
        with open(path) as fd:
            for ln, line in enumerate(fd, 1):
                m = re.match(r"\s*#\s*(if|elif)\b(.*FLOAT_SIZE.*)", line)
                if m:
                    n += 1
                    cond = m.group(2).split("//")[0].strip()
                    okc = re.fullmatch(r"FLOAT_SIZE\s*(>|>=|<|<=|==)\s*\d+", cond) is not None
                    thr = re.search(r"(>|>=|<|<=|==)\s*(\d+)", cond)
                    good = okc and ((thr.group(1) == ">" and thr.group(2) == "4") or (thr.group(1) == "<=" and thr.group(2) == "4")
                                    or (thr.group(1) == ">=" and thr.group(2) == "8") or (thr.group(1) == "<" and thr.group(2) == "8"))
                    r.check(good, os.path.relpath(path, REPO), "#if", cond, ln,
                            "single/double split at FLOAT_SIZE 4|8, matching the values convert_type defines")
    if n < 10:
        raise AnalysisError("only %d FLOAT_SIZE conditionals found" % n)
    # parse_dtype aliases
    c = pf.lib("core")
    pd = c.func("parse_dtype")
    CF = "sasmodels/core.py"
    txt = pf.unparse(pd)
    alias = {}
    for st in pf.walk_stmts(pd):
        if isinstance(st, ast.If):
            cur = st
            while True:
                t = cur.test
                tt = pf.unparse(t)
                for b in cur.body:
                    if isinstance(b, ast.Assign) and pf.unparse(b.targets[0]) == "dtype" and isinstance(b.value, ast.Constant):
                        alias[tt] = b.value.value
                if len(cur.orelse) == 1 and isinstance(cur.orelse[0], ast.If):
                    cur = cur.orelse[0]
                else:
                    break
    r.check(alias.get("fast") == "single", CF, "parse_dtype", "fast -> single", pd.lineno, str(alias))
    r.check(alias.get("dtype == 'quad'") == "longdouble", CF, "parse_dtype", "quad -> longdouble", pd.lineno, str(alias))
    r.check(alias.get("dtype == 'half'") == "float16", CF, "parse_dtype", "half -> float16", pd.lineno, str(alias))
    bang = [s for s in pf.walk_stmts(pd) if isinstance(s, ast.If) and "endswith('!')" in pf.unparse(s.test)]
    okb = bool(bang) and any(pf.unparse(b) == "platform = 'dll'" for b in bang[0].body) \
        and any(pf.unparse(b) == "dtype = dtype[:-1]" for b in bang[0].body)
    r.check(okb, CF, "parse_dtype", "trailing ! forces the dll platform and is stripped", pd.lineno)
    r.check("numpy_dtype = np.dtype(dtype)" in txt, CF, "parse_dtype", "remaining names resolved by np.dtype", pd.lineno)
    dflt = [s for s in pf.walk_stmts(pd) if isinstance(s, ast.If) and "dtype == 'default'" in pf.unparse(s.test)]
    r.check(bool(dflt) and "generate.F32 if model_info.single and platform in ('ocl', 'cuda') else generate.F64"
            in pf.unparse(dflt[0]), CF, "parse_dtype", "default: single on GPU for single-safe models, else double",
            pd.lineno)


from . import extra3 as _x3


def rule_headroom(r):
    """Float range headroom of the models declared single-safe.  The units typer (sa/dims.py) gives every arithmetic node
    of a shape model a (length, SLD) degree from the declared parameter units.  A scattering function has to represent
    (contrast * volume)^2, length degree 6, and a volume or effective-radius helper a volume, degree 3; an intermediate
    of a higher degree is a product larger than any value the function must return, and in single precision it leaves
    the representable range (3.4e38) at sizes where the results themselves are still small -- e.g. degree 9 overflows
    from about 7e3 Ang where degree 6 holds to 1e6 Ang."""
    from fractions import Fraction as Fr
    from . import c13
    res = c13._c_results()
    BOUND = {"form_volume": 3, "shell_volume": 3, "radius_effective": 3}
    for unit, rows in sorted(res.items()):
        if unit.startswith("__"):
            continue
        for row in rows:
            if row[0] != "PEAK":
                continue
            _, _, f, fn, text, line, (dl, ds, inner, single) = row
            if not single:
                r.note(f, fn, "peak length degree %s" % dl, line, "model not declared single-safe")
                continue
            top = fn.split(":")[1]
            bound = BOUND.get(top, 6)
            r.check(Fr(dl) <= bound, f, fn, "highest intermediate degree: length^%s sld^%s at `%s`%s" % (dl, ds, text[:70], "" if inner == top
                    else " (in %s)" % inner), line, "bound length^%d = the degree of the value %s has to represent; above it the intermediate "
                    "overflows single precision at sizes where the result is representable" % (bound, top))


RULES = [
    ("R-C15-float-lang", 9, "exact language and context of the literal regex", rule_float_lang),
    ("R-C15-keyword", 7, "structure of the double keyword regex", rule_keyword),
    ("R-C15-consume", 1, "no separator consumed twice", rule_consume),
    ("R-C15-tgmath", 6, "integer promotion list and grammar", rule_tgmath),
    ("R-C15-raw-text", 1, "substitution context", rule_raw_text),
    ("R-C15-tokens", 122, "converted source of every model = prescribed token stream (single, double, long double)", _x3.rule_c15_tokens),
    ("R-C15-builds", 61, "single-precision OpenCL source of every model parses and defines the same functions", _x3.rule_c15_builds),
    ("R-C15-intdiv", 120, "no truncating division of two integer literals in the double- and single-precision units (a literal the converter cannot tag)", _x3.make_intdiv_rule(("dll", "opencl-f32"))),
    ("R-C15-headroom", 90, "no intermediate of a single-safe shape model exceeds the length degree of the value it computes", rule_headroom),
    ("R-C15-dispatch", 25, "dtype dispatch tables agree", rule_dispatch),
    ("R-C15-cancel", 100, "no 1 - cos / 1 - exp difference in models declared single-safe", _x3.make_cstate_rule("R-C15-cancel")),
    ("R-C15-declared", 15, "models declared unsafe for single precision stay declared unsafe", _x3.rule_c15_declared),
    ("R-C15-plumb", 10, "requested precision reaches conversion, library name and ctypes signature unchanged", _x3.rule_c15_plumb),
]
from .. import refs as _refs
RULES = RULES + [_refs.ref_rule('C15')]


def run(tier="quick", replay=None):
    return run_check(
        "C15", RULES, tier=tier, replay=replay,
        explanation="Regex automata: patterns are pulled from generate.py's AST, parsed with re._parser and turned into "
                    "DFAs over ASCII+2 symbols; language equality/difference against reference grammars written from "
                    "C99 6.4.4.2; finite-language enumeration of alternations; consumed-context overlap of the keyword "
                    "regex; AST table agreement of the dtype dispatch (convert_type, ctypes, numpy, dll name, "
                    "FLOAT_SIZE conditionals, parse_dtype aliases).",
        assumptions=["re.sub scans left to right and resumes after the consumed text",
                     "reference grammars transcribe C99 6.4.4.2 decimal and hexadecimal floating constants without suffix"])
