"""Fold rules: agreement of central functions with their reference folds (sa/specs.py)."""
from ..report import AnalysisError
from .. import pyfacts as pf
from .. import pyval
from ..specs import SPECS


def fold_rule(prop):
    names = [n for n, s in sorted(SPECS.items()) if prop in s["props"]]

    def run(r):
        for n in names:
            s = SPECS[n]
            mod = pf.lib(s["mod"])
            fn = mod.func(s["qual"])
            cur = pyval.fold_function(fn, facts=s.get("facts"))
            ref = pyval.fold_text(s["text"], facts=s.get("facts"))
            pyval.compare(r, mod.relpath, s["qual"], cur, ref, fn.lineno, what=s.get("what", ("ret",)), keys=s.get("keys", ()),
                          guards=s.get("guards", False), doc=s["doc"])
    floor = sum((1 if "ret" in SPECS[n].get("what", ("ret",)) else 0) + len(SPECS[n].get("keys", ())) for n in names)
    return ("R-%s-fold" % prop, floor, "central functions fold to their documented formulas (value numbering)", run)
