"""C18 - atomic build.

Typestate on the cache path P of make_dll (the value tested with
os.path.exists and returned): P may only be tested, logged, used to derive
other names, be the destination of an atomic rename, and be returned.  The
compiler must write to a distinct temporary in the same directory, and the
rename must be dominated by the raising compile call.
Trusted: POSIX rename() atomicity within one directory.
Not decided: behaviour of concrete interleavings (that follows from the shape).
"""
import ast
from ..report import run_check, AnalysisError
from .. import pyfacts as pf

F = "sasmodels/kerneldll.py"
TESTS = {"os.path.exists", "os.path.isfile", "exists", "isfile"}
DERIVE = {"splitext", "os.path.splitext", "os.path.basename", "basename", "os.path.dirname", "dirname",
          "os.path.abspath", "abspath", "os.path.join", "joinpath", "str", "os.path.normpath", "os.path.realpath"}
PUBLISH = {"os.replace", "os.rename", "replace", "rename"}
LOGGERS = ("logging.", "logger.", "print", "warnings.")


def _cache_path(fn):
    rets = [s for s in pf.walk_stmts(fn) if isinstance(s, ast.Return) and isinstance(s.value, ast.Name)]
    if not rets:
        raise AnalysisError("make_dll: does not return a plain name")
    names = {r.value.id for r in rets}
    if len(names) != 1:
        raise AnalysisError("make_dll: returns several names %s" % names)
    P = names.pop()
    tested = any(isinstance(s, ast.If) and any(isinstance(c, ast.Call) and pf.call_name(c) in TESTS
                                               and c.args and pf.unparse(c.args[0]) == P for c in ast.walk(s.test))
                 for s in pf.walk_stmts(fn))
    if not tested:
        raise AnalysisError("make_dll: cache lookup `os.path.exists(%s)` not found" % P)
    return P


def _uses(fn, mod, P):
    """Classify every load of name P."""
    out = []
    for st in pf.walk_stmts(fn):
        for n in pf.own_exprs(st):
            if isinstance(n, ast.Name) and n.id == P and isinstance(n.ctx, ast.Load):
                # climb to the enclosing call / statement
                node, role = n, None
                parent = mod.parents.get(node)
                while parent is not None and not isinstance(parent, ast.stmt):
                    if isinstance(parent, ast.Call):
                        name = pf.call_name(parent) or ""
                        if name in TESTS:
                            role = "test"
                        elif name in DERIVE:
                            role = "derive"
                        elif name.startswith(LOGGERS):
                            role = "log"
                        elif name in PUBLISH:
                            pos = [i for i, a in enumerate(parent.args) if node is a or any(node is x for x in ast.walk(a))]
                            kw = [k.arg for k in parent.keywords if any(node is x for x in ast.walk(k.value))]
                            role = "publish-dst" if (pos and pos[0] == 1) or kw == ["dst"] else "publish-src"
                        else:
                            role = "call:%s" % name
                            kw = [k.arg for k in parent.keywords if any(node is x for x in ast.walk(k.value))]
                            if kw:
                                role += "(%s=)" % kw[0]
                        break
                    if isinstance(parent, (ast.BinOp, ast.JoinedStr, ast.FormattedValue, ast.Tuple, ast.Subscript)):
                        role = "derive"     # string arithmetic producing another name
                        node, parent = parent, mod.parents.get(parent)
                        # a derived value handed to something is judged at that call, not here
                        while parent is not None and isinstance(parent, (ast.BinOp, ast.JoinedStr, ast.FormattedValue,
                                                                         ast.Tuple, ast.Subscript)):
                            node, parent = parent, mod.parents.get(parent)
                        break
                    node, parent = parent, mod.parents.get(parent)
                if role is None:
                    if isinstance(st, ast.Return):
                        role = "return"
                    elif isinstance(st, ast.Assign):
                        role = "alias"
                    else:
                        role = "other"
                out.append((st, n, role))
    return out


def rule_publish(r):
    mod = pf.lib("kerneldll")
    fn = mod.func("make_dll")
    P = _cache_path(fn)
    cfg = pf.cfg(fn)
    uses = _uses(fn, mod, P)
    publish = [(st, n) for st, n, role in uses if role == "publish-dst"]
    for st, n, role in uses:
        ok = role in ("test", "derive", "log", "return", "publish-dst")
        r.check(ok, F, "make_dll", "%s used as %s in: %s" % (P, role, pf.unparse(st)[:90]), st.lineno,
                "the cache name is visible to other processes through os.path.exists; handing it to %s lets a "
                "partially written or failed build appear under the final name" % role if not ok else role)
    if not publish:
        r.violation(F, "make_dll", "no atomic publish of %s" % P, fn.lineno,
                    "no os.replace/os.rename(<temporary>, %s) found: the library is not published atomically" % P)
        return
    # the compile call
    compiles = []
    for st in cfg.stmts():
        for c in pf.own_exprs(st):
            if isinstance(c, ast.Call) and pf.call_name(c) == "compile_model":
                compiles.append((st, c))
    if not compiles:
        raise AnalysisError("make_dll: compile_model call not found")
    for pst, pn in publish:
        call = [c for c in pf.own_exprs(pst) if isinstance(c, ast.Call) and pf.call_name(c) in PUBLISH][0]
        src = call.args[0] if call.args else None
        src_txt = pf.unparse(src) if src is not None else "?"
        # the compile output is the rename source
        outs = []
        for cst, c in compiles:
            o = [k.value for k in c.keywords if k.arg == "output"] or (c.args[1:2])
            if o:
                outs.append((cst, pf.unparse(o[0])))
        match = [cst for cst, o in outs if o == src_txt]
        r.check(bool(match), F, "make_dll", "compile output %s == rename source %s" % ([o for _, o in outs], src_txt),
                pst.lineno, "the file renamed into place is the one the compiler wrote")
        r.check(src_txt != P, F, "make_dll", "temporary %s distinct from %s" % (src_txt, P), pst.lineno)
        for cst in match:
            r.check(cfg.dominates(cst, pst), F, "make_dll", "compile dominates %s" % pf.unparse(call), pst.lineno,
                    "rename only after compile_model returned (it raises on failure)")
        # same directory: temporary derived from P itself or created with dir= the cache directory
        defs = [s for s in pf.walk_stmts(fn) if isinstance(s, ast.Assign) and src_txt in
                [pf.unparse(t) for t in s.targets] + [pf.unparse(e) for t in s.targets if isinstance(t, ast.Tuple) for e in t.elts]]
        same_dir = False
        for d in defs:
            txt = pf.unparse(d.value)
            names = pf.names_in(d.value)
            if P in names and not any(pf.call_name(c) in ("os.path.basename", "basename") for c in pf.calls_in(d.value)):
                same_dir = True
            if "dir=" in txt and ("dirname(%s)" % P in txt or "SAS_DLL_PATH" in txt):
                same_dir = True
        r.check(same_dir, F, "make_dll", "temporary %s lives in the cache directory" % src_txt, pst.lineno,
                "rename is atomic only within one file system: %s" % [pf.unparse(d) for d in defs])
    # the temporary name is unique to this build: it must be derived, inside make_dll, from a per-process/per-call source
    UNIQUE = {"os.getpid", "getpid", "tempfile.mkstemp", "mkstemp", "tempfile.mktemp", "tempfile.NamedTemporaryFile",
              "uuid.uuid4", "uuid4", "uuid.uuid1", "threading.get_ident", "time.time_ns"}
    for pst, pn in publish:
        call = [c for c in pf.own_exprs(pst) if isinstance(c, ast.Call) and pf.call_name(c) in PUBLISH][0]
        src_txt = pf.unparse(call.args[0]) if call.args else "?"
        seen, work, sources = set(), [src_txt], set()
        assigns = [s_ for s_ in pf.walk_stmts(fn) if isinstance(s_, ast.Assign)]
        while work:
            nm = work.pop()
            if nm in seen:
                continue
            seen.add(nm)
            for a in assigns:
                tg = [pf.unparse(t) for t in a.targets] + [pf.unparse(e) for t in a.targets if isinstance(t, ast.Tuple) for e in t.elts]
                if nm in tg:
                    for c in pf.calls_in(a.value):
                        if pf.call_name(c) in UNIQUE:
                            sources.add(pf.call_name(c))
                    work.extend(pf.names_in(a.value))
        r.check(bool(sources), F, "make_dll", "temporary %s is unique per build (%s)" % (src_txt, sorted(sources) or "no per-process source"),
                pst.lineno, "evaluated inside make_dll at build time" if sources else
                "the temporary name is not derived, at build time, from the process id or a fresh temporary: processes forked "
                "after import (or threads) share one name, and one compiler truncates the file another process is about to publish")
    # the C source handed to the compiler is private to this build as well (a shared name lets one process remove or
    # truncate the file another compiler is reading); the `system` branch (one process precompiling) is exempt
    for cst, c in compiles:
        srcarg = [k.value for k in c.keywords if k.arg == "source"] or c.args[0:1]
        if not srcarg or not isinstance(srcarg[0], ast.Name):
            continue
        sname = srcarg[0].id
        for a in [s_ for s_ in pf.walk_stmts(fn) if isinstance(s_, ast.Assign)]:
            tg = [pf.unparse(t) for t in a.targets] + [pf.unparse(e) for t in a.targets if isinstance(t, ast.Tuple) for e in t.elts]
            if sname not in tg:
                continue
            # which branch of an `if ... system ...` is this assignment in?
            node, exempt = a, False
            par = mod.parents.get(node)
            while par is not None and par is not fn:
                if isinstance(par, ast.If) and "system" in pf.unparse(par.test):
                    in_body = any(node is x or any(node is y for y in ast.walk(x)) for x in par.body)
                    negated = isinstance(par.test, ast.UnaryOp) and isinstance(par.test.op, ast.Not)
                    exempt = (in_body and not negated) or (not in_body and negated)
                node, par = par, mod.parents.get(par)
            if exempt:
                continue
            uniq = {pf.call_name(cc) for cc in pf.calls_in(a.value)} & UNIQUE
            r.check(bool(uniq), F, "make_dll", "C source %s = %s" % (sname, pf.unparse(a.value)[:60]), a.lineno,
                    "private to this build (%s)" % sorted(uniq) if uniq else
                    "the C source file name is shared by every process building this model: the first to finish removes it while "
                    "another compiler still needs it")
    # compile_model raises when the compiler fails or produced nothing
    cm = mod.func("compile_model")
    handlers = [h for h in ast.walk(cm) if isinstance(h, ast.ExceptHandler)]
    r.check(bool(handlers) and all(pf.ends_in_raise(h.body) for h in handlers), F, "compile_model",
            "except CalledProcessError: ... raise", cm.lineno, "compiler failure is an exception")
    outp = pf.positional_params(cm)[1]
    post = [s for s in cm.body if isinstance(s, ast.If) and "exists" in pf.unparse(s.test) and pf.ends_in_raise(s.body)]
    r.check(bool(post), F, "compile_model", "if not os.path.exists(output): raise", cm.lineno,
            "missing output is an exception")


def rule_load(r):
    """DllModel opens only the path it was given, which is make_dll's return value."""
    mod = pf.lib("kerneldll")
    ld = mod.func("load_dll")
    txt = pf.unparse(ld)
    ok = False
    for st in ld.body:
        if isinstance(st, ast.Assign) and isinstance(st.value, ast.Call) and pf.call_name(st.value) == "make_dll":
            var = pf.unparse(st.targets[0])
            rets = [s for s in ld.body if isinstance(s, ast.Return)]
            ok = bool(rets) and isinstance(rets[0].value, ast.Call) and pf.call_name(rets[0].value) == "DllModel" \
                and pf.unparse(rets[0].value.args[0]) == var
    r.check(ok, F, "load_dll", "DllModel(make_dll(...), ...)", ld.lineno, "loader receives the published path")
    init = mod.func("DllModel.__init__")
    first = pf.positional_params(init)[1]
    r.check(any(isinstance(s, ast.Assign) and pf.unparse(s.targets[0]) == "self.dllpath" and pf.unparse(s.value) == first
                for s in init.body), F, "DllModel.__init__", "self.dllpath = %s" % first, init.lineno)
    lo = mod.func("DllModel._load_dll")
    opens = [c for c in pf.calls_in(lo) if (pf.call_name(c) or "").endswith(("CDLL", "LoadLibrary"))]
    if not opens:
        raise AnalysisError("DllModel._load_dll: no CDLL call")
    for c in opens:
        r.check(pf.unparse(c.args[0]) == "self.dllpath", F, "DllModel._load_dll", pf.unparse(c), c.lineno,
                "opens exactly the published path")
        mode = [pf.unparse(k.value) for k in c.keywords if k.arg == "mode"] + [pf.unparse(a) for a in c.args[1:2]]
        okm = all(m_.split(".")[-1] in ("DEFAULT_MODE", "RTLD_LOCAL") for m_ in mode)
        r.check(okm, F, "DllModel._load_dll", "load mode %s" % (mode or ["default"]), c.lineno,
                "symbols of one model library stay private to it" if okm else
                "the library is opened with %s: its non-static functions (Iq, form_volume ... have the same names in every model) become "
                "process-wide, and libraries loaded afterwards - another version, another precision - call the first one's functions" % mode)
    # no other writer of files in the cache directory under a final name: every open(..., 'w') in kerneldll
    for qual, fn in sorted(mod.functions.items()):
        for c in pf.calls_in(fn):
            if pf.call_name(c) == "open" and len(c.args) > 1 and isinstance(c.args[1], ast.Constant) and "w" in str(c.args[1].value):
                tgt = pf.unparse(c.args[0])
                r.check(tgt != "dll", F, qual, pf.unparse(c), c.lineno, "writes %s (C source), not the library" % tgt)


from . import extra3 as _x3


def _key(r):
    from . import c17, shared
    shared._relabel(c17.rule_key, "R-C18-key")(r)


RULES = [
    ("R-C18-publish", 8, "cache path published only by rename after a successful compile", rule_publish),
    ("R-C18-owner", 4, "no library code outside make_dll removes or replaces a published cache path", _x3.rule_c18_owner),
    ("R-C18-key", 8, "the cache name two processes agree on is a CRC of the whole source text (C17's key rule): different sources never share a published name by construction of a weaker tag", _key),
    ("R-C18-symbols", 3, "the entry points the loaders look up are the ones the generator defines", _x3.rule_c18_symbols),
    ("R-C18-restore", 10, "a model unpickled in a worker process carries everything it was built with (dll, OpenCL, CUDA model classes)", _x3.rule_c18_restore),
    ("R-C18-lock", 1, "the SasView wrapper's lazy build happens under calculation_lock", _x3.rule_c18_lock),
    ("R-C18-load", 4, "loader opens only the published path", rule_load),
]
from .. import refs as _refs
RULES = RULES + [_refs.ref_rule('C18')]


def run(tier="quick", replay=None):
    return run_check(
        "C18", RULES, tier=tier, replay=replay,
        explanation="Typestate/def-use analysis of kerneldll.make_dll on its statement CFG: every use of the cache path "
                    "is classified (test, derive, log, publish destination, return); compiler output must be a distinct "
                    "temporary in the cache directory whose rename onto the cache path is dominated by the raising "
                    "compile call. Decides the shape that makes every interleaving/kill point safe, not the schedules.",
        assumptions=["os.replace/os.rename is atomic within a directory (POSIX rename)",
                     "the compiler writes only to its -o argument"])
