"""C10 - every calling interface yields the same theory; unknown parameters refused.

Decided: the unknown-name refusal post-dominates the consumption of names in
the three interfaces; dispersity suffix tables agree and are gated on
`polydisperse` everywhere; every data-selecting branch of _interpret_data
builds one index from q-range, mask and NaN tests with the right polarity;
hidden-parameter handling for structure factors.  Not decided: numeric
equality of the theory across interfaces.
"""
import ast
from ..report import run_check, AnalysisError
from .. import pyfacts as pf

DM = "sasmodels/direct_model.py"
BM = "sasmodels/bumps_model.py"
SV = "sasmodels/sasview_model.py"


def _refusal(cfg, dict_name):
    """`if <dict>: raise` statements."""
    out = []
    for st in cfg.stmts():
        if isinstance(st, ast.If) and pf.ends_in_raise(st.body):
            t = pf.unparse(st.test)
            if t in (dict_name, "len(%s) > 0" % dict_name, "len(%s)" % dict_name, "%s != {}" % dict_name,
                     "bool(%s)" % dict_name, "len(%s) != 0" % dict_name):
                out.append(st)
    return out


def rule_unused(r):
    dm = pf.lib("direct_model")
    gm = dm.func("get_mesh")
    cfg = pf.cfg(gm)
    cons = [st for st in cfg.stmts() if any(isinstance(c, ast.Call) and pf.call_name(c) == "_pop_par_weights" for c in pf.own_exprs(st))]
    if not cons:
        raise AnalysisError("get_mesh: consumption of names not found")
    call = [c for c in pf.own_exprs(cons[0]) if isinstance(c, ast.Call) and pf.call_name(c) == "_pop_par_weights"][0]
    D = pf.unparse(call.args[1])
    ref = _refusal(cfg, D)
    ok = bool(ref) and all(cfg.postdominates(ref[0], c) for c in cons) and not cfg.reachable_without(cons[0], "EXIT", ref)
    r.check(ok, DM, "get_mesh", "if %s: raise TypeError after all names were popped" % D, cons[0].lineno,
            "every path from the consumption to the return passes the left-over test; names the model does not define "
            "are refused" if ok else "left-over parameter names are silently ignored")
    it = pf.unparse(cons[0])
    r.check("parameters.call_parameters" in it, DM, "get_mesh", "consumption iterates over all call parameters", cons[0].lineno)
    # every read of the dict inside _pop_par_weights is a pop
    pw = dm.func("_pop_par_weights")
    V = pf.positional_params(pw)[1]
    reads = []
    for n in ast.walk(pw):
        if isinstance(n, ast.Name) and n.id == V and isinstance(n.ctx, ast.Load):
            parent = dm.parents.get(n)
            how = "other"
            if isinstance(parent, ast.Attribute):
                how = parent.attr
            elif isinstance(parent, ast.Subscript):
                how = "subscript"
            reads.append((n, how))
    if len(reads) < 5:
        raise AnalysisError("_pop_par_weights: only %d reads of %s" % (len(reads), V))
    for n, how in reads:
        r.check(how == "pop", DM, "_pop_par_weights", "%s.%s" % (V, how), n.lineno,
                "a name read without being removed would survive to the left-over test")
    # dispersity keys are only consumed for polydisperse parameters
    gate = [st for st in pw.body if isinstance(st, ast.If) and pf.unparse(st.test) == "parameter.polydisperse"]
    okg = bool(gate) and all(any(n is x for x in ast.walk(gate[0])) for n, how in reads[1:])
    r.check(okg, DM, "_pop_par_weights", "dispersity suffixes consumed only under `if parameter.polydisperse`",
            gate[0].lineno if gate else 0, "so name_pd on a non-dispersible parameter is left over and refused")
    # bumps
    bm = pf.lib("bumps_model")
    cp = bm.func("create_parameters")
    cfg = pf.cfg(cp)
    K = cp.args.kwarg.arg if cp.args.kwarg else None
    if K is None:
        raise AnalysisError("create_parameters: no **kwargs")
    ref = _refusal(cfg, K)
    loops = [st for st in cfg.stmts() if isinstance(st, ast.For) and "call_parameters" in pf.unparse(st.iter)]
    ok = bool(ref and loops) and cfg.postdominates(ref[0], loops[0]) and not cfg.reachable_without(loops[0], "EXIT", ref + loops[0].body)
    r.check(bool(ref) and bool(loops) and cfg.postdominates(ref[0], loops[0]), BM, "create_parameters",
            "if %s: raise TypeError after the parameter loop" % K, loops[0].lineno if loops else 0,
            "unknown keyword names are refused")
    for n in ast.walk(cp):
        if isinstance(n, ast.Name) and n.id == K and isinstance(n.ctx, ast.Load):
            parent = bm.parents.get(n)
            if isinstance(parent, ast.Attribute) and parent.attr in ("get", "setdefault"):
                r.violation(BM, "create_parameters", "%s.%s" % (K, parent.attr), n.lineno, "read without removal")
    gate = [st for st in pf.walk_stmts(cp) if isinstance(st, ast.If) and pf.unparse(st.test) == "p.polydisperse"]
    r.check(bool(gate), BM, "create_parameters", "dispersity suffixes consumed only under `if p.polydisperse`",
            gate[0].lineno if gate else 0)
    # sasview setParam / getParam: every path that does not return ends in raise
    sv = pf.lib("sasview_model")
    for q in ("SasviewModel.setParam", "SasviewModel.getParam"):
        fn = sv.func(q)
        last = fn.body[-1]
        r.check(isinstance(last, ast.Raise), SV, q, "falls through to `raise ValueError`", last.lineno,
                "a name matching no parameter and no dispersion attribute is refused")
        cfg = pf.cfg(fn)
        normal = [p for p in cfg.g.predecessors("EXIT")]
        r.check(all(isinstance(p, ast.Return) for p in normal), SV, q, "normal exits are explicit returns after a match",
                fn.lineno, "%d exits" % len(normal))


def rule_suffix(r):
    dm = pf.lib("direct_model")
    pw = dm.func("_pop_par_weights")
    sfx_dm = sorted({n.right.value for n in ast.walk(pw) if isinstance(n, ast.BinOp) and isinstance(n.op, ast.Add)
                     and isinstance(n.right, ast.Constant) and isinstance(n.right.value, str)})
    want = ["_pd", "_pd_n", "_pd_nsigma", "_pd_type"]
    r.check(sfx_dm == want, DM, "_pop_par_weights", "suffixes %s" % sfx_dm, pw.lineno, "the documented dispersity keys")
    bm = pf.lib("bumps_model")
    cp = bm.func("create_parameters")
    sfx_bm = sorted({n.value for n in ast.walk(cp) if isinstance(n, ast.Constant) and isinstance(n.value, str)
                     and n.value.startswith("_pd")})
    r.check(sfx_bm == want, BM, "create_parameters", "suffixes %s" % sfx_bm, cp.lineno, "same keys as the direct interface")
    cv = pf.lib("convert")
    pd = ast.literal_eval(cv.module_assign("PD_DOT"))
    under = sorted(u for u, d in pd if u.startswith("_pd"))
    dots = {u: d for u, d in pd}
    r.check(under == want, "sasmodels/convert.py", "<module>", "PD_DOT underscore column %s" % under, 0)
    sv = pf.lib("sasview_model")
    init = sv.func("SasviewModel.__init__")
    keys = []
    for n in ast.walk(init):
        if isinstance(n, ast.Dict) and all(isinstance(k, ast.Constant) for k in n.keys) and "npts" in [k.value for k in n.keys]:
            keys = sorted(k.value for k in n.keys)
    dot_want = sorted(d[1:] for u, d in pd if u.startswith("_pd"))
    r.check(keys == dot_want, SV, "SasviewModel.__init__", "dispersion keys %s" % keys, init.lineno,
            "the dot attributes PD_DOT maps the underscore keys to: %s" % dot_want)
    gw = sv.func("SasviewModel._get_weights")
    used = sorted({n.slice.value for n in ast.walk(gw) if isinstance(n, ast.Subscript) and pf.unparse(n.value) == "dis"
                   and isinstance(n.slice, ast.Constant)} - {"values", "weights"})
    r.check(used == dot_want, SV, "SasviewModel._get_weights", "dispersion keys read %s" % used, gw.lineno)
    r.check("elif par.polydisperse" in pf.unparse(gw) or "if par.polydisperse" in pf.unparse(gw), SV, "SasviewModel._get_weights",
            "dispersity gated on par.polydisperse", gw.lineno)
    r.check("if p.polydisperse" in pf.unparse(init), SV, "SasviewModel.__init__", "dispersion table gated on p.polydisperse", init.lineno)
    # defaults agree (npts 35 / nsigma 3 / gaussian) between bumps and sasview
    txt = pf.unparse(cp)
    r.check("('_pd_n', 35.0" in txt and "('_pd_nsigma', 3.0" in txt and "'gaussian'" in txt, BM, "create_parameters",
            "defaults: 35 points, 3 sigma, gaussian", cp.lineno)
    txt = pf.unparse(init)
    r.check("'npts': 35" in txt and "'nsigmas': 3" in txt and "'type': 'gaussian'" in txt and "'width': 0" in txt, SV,
            "SasviewModel.__init__", "defaults: width 0, 35 points, 3 sigma, gaussian", init.lineno)
    txt = pf.unparse(pw)
    r.check("'_pd_nsigma', 3.0" in txt and "'_pd_type', 'gaussian'" in txt and "'_pd', 0.0" in txt and "'_pd_n', 0" in txt,
            DM, "_pop_par_weights", "defaults: width 0, 0 points, 3 sigma, gaussian", pw.lineno)


def _branches(fn):
    """The data-type branches of _interpret_data: {type string: body}."""
    out = {}
    for st in fn.body:
        if isinstance(st, ast.If) and "self.data_type ==" in pf.unparse(st.test):
            cur = st
            while True:
                t = cur.test
                if isinstance(t, ast.Compare) and isinstance(t.comparators[0], ast.Constant):
                    out[t.comparators[0].value] = cur.body
                if len(cur.orelse) == 1 and isinstance(cur.orelse[0], ast.If):
                    cur = cur.orelse[0]
                else:
                    break
    return out


def rule_mask(r):
    dm = pf.lib("direct_model")
    fn = dm.func("DataMixin._interpret_data")
    br = _branches(fn)
    for needed in ("Iq", "Iqxy", "sesans"):
        if needed not in br:
            raise AnalysisError("_interpret_data: branch %r not found" % needed)
    for kind, body in sorted(br.items()):
        mod = ast.Module(body=body, type_ignores=[])
        txt = pf.unparse(mod)
        idx_defs = [st for st in pf.walk_stmts(mod) if isinstance(st, (ast.Assign, ast.AugAssign))
                    and "index" in pf.assigned_names(st) | ({pf.unparse(st.target)} if isinstance(st, ast.AugAssign) else set())]
        if kind == "sesans":
            r.check(any(pf.unparse(s.value) == "slice(None, None)" for s in idx_defs if isinstance(s, ast.Assign)), DM,
                    "DataMixin._interpret_data", "sesans: index = slice(None, None)", body[0].lineno, "all points")
            continue
        full = " ; ".join(pf.unparse(s) for s in idx_defs)
        qvar = "q" if kind == "Iqxy" else "data.x"
        lo = "qmin" if kind == "Iqxy" else "data.qmin"
        hi = "qmax" if kind == "Iqxy" else "data.qmax"
        r.check("%s >= %s" % (qvar, lo) in full and "%s <= %s" % (qvar, hi) in full, DM, "DataMixin._interpret_data",
                "%s: q range %s <= q <= %s in index" % (kind, lo, hi), body[0].lineno, full[:120])
        nanv = "data.data" if kind == "Iqxy" else "data.y"
        nan_st = [st for st in idx_defs if pf.unparse(st) == "index &= ~np.isnan(%s)" % nanv]
        # the NaN filter may depend only on the data being present, not on the mask test
        def guards(st):
            out = []
            node = dm.parents.get(st)
            child = st
            while node is not None and node is not fn:
                if isinstance(node, ast.If):
                    in_else = child in node.orelse
                    out.append(("not " if in_else else "") + pf.unparse(node.test))
                child, node = node, dm.parents.get(node)
            return [g for g in out if "self.data_type" not in g]
        okn = bool(nan_st) and set(guards(nan_st[0])) <= {"%s is not None" % nanv}
        r.check(okn, DM, "DataMixin._interpret_data", "%s: NaN data excluded (index &= ~isnan)" % kind, body[0].lineno,
                "applied whenever data is present" if okn else "NaN filter missing or conditional on %s" % (guards(nan_st[0]) if nan_st else "-"))
        rng = [st for st in idx_defs if isinstance(st, ast.Assign)]
        r.check(bool(rng) and not guards(rng[0]), DM, "DataMixin._interpret_data", "%s: q-range index built unconditionally" % kind, body[0].lineno)
        has_mask = "mask == 0" in full
        if kind == "Iq-oriented":
            if has_mask:
                r.ok(DM, "DataMixin._interpret_data", "%s: mask == 0 in index" % kind, body[0].lineno)
            else:
                r.note(DM, "DataMixin._interpret_data", "%s: data.mask is not consulted" % kind, body[0].lineno,
                       "branch unreachable today (Slit2D construction raises, see known finding under R-C03-ctor-bind)")
        else:
            mst = [st for st in idx_defs if "mask == 0" in pf.unparse(st)]
            okm = has_mask and set(guards(mst[0])) <= {"mask is not None"}
            r.check(okm, DM, "DataMixin._interpret_data", "%s: mask == 0 in index" % kind, body[0].lineno,
                    "masked points (mask != 0) are excluded; polarity: 0 means keep")
        # Iq/dIq selected by the same index
        r.check("Iq = %s[index]" % nanv in txt, DM, "DataMixin._interpret_data", "%s: Iq = %s[index]" % (kind, nanv), body[0].lineno)
    # theory order: index stored and used by _set_data
    sd = dm.func("DataMixin._set_data")
    n = sum(1 for x in ast.walk(sd) if isinstance(x, ast.Subscript) and pf.unparse(x.slice) == "self.index")
    r.check(n >= 5, DM, "DataMixin._set_data", "%d stores through self.index" % n, sd.lineno, "simulated data written back through the same selection")


def rule_hidden(r):
    sv = pf.lib("sasview_model")
    init = sv.func("SasviewModel.__init__")
    sf = [st for st in pf.walk_stmts(init) if isinstance(st, ast.If) and pf.unparse(st.test) == "self._model_info.structure_factor"]
    hid = sorted(pf.unparse(c.args[0]) for st in sf for c in pf.calls_in(st) if pf.call_name(c) == "hidden.add")
    r.check(hid == ["'background'", "'scale'"], SV, "SasviewModel.__init__", "structure factors hide %s" % hid,
            sf[0].lineno if sf else 0, "both scale and background")
    skip = [st for st in pf.walk_stmts(init) if isinstance(st, ast.If) and pf.unparse(st.test) == "p.name in hidden"]
    r.check(bool(skip) and isinstance(skip[0].body[0], ast.Continue), SV, "SasviewModel.__init__", "hidden names are not user parameters",
            skip[0].lineno if skip else 0)
    gw = sv.func("SasviewModel._get_weights")
    txt = pf.unparse(gw)
    r.check("self._model_info.parameters.defaults.get(par.name" in txt, SV, "SasviewModel._get_weights",
            "hidden parameters take parameters.defaults", gw.lineno)
    r.check("par.id == self.multiplicity_info.control" in txt and "return (self.multiplicity, [self.multiplicity], [1.0])" in txt,
            SV, "SasviewModel._get_weights", "multiplicity control supplied from self.multiplicity", gw.lineno)
    first = gw.body[1] if isinstance(gw.body[0], ast.Expr) else gw.body[0]
    r.check(isinstance(first, ast.If) and pf.unparse(first.test) == "par.name not in self.params", SV, "SasviewModel._get_weights",
            "hidden test: par.name not in self.params", first.lineno)
    mi = pf.lib("modelinfo")
    mk = mi.func("make_model_info")
    sfz = [st for st in pf.walk_stmts(mk) if isinstance(st, ast.If) and "structure_factor" in pf.unparse(st.test)
           and any(pf.call_name(c) == "info.parameters.set_zero_background" or (pf.call_name(c) or "").endswith("set_zero_background")
                   for c in pf.calls_in(st))]
    r.check(bool(sfz), "sasmodels/modelinfo.py", "make_model_info", "set_zero_background() iff structure_factor",
            sfz[0].lineno if sfz else mk.lineno, "hidden background of S(q) defaults to 0")
    zb = mi.func("ParameterTable.set_zero_background")
    txt = pf.unparse(zb)
    r.check("self.defaults = self._get_defaults()" in txt and "background" in txt and "default = 0" in txt.replace("0.0", "0"),
            "sasmodels/modelinfo.py", "ParameterTable.set_zero_background", "rewrites the background default and the defaults table",
            zb.lineno)
    # calculate_Iq builds its mesh over all call parameters like get_mesh
    ci = sv.func("SasviewModel._calculate_Iq")
    r.check("[self._get_weights(p) for p in parameters.call_parameters]" in pf.unparse(ci), SV, "SasviewModel._calculate_Iq",
            "mesh over parameters.call_parameters", ci.lineno, "same parameter order as direct_model.get_mesh")
    r.check("make_kernel_args(calculator, pairs)" in pf.unparse(ci), SV, "SasviewModel._calculate_Iq", "make_kernel_args(calculator, pairs)", ci.lineno)
    dmod = pf.lib("direct_model")
    ck = dmod.func("call_kernel")
    r.check("make_kernel_args(calculator, mesh)" in pf.unparse(ck), DM, "call_kernel", "make_kernel_args(calculator, mesh)", ck.lineno)
    # bumps Experiment.theory goes through _calc_theory with model.state()
    bm = pf.lib("bumps_model")
    th = bm.func("Experiment.theory")
    r.check("self._calc_theory(pars, cutoff=self.cutoff)" in pf.unparse(th) and "pars = self.model.state()" in pf.unparse(th), BM,
            "Experiment.theory", "_calc_theory(self.model.state(), cutoff)", th.lineno, "same evaluation path as DirectModel")
    dcall = dmod.func("DirectModel.__call__")
    r.check("self._calc_theory(pars, cutoff=self.cutoff)" in pf.unparse(dcall), DM, "DirectModel.__call__", "_calc_theory(pars, cutoff)", dcall.lineno)


def rule_inactive(r):
    """An inactive distribution means the same in every interface: (value, [value or 0 jitter], [1]).
    direct_model answers itself, the SasView wrapper asks weights.get_weights - whose single-point case must agree."""
    from .c02 import rule_centre
    rule_centre(r)
    dm = pf.lib("direct_model")
    pw = dm.func("_pop_par_weights")
    r.check(pf.contains_text(pw, "pd = ([value if relative else 0.0], [1.0])"), DM, "_pop_par_weights",
            "inactive: [value if relative else 0.0], [1.0]", pw.lineno, "the sibling of Dispersion.get_weights' degenerate branch")
    sv = pf.lib("sasview_model")
    gw = sv.func("SasviewModel._get_weights")
    r.check(pf.contains_text(gw, "return (value, [value], [1.0])"), SV, "SasviewModel._get_weights",
            "non-dispersible parameter: value, [value], [1.0]", gw.lineno)


def rule_data(r):
    """Data objects: mask polarity (True/non-zero = excluded, built from NaN data), q limits spanning the data."""
    d = pf.lib("data")
    DF = "sasmodels/data.py"
    for cname, yname, xname in (("Data1D", "y", "x"), ("Data2D", "z", "x")):
        init = d.func(cname + ".__init__")
        m = [st for st in pf.walk_stmts(init) if isinstance(st, ast.Assign) and pf.unparse(st.targets[0]) == "self.mask"]
        ok = False
        if m and isinstance(m[0].value, ast.IfExp):
            v = m[0].value
            ok = pf.unparse(v.body) == "np.isnan(%s)" % yname and pf.unparse(v.test) == "%s is not None" % yname
            alt = v.orelse.body if isinstance(v.orelse, ast.IfExp) else v.orelse
            ok = ok and "zeros_like" in pf.unparse(alt)
        r.check(ok, DF, cname + ".__init__", pf.unparse(m[0])[:90] if m else "self.mask", m[0].lineno if m else init.lineno,
                "mask is True exactly where the data are NaN (excluded), all False without data")
    i1 = d.func("Data1D.__init__")
    t = pf.unparse(i1)
    r.check("self.qmin = self.x.min() if self.x is not None else np.nan" in t and "self.qmax = self.x.max() if self.x is not None else np.nan" in t,
            DF, "Data1D.__init__", "qmin, qmax = x.min(), x.max()", i1.lineno, "default limits keep every point")
    i2 = d.func("Data2D.__init__")
    t = pf.unparse(i2)
    lo = [st for st in pf.walk_stmts(i2) if isinstance(st, ast.Assign) and pf.unparse(st.targets[0]) == "self.qmin"]
    hi = [st for st in pf.walk_stmts(i2) if isinstance(st, ast.Assign) and pf.unparse(st.targets[0]) == "self.qmax"]
    r.check(bool(lo) and (pf.const_value(lo[0].value) or 1) <= 1e-10 and bool(hi) and pf.unparse(hi[0].value) in ("np.inf", "inf"), DF,
            "Data2D.__init__", "qmin ~ 0, qmax = inf", i2.lineno, "default limits keep every pixel")
    r.check("self.q_data = np.sqrt(self.qx_data ** 2 + self.qy_data ** 2)" in t, DF, "Data2D.__init__", "q_data = sqrt(qx^2 + qy^2)", i2.lineno)
    bs = d.func("set_beam_stop")
    t = pf.unparse(bs)
    r.check("data.mask = data.x < radius" in t and "data.mask |= data.x >= outer" in t, DF, "set_beam_stop",
            "1-D beam stop masks q < radius (and q >= outer)", bs.lineno, "mask True = excluded, the polarity _interpret_data assumes")


def rule_sasview_entry(r):
    """The SasView-style entry points hand (qx, qy) on in that order, and the hidden/multiplicity handling names the right entries."""
    from .. import nf
    import sympy as sp
    sv = pf.lib("sasview_model")
    run = sv.func("SasviewModel.run")
    calls = [c for c in pf.calls_in(run) if pf.call_name(c) == "self.calculate_Iq" and len(c.args) == 2]
    ok = False
    if calls:
        env = {}
        a0 = nf.py_expr(calls[0].args[0].elts[0], env)
        a1 = nf.py_expr(calls[0].args[1].elts[0], env)
        q, phi = nf.sym("q"), nf.sym("phi")
        ok = nf.equal(a0, q * sp.cos(phi)) and nf.equal(a1, q * sp.sin(phi))
    r.check(ok, SV, "SasviewModel.run", "calculate_Iq([q cos(phi)], [q sin(phi)])", run.lineno, "polar input converted to (qx, qy)")
    tgt = [st for st in pf.walk_stmts(run) if isinstance(st, ast.Assign) and pf.unparse(st.value) == "x"]
    r.check(bool(tgt) and pf.unparse(tgt[0].targets[0]).strip("()") == "q, phi", SV, "SasviewModel.run", "q, phi = x", run.lineno)
    rxy = sv.func("SasviewModel.runXY")
    calls = [c for c in pf.calls_in(rxy) if pf.call_name(c) == "self.calculate_Iq" and len(c.args) == 2]
    r.check(bool(calls) and [pf.unparse(a) for a in calls[0].args] == ["[x[0]]", "[x[1]]"], SV, "SasviewModel.runXY",
            "calculate_Iq([x[0]], [x[1]])", rxy.lineno)
    ev = sv.func("SasviewModel.evalDistribution")
    t = pf.unparse(ev)
    r.check(("(qx, qy) = qdist" in t or "qx, qy = qdist" in t) and "self.calculate_Iq(qx, qy)" in t and "self.calculate_Iq(qdist)" in t, SV,
            "SasviewModel.evalDistribution", "[qx, qy] -> calculate_Iq(qx, qy); array -> calculate_Iq(q)", ev.lineno)
    ci = sv.func("SasviewModel._calculate_Iq")
    t = pf.unparse(ci)
    r.check("q_vectors = [np.asarray(qx), np.asarray(qy)]" in t and "q_vectors = [np.asarray(qx)]" in t, SV, "SasviewModel._calculate_Iq",
            "q_vectors = [qx, qy] | [qx]", ci.lineno, "2-D iff qy is given")
    r.check("calculator(call_details, values, cutoff=self.cutoff, magnetic=is_magnetic)" in t, SV, "SasviewModel._calculate_Iq",
            "kernel called with this model's cutoff and the magnetic flag", ci.lineno)
    # hidden parameters of multiplicity models: entries beyond the control value
    mi = pf.lib("modelinfo")
    gh = mi.func("ModelInfo.get_hidden_parameters")
    t = pf.unparse(gh)
    r.check("for k in range(control + 1, p.length + 1)" in t and "p.id + str(k)" in t, "sasmodels/modelinfo.py", "ModelInfo.get_hidden_parameters",
            "hidden = name<k> for k in control+1 .. length", gh.lineno, "entries 1..control stay visible")
    r.check("hidden.update((base + '_M0', base + '_mtheta', base + '_mphi'))" in t, "sasmodels/modelinfo.py", "ModelInfo.get_hidden_parameters",
            "magnetic parameters of hidden SLD entries are hidden too", gh.lineno)
    gd = mi.func("ParameterTable._get_defaults")
    t = pf.unparse(gd)
    r.check("defaults[p.id] = p.default" in t and "defaults['%s%d' % (p.id, k)] = p.default" in t and "for k in range(1, p.length + 1)" in t,
            "sasmodels/modelinfo.py", "ParameterTable._get_defaults", "defaults keyed by expanded names", gd.lineno)


from . import extra3 as _x3
RULES = [
    ("R-C10-hidden-cases", 1, "hidden(control) changes at the case boundaries of the C source", _x3.rule_c10_hidden),
    ("R-C10-data", 6, "data objects: mask polarity and default limits", rule_data),
    ("R-C10-sasview-entry", 9, "SasView entry points route (qx, qy) and hidden parameters correctly", rule_sasview_entry),
    ("R-C10-inactive", 9, "inactive distributions agree across interfaces", rule_inactive),
    ("R-C10-unused", 14, "unknown-name refusal post-dominates consumption in three interfaces", rule_unused),
    ("R-C10-suffix", 10, "dispersity suffix/default tables agree", rule_suffix),
    ("R-C10-mask", 11, "data selection index: q range, mask polarity, NaN", rule_mask),
    ("R-C10-hidden", 12, "hidden parameters and common evaluation path", rule_hidden),
    ("R-C10-setparam", 10, "SasView-style get/set refuse unknown names and sub-names", _x3.rule_c10_setparam),
]


from . import shared
RULES = RULES + shared.bundle('C10', ['pymodel', 'values', 'stride', 'maxpd', 'density', 'limits', 'unit-sum', 'relative', 'norm'], ['direct_model', 'sasview_model', 'bumps_model', 'weights', 'details'])
from . import folds as _folds
RULES = RULES + [_folds.fold_rule('C10')]
from .. import refs as _refs
RULES = RULES + [_refs.ref_rule('C10')]


def run(tier="quick", replay=None):
    return run_check(
        "C10", RULES, tier=tier, replay=replay,
        explanation="AST/CFG rules: post-dominance of the left-over test over the pop-based consumption in get_mesh and "
                    "create_parameters, raise discipline of setParam/getParam, suffix and default tables across "
                    "direct_model/bumps_model/sasview_model/convert, the index construction of every data-type branch of "
                    "_interpret_data, hidden-parameter handling and the shared make_kernel_args/_calc_theory path. "
                    "Numeric equality across interfaces is not decided.",
        assumptions=["dict.pop removes the key", "the three interfaces share make_kernel_args (checked) and the kernels"])
