"""C13 - particle models are dimensionally consistent with their declared units.

Decided: well-typedness implies the scaling law.  Every arithmetic node of
Iq/Fq/Iqac/Iqabc/form_volume/shell_volume/radius_effective of each in-scope
shape model is typed with a (length, SLD) degree derived from the declared
unit strings; a definite inhomogeneity or a wrong return degree is a
violation.  Also: C signatures do not contradict the parameter table; unit
strings agree with parameter types.
Not decided: the numerical statement itself; functions the typer cannot
resolve are reported as unanalysed, never as violations.
"""
import re
from fractions import Fraction as Fr
from ..report import run_check, AnalysisError
from .. import cfront, tables
from ..dims import Typer, unit_degree, fmt, known, POLY, ZERO

# Exceptions: inhomogeneous-looking but correct code.  Keyed by (model, function, normalised expression); one line of reason each.
EXCEPTIONS = {
}


def in_scope(m):
    cat = m.get("category") or ""
    if not cat.startswith("shape:"):
        return False, "category %r" % cat
    if m.is_py():
        return False, "python model"
    for p in m.pars:
        if unit_degree(p["units"]) == "out-of-scope":
            return False, "unit %r of %s" % (p["units"], p["name"])
    return True, ""


def analyse_unit(unit, extra):
    out = []
    info = (extra or {}).get("models", {}).get(unit.name)
    relfile = "sasmodels/models/%s.c" % unit.name
    if info is None:
        return out
    def inst(rule, status, fn, construct, line, detail="", file=None):
        out.append((rule, status, file or relfile, "%s:%s" % (unit.name, fn), construct, line, detail))
    meta = unit.meta
    types = meta["types"]
    deg = {p["id"]: unit_degree(p["units"]) for p in info["pars"]}
    kp = meta["kernel_parameters"]
    iq_pars = [p for p in kp if types[p] not in ("orientation", "magnetic")]
    vol_pars = [p for p in kp if types[p] == "volume"]
    T = Typer(unit)
    L = lambda n: (Fr(n), Fr(0))
    q = L(-1)
    have = lambda f: f in unit.functions and unit.body(unit.functions[f]) is not None
    results = {}
    V = ZERO
    if have("form_volume") and vol_pars:
        ret, _ = T.call("form_volume", [deg[p] for p in vol_pars])
        results["form_volume"] = ret
        if known(ret):
            V = ret
        elif ret == POLY or ret is None:
            V = L(3)
    want = {"form_volume": L(3), "shell_volume": L(3), "radius_effective": L(1)}
    if have("shell_volume") and vol_pars:
        results["shell_volume"], _ = T.call("shell_volume", [deg[p] for p in vol_pars])
    if have("radius_effective") and info.get("modes"):
        results["radius_effective"], _ = T.call("radius_effective", [ZERO] + [deg[p] for p in vol_pars])
    # a model whose form_volume is the constant 1 reports no volume: I is then not volume-normalised
    fv = results.get("form_volume")
    Vn = ZERO if (not have("form_volume") or not vol_pars or fv == ZERO) else L(3)
    if fv == ZERO:
        want["form_volume"] = ZERO
    F2 = (Vn[0] + 3, Fr(2))
    F1 = (F2[0] / 2, Fr(1))
    args = [deg[p] for p in iq_pars]
    if have("Fq"):
        ret, outs = T.call("Fq", [q, POLY, POLY] + args)
        results["Fq:F1"] = outs.get(1)
        results["Fq:F2"] = outs.get(2)
        want["Fq:F1"], want["Fq:F2"] = F1, F2
    if have("Iq"):
        results["Iq"], _ = T.call("Iq", [q] + args)
        want["Iq"] = F2
    if have("Iqac"):
        results["Iqac"], _ = T.call("Iqac", [q, q] + args)
        want["Iqac"] = F2
    if have("Iqabc"):
        results["Iqabc"], _ = T.call("Iqabc", [q, q, q] + args)
        want["Iqabc"] = F2
    for fn, got in sorted(results.items()):
        f = unit.functions.get(fn.split(":")[0])
        file, line = unit.where(f) if f else (relfile, 0)
        w = want[fn]
        if got is None or got == POLY:
            if fn == "form_volume" and got == POLY:
                inst("R-C13-degree", "ok", fn, "returns the literal 0/1 placeholder", line, file=file)
            else:
                inst("R-C13-degree", "note", fn, "return degree unresolved", line, "unanalysed (typer could not resolve the degree)", file=file)
            continue
        ok = got == w
        key = (unit.name, fn, "return")
        if not ok and key in EXCEPTIONS:
            inst("R-C13-degree", "note", fn, "%s returns %s" % (fn, fmt(got)), line, "exception: " + EXCEPTIONS[key], file=file)
            continue
        inst("R-C13-degree", "ok" if ok else "violation", fn, "%s returns %s" % (fn, fmt(got)), line,
             "as required for the documented scaling (%s)" % fmt(w) if ok else
             "declared units imply %s, so the documented scaling law needs %s: some parameter is not used in the unit shown next to it"
             % (fmt(got), fmt(w)), file=file)
    # complaints from inside the bodies
    seen = set()
    for kind, fn, text, detail, line, file in T.complaints:
        k = (kind, fn, re.sub(r"\s+", "", text))
        if k in seen:
            continue
        seen.add(k)
        ek = (unit.name, fn, re.sub(r"\s+", "", text))
        if ek in EXCEPTIONS:
            inst("R-C13-homogeneous", "note", fn, text, line, "exception: " + EXCEPTIONS[ek], file=file)
        else:
            inst("R-C13-homogeneous", "violation", fn, text, line, "%s: %s" % (kind, detail), file=file)
    inst("R-C13-homogeneous", "ok", "*", "%d expression nodes typed, %d definite inhomogeneities" % (T.nodes, len(seen)), 0)
    # highest length degree reached by any intermediate value, per entry point (read by R-C15-headroom)
    for top, (dl, ds, text, line, file, inner) in sorted(T.peak.items()):
        out.append(("PEAK", "data", file, "%s:%s" % (unit.name, top), text, line, (str(dl), str(ds), inner, bool(meta.get("single", True)))))
    return out


def analyse_order(unit, extra):
    """Signature/table contradiction for every unit (not only in-scope ones)."""
    out = []
    meta = unit.meta
    types = meta["types"]
    kp = meta["kernel_parameters"]
    iq_pars = [p for p in kp if types[p] not in ("orientation", "magnetic")]
    vol_pars = [p for p in kp if types[p] == "volume"]
    def canon(name):
        toks = sorted(t for t in re.split(r"_+", name.lower()) if t)
        return "_".join(toks)
    lead = {"Iq": 1, "Fq": 3, "Iqac": 2, "Iqabc": 3, "form_volume": 0, "shell_volume": 0, "radius_effective": 1}
    for fn, nlead in lead.items():
        f = unit.functions.get(fn)
        if f is None or unit.body(f) is None:
            continue
        table = vol_pars if fn in ("form_volume", "shell_volume", "radius_effective") else iq_pars
        if not table:
            continue      # never called: the generated CALL_VOLUME uses the constant 1 when there is no volume parameter
        cpar = [p["name"] for p in unit.params(f)][nlead:]
        file, line = unit.where(f)
        tcanon = [canon(p) for p in table]
        problems = []
        for i, cn in enumerate(cpar[:len(table)]):
            c = canon(cn)
            if c == tcanon[i]:
                continue
            others = [j for j, t in enumerate(tcanon) if t == c and j != i]
            if others:
                j = others[0]
                problems.append("C parameter %d is named %r like table entry %d (%s), while the table has %r at position %d: "
                                "values are passed by position" % (i, cn, j, table[j], table[i], i))
        if len(cpar) != len(table):
            problems.append("%d C parameters for %d table entries" % (len(cpar), len(table)))
        status = "violation" if problems else "ok"
        out.append(("R-C13-order", status, file, "%s:%s" % (unit.name, fn), "%s(%s) vs table (%s)" % (fn, ", ".join(cpar), ", ".join(table)),
                    line, "; ".join(problems) if problems else "no C parameter name contradicts the table order"))
    return out


_C = None
_O = None


def _models_info():
    info = {}
    scope = {}
    for name, m in tables.models().items():
        ok, why = in_scope(m)
        scope[name] = (ok, why)
        if ok:
            info[name] = {"pars": [{"id": p["id"], "units": p["units"], "type": p["type"]} for p in m.pars],
                          "modes": m.get("radius_effective_modes")}
    return info, scope


def _c_results():
    global _C
    if _C is None:
        info, scope = _models_info()
        _C = cfront.map_units("sa.rules.c13:analyse_unit", names=set(info), extra={"models": info})
        _C["__scope__"] = scope
    return _C


def _o_results():
    global _O
    if _O is None:
        _O = cfront.map_units("sa.rules.c13:analyse_order")
    return _O


def make_rule(rule_id, source):
    def run(r):
        res = source()
        for unit, rows in sorted(res.items()):
            if unit.startswith("__"):
                continue
            for row in rows:
                if row[0] == rule_id:
                    _, status, f, fn, construct, line, detail = row
                    getattr(r, status)(f, fn, construct, line, detail)
        if rule_id == "R-C13-degree":
            scope = res["__scope__"]
            for name, (ok, why) in sorted(scope.items()):
                if not ok and (tables.models()[name].get("category") or "").startswith("shape:"):
                    r.note("sasmodels/models/%s.py" % name, name, "shape model outside the typed fragment", 0, why)
    return run


def rule_unit_type(r):
    """volume parameters carry a length-type unit; sld <-> 1e-6/Ang^2; orientation <-> degrees."""
    for name, m in sorted(tables.models().items()):
        cat = m.get("category") or ""
        if not cat.startswith("shape:"):
            continue
        f = "sasmodels/models/%s.py" % name
        for p in m.pars:
            t, u = p["type"], p["units"]
            if t == "sld":
                r.check(u == "1e-6/Ang^2", f, name, "%s [%s] type sld" % (p["name"], u), m.lineno.get("parameters", 0),
                        "SLD parameters are entered in 1e-6/Ang^2")
            elif t == "orientation":
                r.check(u in ("degrees", "degree"), f, name, "%s [%s] type orientation" % (p["name"], u), m.lineno.get("parameters", 0),
                        "angles are entered in degrees")
            elif u == "1e-6/Ang^2":
                r.check(t == "sld" or p["id"].startswith("sld") or "sld" in p["id"], f, name, "%s [%s] type %r" % (p["name"], u, t),
                        m.lineno.get("parameters", 0), "an SLD unit on a non-SLD parameter")


def rule_plumbing(r):
    """Each number reaches the kernel argument it is named after, read in its declared unit: the expansion of vector
    parameters keeps every attribute that decides how a value or width is interpreted."""
    import ast
    from .. import pyfacts as pf
    mi = pf.lib("modelinfo")
    MI = "sasmodels/modelinfo.py"
    pp = mi.func("parse_parameter")
    set_attrs = {}
    for s_ in pf.walk_stmts(pp):
        if isinstance(s_, ast.Assign) and isinstance(s_.targets[0], ast.Attribute) and pf.unparse(s_.targets[0].value) == "parameter":
            set_attrs[s_.targets[0].attr] = s_
    if len(set_attrs) < 4:
        raise AnalysisError("parse_parameter: attribute assignments not found")
    gc = mi.func("ParameterTable._get_call_parameters")
    copied = {}
    ctor = None
    for s_ in pf.walk_stmts(gc):
        if isinstance(s_, ast.Assign) and isinstance(s_.targets[0], ast.Attribute) and pf.unparse(s_.targets[0].value) == "pk":
            copied[s_.targets[0].attr] = pf.unparse(s_.value)
        if isinstance(s_, ast.Assign) and pf.unparse(s_.targets[0]) == "pk" and isinstance(s_.value, ast.Call):
            ctor = s_
    exempt = {"length": "an expanded entry is a scalar", "length_control": "an expanded entry has no control parameter"}
    for attr, where in sorted(set_attrs.items()):
        if attr in exempt:
            r.ok(MI, "ParameterTable._get_call_parameters", "pk.%s not copied" % attr, gc.lineno, exempt[attr])
            continue
        ok = copied.get(attr) == "p.%s" % attr
        r.check(ok, MI, "ParameterTable._get_call_parameters", "pk.%s = p.%s" % (attr, attr), gc.lineno,
                "parse_parameter sets %s on every parameter (%s); the numbered copies of a vector parameter must carry it too, or "
                "name1, name2 ... are interpreted differently from name" % (attr, pf.unparse(where)[:60]))
    okc = ctor is not None and [pf.unparse(a) for a in ctor.value.args] == ["p.id + str(k)", "p.units", "p.default", "p.limits", "p.type", "p.description"]
    r.check(okc, MI, "ParameterTable._get_call_parameters", pf.unparse(ctor)[:100] if ctor else "pk = Parameter(...)", gc.lineno,
            "numbered copies keep units, default, limits and type")
    init = mi.func("Parameter.__init__")
    sig = pf.positional_params(init)[1:7]
    r.check(sig == ["name", "units", "default", "limits", "ptype", "description"], MI, "Parameter.__init__", "signature %s" % sig, init.lineno)
    # relative/absolute width plumbing (shared with C02)
    from .c02 import rule_relative
    rule_relative(r)
    # table order -> C argument order is R-C09-args / R-C13-order


from . import extra3 as _x3
RULES = [
    ("R-C13-plumbing", 12, "vector expansion and width interpretation keep the declared meaning", rule_plumbing),
    ("R-C13-degree", 90, "return degrees of every model function match the documented scaling", make_rule("R-C13-degree", _c_results)),
    ("R-C13-homogeneous", 38, "no definite inhomogeneity inside the model functions", make_rule("R-C13-homogeneous", _c_results)),
    ("R-C13-order", 150, "C signatures do not contradict the parameter table", make_rule("R-C13-order", _o_results)),
    ("R-C13-unit-type", 100, "unit strings agree with parameter types", rule_unit_type),
    ("R-C13-limits", 150, "limits of dimensional parameters are scale free (in-scope models)", _x3.rule_c13_limits),
]


from . import shared
RULES = RULES + shared.bundle('C13', ['f2i', 'tablebounds', 'gauss-tables', 'intdiv', 'gpu', 'norm', 'values', 'carry', 'gate', 'restart', 'loops', 'driver', 'density', 'support', 'relative', 'limits', 'unit-sum', 'centre'], ['modelinfo', 'weights'])


def run(tier="quick", replay=None):
    return run_check(
        "C13", RULES, tier=tier, replay=replay,
        explanation="Units type system over the clang AST of every in-scope shape model: degrees (length, SLD) assigned to "
                    "parameters from the literal unit strings of the model file and q -> 1/L; sums need equal degrees, products "
                    "add, sqrt/cbrt/pow scale, transcendental arguments must be dimensionless, helper functions typed per call "
                    "context; return degrees compared with V L^3 S^2 (F^2), half of it (F), L^3 (volumes), L (effective radius). "
                    "If every node is homogeneous the scaling law holds for all inputs. Plus a name-based signature/table "
                    "contradiction rule on all units.",
        assumptions=["numeric literals are dimensionless", "branch thresholds compare but do not compute"])
from .. import refs as _refs13
RULES = RULES + [_refs13.ref_rule('C13')]
