"""C02 - distribution weights match their documented densities, limits and widths.

Decided: (density) the logarithmic derivative in x of each class's weight
expression equals that of the documented density (so the weights are
proportional to it); (support) spans; (limits) inclusive masks in all seven
classes, weights computed from the masked values; (centre) width resolution
and degenerate case; (unit-sum); (relative) plumbing of relative_pd.
Not decided: finiteness, monotonicity and positivity of the numbers.
"""
import ast, re
import sympy as sp
from ..report import run_check, AnalysisError
from .. import pyfacts as pf
from .. import nf

F = "sasmodels/weights.py"
x = sp.Symbol("x", positive=True)
c = sp.Symbol("center", positive=True)
s = sp.Symbol("sigma", positive=True)


def _doc_density(kind):
    if kind == "gaussian":
        return sp.exp(-(x - c) ** 2 / (2 * s ** 2))
    if kind == "lognormal":
        sig = s / c
        return sp.exp(-(sp.log(x) - sp.log(c)) ** 2 / (2 * sig ** 2)) / x
    if kind == "schulz":
        R, z = x / c, (c / s) ** 2
        return R ** (z - 1) * sp.exp(-R * z)
    if kind == "boltzmann":
        return sp.exp(-sp.Abs(x - c) / s)
    if kind in ("uniform", "rectangle"):
        return sp.Integer(1)
    return None


def _classes(mod):
    out = {}
    for name, node in mod.classes.items():
        if "." in name:
            continue
        typ = None
        for st in node.body:
            if isinstance(st, ast.Assign) and pf.unparse(st.targets[0]) == "type" and isinstance(st.value, ast.Constant):
                typ = st.value.value
        if typ and typ != "base disperser":
            out[typ] = name
    return out


def _returned(fn):
    rets = [st for st in pf.walk_stmts(fn) if isinstance(st, ast.Return)]
    if len(rets) != 1 or not isinstance(rets[0].value, ast.Tuple) or len(rets[0].value.elts) != 2:
        raise AnalysisError("%s: expected a single `return x, px`" % fn.name)
    return rets[0]


def rule_density(r):
    mod = pf.lib("weights")
    classes = _classes(mod)
    for kind in ("gaussian", "lognormal", "schulz", "boltzmann", "uniform", "rectangle"):
        if kind not in classes:
            r.violation(F, "<module>", "distribution %s defined" % kind, 0, "documented distribution type is missing")
            continue
        qual = classes[kind] + "._weights"
        fn = mod.func(qual)
        ret = _returned(fn)
        funcs = {"gammaln": lambda a: sp.loggamma(a), "ones_like": lambda a: sp.Integer(1), "fabs": sp.Abs, "abs": sp.Abs}
        env = {"center": c, "sigma": s}
        for st in fn.body:
            if isinstance(st, ast.Assign) and isinstance(st.targets[0], ast.Name):
                nm = st.targets[0].id
                if nm == pf.unparse(ret.value.elts[0]):
                    env[nm] = x       # the sample points
                else:
                    env[nm] = nf.py_expr(st.value, env, funcs)
        px = nf.py_expr(ret.value.elts[1], env, funcs)
        ref = _doc_density(kind)
        d = sp.simplify(sp.diff(sp.expand_log(sp.log(px), force=True), x)
                        - sp.diff(sp.expand_log(sp.log(ref), force=True), x))
        ok = d == 0 or nf.equal(d, 0)
        r.check(ok, F, qual, "px = %s" % pf.unparse(ret.value.elts[1]) if not isinstance(ret.value.elts[1], ast.Name)
                else pf.unparse([st for st in fn.body if isinstance(st, ast.Assign) and pf.unparse(st.targets[0]) == ret.value.elts[1].id][-1]),
                ret.lineno, "d/dx log(px) - d/dx log(documented %s density) = %s" % (kind, d))


def rule_support(r):
    mod = pf.lib("weights")
    classes = _classes(mod)
    ls = mod.func("Dispersion._linspace")
    env = nf.straightline_env(ls.body, funcs={"linspace": lambda a, b, n: sp.Function("linspace")(a, b, n)})
    xs = [st for st in ls.body if isinstance(st, ast.Assign) and pf.unparse(st.targets[0]) == "x"]
    if not xs:
        raise AnalysisError("_linspace: x not found")
    e = nf.py_expr(xs[0].value, {"npts": nf.sym("npts"), "nsigmas": nf.sym("nsigmas")},
                   {"linspace": lambda a, b, n: sp.Function("linspace")(a, b, n)})
    C, Sg, N, NS = nf.sym("center"), nf.sym("sigma"), nf.sym("npts"), nf.sym("nsigmas")
    want = C + sp.Function("linspace")(-NS * Sg, NS * Sg, N)
    r.check(nf.equal(e, want), F, "Dispersion._linspace", pf.unparse(xs[0]), xs[0].lineno,
            "npts points on center +- nsigmas*sigma")
    un = mod.func(classes["uniform"] + "._weights")
    xs = [st for st in un.body if isinstance(st, ast.Assign) and pf.unparse(st.targets[0]) == "x"]
    e = nf.py_expr(xs[0].value, {}, {"linspace": lambda a, b, n: sp.Function("linspace")(a, b, n)})
    r.check(nf.equal(e, sp.Function("linspace")(C - Sg, C + Sg, nf.sym("self.npts"))), F, classes["uniform"] + "._weights",
            pf.unparse(xs[0]), xs[0].lineno, "uniform spans center +- sigma")
    rc = mod.func(classes["rectangle"] + "._weights")
    masks = [st for st in rc.body if isinstance(st, ast.Assign) and isinstance(st.value, ast.Subscript)
             and pf.unparse(st.value.value) == "x"]
    okm = False
    if masks:
        m = masks[0].value.slice
        if isinstance(m, ast.Compare) and isinstance(m.ops[0], ast.LtE):
            l = nf.py_expr(m.left, {}, {"fabs": sp.Abs})
            rr = nf.py_expr(m.comparators[0], {}, {"fabs": sp.Abs})
            okm = nf.equal(l, sp.Abs(nf.sym("x") - C)) and nf.equal(rr, sp.Abs(Sg) * sp.sqrt(3))
    r.check(okm, F, classes["rectangle"] + "._weights", pf.unparse(masks[0]) if masks else "mask", masks[0].lineno if masks else 0,
            "rectangle keeps |x - center| <= sqrt(3) |sigma|")
    cls = mod.cls(classes["rectangle"])
    dflt = [st for st in cls.body if isinstance(st, ast.Assign) and pf.unparse(st.targets[0]) == "default"]
    ns = None
    if dflt:
        for k in dflt[0].value.keywords:
            if k.arg == "nsigmas":
                ns = pf.const_value(k.value)
    r.check(ns is not None and ns >= 1.7320, F, classes["rectangle"], "default nsigmas=%s" % ns, dflt[0].lineno if dflt else 0,
            "the linspace reaches the rectangle's edge sqrt(3) sigma")
    for kind in ("gaussian", "lognormal", "schulz", "boltzmann", "rectangle"):
        fn = mod.func(classes[kind] + "._weights")
        first = [st for st in fn.body if isinstance(st, ast.Assign) and pf.unparse(st.targets[0]) == "x"]
        ok = bool(first) and isinstance(first[0].value, ast.Call) and pf.call_name(first[0].value) == "self._linspace" \
            and [pf.unparse(a) for a in first[0].value.args[:2]] == ["center", "sigma"]
        r.check(ok, F, classes[kind] + "._weights", pf.unparse(first[0]) if first else "x = ?", first[0].lineno if first else 0,
                "sample points from _linspace(center, sigma, ...)")


def _is_inclusive_mask(node, var, lb="lb", ub="ub"):
    """(var >= lb) & (var <= ub), either order."""
    if not (isinstance(node, ast.BinOp) and isinstance(node.op, ast.BitAnd)):
        return False
    parts = [node.left, node.right]
    got = set()
    for p in parts:
        if isinstance(p, ast.Compare) and len(p.ops) == 1:
            l, op, rr = pf.unparse(p.left), p.ops[0], pf.unparse(p.comparators[0])
            if l == var and isinstance(op, ast.GtE) and rr == lb: got.add("lo")
            if l == var and isinstance(op, ast.LtE) and rr == ub: got.add("hi")
            if rr == var and isinstance(op, ast.LtE) and l == lb: got.add("lo")
            if rr == var and isinstance(op, ast.GtE) and l == ub: got.add("hi")
    return got == {"lo", "hi"}


def rule_limits(r):
    mod = pf.lib("weights")
    classes = _classes(mod)
    ls = mod.func("Dispersion._linspace")
    m = [st for st in ls.body if isinstance(st, ast.Assign) and isinstance(st.value, ast.Subscript)]
    ok = bool(m) and _is_inclusive_mask(m[-1].value.slice, "x")
    r.check(ok, F, "Dispersion._linspace", pf.unparse(m[-1]) if m else "mask", m[-1].lineno if m else 0,
            "both limits inclusive: a point on a hard limit takes part")
    rets = [st for st in ls.body if isinstance(st, ast.Return)]
    r.check(bool(rets) and pf.unparse(rets[0].value) == "x" and (not m or m[-1].lineno < rets[0].lineno), F, "Dispersion._linspace",
            "return x (masked)", rets[0].lineno if rets else 0)
    for kind, cname in sorted(classes.items()):
        qual = cname + "._weights"
        fn = mod.func(qual)
        ret = _returned(fn)
        X = pf.unparse(ret.value.elts[0])
        defs = [st for st in fn.body if isinstance(st, ast.Assign) and pf.unparse(st.targets[0]) == X]
        if not defs:
            raise AnalysisError("%s: no assignment to %s" % (qual, X))
        via_linspace = isinstance(defs[0].value, ast.Call) and pf.call_name(defs[0].value) == "self._linspace"
        masked = False
        if via_linspace:
            args = [pf.unparse(a) for a in defs[0].value.args]
            lbub = args[2:4]
            masked = lbub in (["lb", "ub"], ["max(lb, 1e-08)", "max(ub, 1e-08)"])
            detail = "_linspace(%s)" % ", ".join(args)
        else:
            detail = "own mask"
            for st in defs[1:]:
                if isinstance(st.value, ast.Subscript) and pf.unparse(st.value.value) == X:
                    sl = st.value.slice
                    if _is_inclusive_mask(sl, X):
                        masked = True
                    elif isinstance(sl, ast.Name):
                        idx = [d for d in fn.body if isinstance(d, ast.Assign) and pf.unparse(d.targets[0]) == sl.id]
                        if idx and _is_inclusive_mask(idx[0].value, X):
                            masked = True
        r.check(masked, F, qual, "returned %s passes through (x >= lb) & (x <= ub): %s" % (X, detail), defs[0].lineno,
                "values outside the parameter's hard limits are never returned")
        # weights are computed from the masked values: every statement reading X for px follows the last def of X
        last = defs[-1].lineno
        px = ret.value.elts[1]
        index_names = {pf.unparse(d.value.slice) for d in defs if isinstance(d.value, ast.Subscript)}
        users = [st for st in fn.body if isinstance(st, ast.Assign) and pf.unparse(st.targets[0]) != X
                 and X in pf.names_in(st.value) and pf.unparse(st.targets[0]) not in index_names]
        okw = all(st.lineno > last for st in users)
        if isinstance(px, ast.Call) or isinstance(px, ast.Name):
            pass
        r.check(okw, F, qual, "weights computed from the masked %s" % X, last,
                "a weight vector built before masking would not line up with the returned values")


def rule_centre(r):
    mod = pf.lib("weights")
    fn = mod.func("Dispersion.get_weights")
    cfg = pf.cfg(fn)
    sg = [st for st in cfg.stmts() if isinstance(st, ast.Assign) and pf.unparse(st.targets[0]) == "sigma"]
    ok = bool(sg) and isinstance(sg[0].value, ast.IfExp) and pf.unparse(sg[0].value.test) == "relative" \
        and nf.equal(nf.py_expr(sg[0].value.body, {}), nf.sym("self.width") * nf.sym("center")) \
        and pf.unparse(sg[0].value.orelse) == "self.width"
    r.check(ok, F, "Dispersion.get_weights", pf.unparse(sg[0]) if sg else "sigma", sg[0].lineno if sg else 0,
            "relative width scales with the centre, absolute width does not")
    z = [st for st in cfg.stmts() if isinstance(st, ast.If) and pf.unparse(st.test) == "not relative"]
    okz = bool(z) and any(isinstance(b, ast.Assign) and pf.unparse(b.targets[0]) == "center" and pf.const_value(b.value) == 0 for b in z[0].body)
    r.check(okz, F, "Dispersion.get_weights", "if not relative: center = 0", z[0].lineno if z else 0,
            "absolute (angular) distributions are centred on zero")
    if sg and z:
        r.check(cfg.dominates(sg[0], z[0]), F, "Dispersion.get_weights", "sigma computed before center is reset", sg[0].lineno)
    deg = [st for st in cfg.stmts() if isinstance(st, ast.If) and "sigma == 0" in pf.unparse(st.test) and "self.npts < 2" in pf.unparse(st.test)]
    okd = False
    if deg:
        inner = [b for b in deg[0].body if isinstance(b, ast.If)]
        if inner and pf.unparse(inner[0].test) == "lb <= center <= ub":
            ret = [b for b in inner[0].body if isinstance(b, ast.Return)]
            okd = bool(ret) and "np.array([center], 'd')" in pf.unparse(ret[0]) and "np.array([1.0], 'd')" in pf.unparse(ret[0])
    r.check(okd, F, "Dispersion.get_weights", "if sigma == 0 or self.npts < 2: single central value with weight one (inside limits)",
            deg[0].lineno if deg else 0)
    call = [st for st in cfg.stmts() if isinstance(st, ast.Assign) and isinstance(st.value, ast.Call) and pf.call_name(st.value) == "self._weights"]
    okc = bool(call) and [pf.unparse(a) for a in call[0].value.args] == ["center", "sigma", "lb", "ub"]
    r.check(okc, F, "Dispersion.get_weights", pf.unparse(call[0]) if call else "_weights call", call[0].lineno if call else 0)
    if call and z:
        r.check(cfg.dominates(z[0], call[0]), F, "Dispersion.get_weights", "centre reset dominates _weights", call[0].lineno)
    if z:
        users = [st for st in cfg.stmts() if st is not z[0] and not isinstance(st, ast.If) and st.lineno > 0
                 and any(isinstance(n, ast.Name) and n.id == "center" and isinstance(n.ctx, ast.Load) for n in pf.own_exprs(st))
                 and not (isinstance(st, ast.Assign) and pf.unparse(st.targets[0]) == "sigma")]
        for st in users:
            r.check(cfg.dominates(z[0], st), F, "Dispersion.get_weights", "centre reset precedes `%s`" % pf.unparse(st)[:60], st.lineno,
                    "every value returned for an absolute (angular) distribution is measured from zero, the single-point case included")


def rule_unit_sum(r):
    mod = pf.lib("weights")
    fn = mod.func("get_weights")
    rets = [st for st in pf.walk_stmts(fn) if isinstance(st, ast.Return)]
    if not rets:
        raise AnalysisError("get_weights: no return")
    for ret in rets:
        ok = False
        if isinstance(ret.value, ast.Tuple) and len(ret.value.elts) == 2:
            w = ret.value.elts[1]
            txt = pf.inlined_text(fn, w)
            m = re.fullmatch(r"(\w+) / (?:np\.sum\((\w+)\)|(\w+)\.sum\(\)|sum\((\w+)\))", txt)
            ok = bool(m) and m.group(1) in [g for g in m.groups()[1:] if g]
        r.check(ok, F, "get_weights", "return %s" % pf.inlined_text(fn, ret.value), ret.lineno, "weights divided by their own sum")
    call = [c_ for c_ in pf.calls_in(fn) if isinstance(c_.func, ast.Attribute) and c_.func.attr == "get_weights"]
    okc = bool(call) and [pf.unparse(a) for a in call[0].args] == ["value", "limits[0]", "limits[1]", "relative"]
    r.check(okc, F, "get_weights", pf.unparse(call[0]) if call else "obj.get_weights", call[0].lineno if call else 0,
            "centre, lower, upper, relative in the order Dispersion.get_weights expects")
    p = pf.positional_params(mod.func("Dispersion.get_weights"))[1:]
    r.check(p == ["center", "lb", "ub", "relative"], F, "Dispersion.get_weights", "signature %s" % p, 0)
    ctor = [c_ for c_ in pf.calls_in(fn) if pf.unparse(c_.func) == "cls"]
    okk = bool(ctor) and [pf.unparse(a) for a in ctor[0].args] == ["n", "width", "nsigmas"]
    r.check(okk, F, "get_weights", pf.unparse(ctor[0]) if ctor else "cls(...)", ctor[0].lineno if ctor else 0)
    p = pf.positional_params(mod.func("Dispersion.__init__"))[1:]
    r.check(p == ["npts", "width", "nsigmas"], F, "Dispersion.__init__", "signature %s" % p, 0)


def rule_relative(r):
    mi = pf.lib("modelinfo")
    pp = mi.func("parse_parameter")
    st = [x_ for x_ in pf.walk_stmts(pp) if isinstance(x_, ast.Assign) and pf.unparse(x_.targets[0]) == "parameter.relative_pd"]
    r.check(bool(st) and pf.unparse(st[0].value) == "ptype == 'volume'", "sasmodels/modelinfo.py", "parse_parameter",
            pf.unparse(st[0]) if st else "relative_pd", st[0].lineno if st else 0, "size parameters relative, everything else absolute")
    dm = pf.lib("direct_model")
    pw = dm.func("_pop_par_weights")
    rel = [x_ for x_ in pf.walk_stmts(pw) if isinstance(x_, ast.Assign) and pf.unparse(x_.targets[0]) == "relative"]
    r.check(bool(rel) and pf.unparse(rel[0].value) == "parameter.relative_pd", "sasmodels/direct_model.py", "_pop_par_weights",
            pf.unparse(rel[0]) if rel else "relative", rel[0].lineno if rel else 0)
    call = [c_ for c_ in pf.calls_in(pw) if pf.call_name(c_) == "weights.get_weights"]
    want = ["distribution", "npts", "width", "nsigma", "value", "limits", "relative"]
    r.check(bool(call) and [pf.unparse(a) for a in call[0].args] == want, "sasmodels/direct_model.py", "_pop_par_weights",
            pf.unparse(call[0]) if call else "get_weights", call[0].lineno if call else 0, "argument order of weights.get_weights")
    sig = pf.positional_params(pf.lib("weights").func("get_weights"))
    r.check(sig == ["disperser", "n", "width", "nsigmas", "value", "limits", "relative"], F, "get_weights", "signature %s" % sig, 0)
    inactive = [x_ for x_ in pf.walk_stmts(pw) if isinstance(x_, ast.Assign) and pf.unparse(x_.targets[0]) == "pd"
                and "relative" in pf.unparse(x_.value)]
    r.check(bool(inactive) and pf.unparse(inactive[0].value) == "([value if relative else 0.0], [1.0])", "sasmodels/direct_model.py",
            "_pop_par_weights", pf.unparse(inactive[0]) if inactive else "inactive pd", inactive[0].lineno if inactive else 0,
            "inactive distribution: the value for sizes, zero jitter for angles")
    sv = pf.lib("sasview_model")
    gw = sv.func("SasviewModel._get_weights")
    call = [c_ for c_ in pf.calls_in(gw) if pf.call_name(c_) == "weights.get_weights"]
    want = ["dis['type']", "dis['npts']", "dis['width']", "dis['nsigmas']", "value", "par.limits", "par.relative_pd"]
    r.check(bool(call) and [pf.unparse(a) for a in call[0].args] == want, "sasmodels/sasview_model.py", "SasviewModel._get_weights",
            pf.unparse(call[0])[:90] if call else "get_weights", call[0].lineno if call else 0)
    # vector parameter expansion keeps the flag
    gc = mi.func("ParameterTable._get_call_parameters")
    r.check("pk.relative_pd = p.relative_pd" in pf.unparse(gc), "sasmodels/modelinfo.py", "ParameterTable._get_call_parameters",
            "pk.relative_pd = p.relative_pd", gc.lineno)


RULES = [
    ("R-C02-density", 6, "weights proportional to the documented density (log-derivative identity)", rule_density),
    ("R-C02-support", 8, "support widths", rule_support),
    ("R-C02-limits", 15, "inclusive limit masks in every class", rule_limits),
    ("R-C02-centre", 6, "centre/width resolution and degenerate case", rule_centre),
    ("R-C02-unit-sum", 5, "unit sum and argument order", rule_unit_sum),
    ("R-C02-relative", 7, "relative flag plumbing", rule_relative),
]


from . import shared
RULES = RULES + shared.bundle('C02', ['dim'], ['weights'])
from .. import refs as _refs
RULES = RULES + [_refs.ref_rule('C02')]


def run(tier="quick", replay=None):
    return run_check(
        "C02", RULES, tier=tier, replay=replay,
        explanation="Normal forms of each Dispersion._weights body: d/dx log(weight expression) is compared symbolically with "
                    "d/dx log(documented density), which decides proportionality for all x, centre and sigma; AST rules for "
                    "support, inclusive masks, centre resolution, normalisation and the relative_pd plumbing through three "
                    "interfaces. Finiteness/monotonicity of the numbers is not decided.",
        assumptions=["symbols: x, center, sigma positive (size parameters); numpy elementwise semantics"])
