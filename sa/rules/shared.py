"""Rule bundles shared between properties.

Several properties rest on the same machinery (the dispersity loop of the kernel template, its chunked driver, the
call-details/value-vector construction, the normalisation in Kernel.Fq/Iq, the weight functions).  A defect there breaks
each of them for some input, so each property's check includes the bundles of the code its anchors name.  A bundle entry
is (suffix, floor, doc, function); `bundle(prop, names)` renames the rule ids to R-<prop>-<suffix> so that findings stay
attributable to the property whose check reported them.
"""
from ..report import Rule


def _relabel(fn, new_id):
    def run(r):
        tmp = Rule(new_id, 0, "")
        fn(tmp)
        for i in tmp.instances:
            getattr(r, i["status"])(i["file"], i["function"], i["construct"], i["line"], i["detail"])
    return run


def _kernel_rule(rule_id, only_fq=False):
    def run(r):
        from .. import cfront
        from . import c01
        res = c01._c_results()
        idx = cfront.generate_units()
        for unit, rows in sorted(res.items()):
            if only_fq and not idx["models"].get(unit, {}).get("have_Fq"):
                continue
            for row in rows:
                if row[0] == rule_id:
                    _, status, f, fn, construct, line, detail = row
                    getattr(r, status)(f, fn, construct, line, detail)
    return run


def _globals_for(modules):
    def run(r):
        from .c11 import rule_globals
        tmp = Rule("x", 0, "")
        rule_globals(tmp)
        files = {"sasmodels/%s.py" % m for m in modules}
        n = 0
        for i in tmp.instances:
            if i["file"] in files:
                n += 1
                getattr(r, i["status"])(i["file"], i["function"], i["construct"], i["line"], i["detail"])
        for m in sorted(modules):
            r.ok("sasmodels/%s.py" % m, "<module>", "module-level state of %s: only enumerated caches are written" % m, 0)
    return run


def catalog():
    from . import c01, c02, c14, gpu
    return {
        "dim": ("dim", 6, "which parameters receive their distribution: kernel dimension comes from the q input or a component; no stated dimension keeps every dispersity parameter active", __import__("sa.rules.extra3", fromlist=["x"]).rule_c08_dim),
        "product-layout": ("product-layout", 100, "ProductKernel slice arithmetic = assembly order of the product's value vector (P block, S block, mode selectors, magnetic block)", __import__("sa.rules.c07", fromlist=["x"]).rule_layout),
        "minmax": ("minmax", 18, "min/max effective-radius modes select by the ordering of their own candidates (all models)", __import__("sa.rules.extra3", fromlist=["x"]).rule_c14_minmax),
        "pymodel": ("pymodel", 20, "python functions of the model files: no uninitialised memory, no state kept, no in-place update of their (persistent) arguments", __import__("sa.rules.extra3", fromlist=["x"]).rule_c11_pymodel),
        "intdiv": ("intdiv", 120, "no truncating division of two integer literals in any model unit (double-precision dll units and single-precision OpenCL units)", __import__("sa.rules.extra3", fromlist=["x"]).make_intdiv_rule(("dll", "opencl-f32"))),
        "fastpath": ("fastpath", 55, "equality-guarded special branches of model code agree with the general branch at the same point (all models)", __import__("sa.rules.extra3", fromlist=["x"]).rule_c14_fastpath),
        "gauss-tables": ("gauss-tables", 9, "quadrature tables are Gauss-Legendre rules on [-1, 1] (weights sum to 2, mirror symmetry)", __import__("sa.rules.extra3", fromlist=["x"]).rule_gauss_tables),
        "q0": ("q0", 18, "Fq of every amplitude model interpreted symbolically at q = 0: F1^2 = F2", __import__("sa.rules.extra3", fromlist=["x"]).rule_c14_q0),
        "tablebounds": ("tablebounds", 40, "loops of model code over constant tables run 0 <= i < N <= table length, step +1", __import__("sa.rules.extra3", fromlist=["x"]).rule_tablebounds),
        "f2i": ("f2i", 61, "no implicit floating-to-integral conversion in model code (except parameters that are integers at every call site)", __import__("sa.rules.extra3", fromlist=["x"]).rule_f2i),
        "definite-init": ("definite-init", 40, "scalar locals of model code are assigned on every path before they are read", __import__("sa.rules.extra3", fromlist=["x"]).rule_definit),
        "order-select": ("order-select", 3, "helpers that select smallest / middle / largest of their inputs give the same value for every assignment of ranks to inputs", __import__("sa.rules.extra3", fromlist=["x"]).rule_c14_ordersel),
        "mode-order": ("mode-order", 20, "a half diagonal is at least as long as the half sides / radius it spans (all models)", __import__("sa.rules.extra3", fromlist=["x"]).rule_c14_modeorder),
        "magloop": ("magloop", 250, "spin-channel loop of every magnetic kernel: slots, weight threshold, q = 0 guard threshold (all magnetic units)", __import__("sa.rules.c06", fromlist=["x"]).make_c_rule("R-C06-loop")),
        "cos": ("cos", 18, "the mesh weight of a theta jitter point is |cos(dtheta)| times its distribution weight (all oriented units)", __import__("sa.rules.c05", fromlist=["x"]).make_c_rule("R-C05-cos")),
        "scan": ("scan", 3, "make_source scans for shell_volume / the 2-D mode only after every piece of model code has been appended", __import__("sa.rules.extra3", fromlist=["x"]).rule_c09_scan),
        "drivers": ("drivers", 53, "dll/OpenCL/CUDA drivers agree on kernel arguments, result size, read-back, kernel selection and q layout", gpu.rule_drivers),
        "gpu": ("gpu", 2000, "OpenCL configuration of the kernels: work-item bound, carried q-point sums, gated accumulation (all units)", gpu.make_gpu_rule()),
        "eqvol": ("eqvol", 15, "equivalent-volume-sphere radius mode agrees with form_volume in every model", c14.make_c_rule("R-C14-eqvol")),
        "modes": ("modes", 55, "radius_effective mode list <-> case labels in every model", c14.make_c_rule("R-C14-modes")),
        "carry": ("carry", 300, "kernel accumulators carried/reset correctly across invocations (all units)", _kernel_rule("R-C01-carry")),
        "gate": ("gate", 300, "VALID and strict cutoff gate every accumulation (all units)", _kernel_rule("R-C01-gate")),
        "loops": ("loops", 300, "counted loops of every kernel run 0 <= i < bound, step 1 (all units)", _kernel_rule("R-C01-loops")),
        "restart": ("restart", 300, "dispersity loop restart protocol (all units)", _kernel_rule("R-C01-restart")),
        "driver": ("driver", 12, "chunks tile [0, num_eval) in the dll/opencl/cuda drivers", c01.rule_chunk),
        "values": ("values", 9, "value-vector layout and NUM_VALUES", c01.rule_values),
        "stride": ("stride", 9, "loop-slot selection and strides", c01.rule_stride),
        "maxpd": ("maxpd", 2, "max_pd refusal dominates truncation", c01.rule_maxpd),
        "struct": ("struct", 52, "ProblemDetails layout = CallDetails.buffer views", c01.rule_struct),
        "norm": ("norm", 12, "normalisation formula and zero guards in Kernel.Fq/Iq", c01.rule_norm),
        "density": ("density", 6, "distribution weights proportional to the documented densities", c02.rule_density),
        "limits": ("limits", 15, "inclusive limit masks in every distribution", c02.rule_limits),
        "centre": ("centre", 6, "centre/width resolution and single-point case", c02.rule_centre),
        "unit-sum": ("unit-sum", 5, "weights normalised to unit sum", c02.rule_unit_sum),
        "relative": ("relative", 7, "relative/absolute width plumbing", c02.rule_relative),
        "support": ("support", 8, "distribution support widths", c02.rule_support),
    }


def bundle(prop, names, state_modules=()):
    cat = catalog()
    out = []
    for n in names:
        suffix, floor, doc, fn = cat[n]
        rid = "R-%s-sh-%s" % (prop, suffix)
        out.append((rid, floor, doc + " [shared]", _relabel(fn, rid)))
    if state_modules:
        rid = "R-%s-sh-state" % prop
        out.append((rid, len(state_modules), "no persistent module-level state consulted in %s [shared]" % ", ".join(state_modules),
                    _relabel(_globals_for(state_modules), rid)))
    return out
