"""C01 - dispersity-averaged I(q).

Decided on every generated unit x {Iq, Iqxy, Imagnetic}: accumulator
carry/reset pairing, gates, loop restart protocol; and on the Python side:
struct and value-vector layout, stride construction, max_pd refusal, chunk
tiling in three drivers, normalisation formula and zero guards, loop-slot
guarantee for truncated distributions.
Not decided: the numeric identity with scale*sum(w F^2)/sum(w V)+background.
"""
import ast, re
import sympy as sp
from ..report import run_check, AnalysisError
from .. import pyfacts as pf
from .. import nf, cfront
from ..ckernel import Kernel, VARIANTS, norm, kids, if_parts, var_decls
from ..nf import c_text, c_strip
from ..layout import affine, same

KI = "sasmodels/kernel_iq.c"


def _inst(out, rule, ok, file, function, construct, line, detail=""):
    out.append((rule, "ok" if ok else "violation", file, function, construct, line, detail))


def analyse_unit(unit, extra):
    """Worker: C-side rules for one translation unit."""
    out = []
    meta = unit.meta
    valid_texts = {}
    for variant in VARIANTS:
        try:
            k = Kernel(unit, variant)
        except AnalysisError:
            if variant == "Imagnetic":
                continue
            raise
        fn = "%s:%s" % (unit.name, variant)
        # ---- carry ---------------------------------------------------
        accs = k.accumulators()
        stores = k.exit_stores()
        bound, zero_ok, zst = k.zero_loop()
        acc_by_name = {n: e for n, e, d, z in accs}
        store_by_val = {v: e for e, v, st in stores}
        line = k.fn.get("_line", 0)
        if len(accs) != 4:
            _inst(out, "R-C01-carry", False, KI, fn, "four carried accumulators", line,
                  "found %d locals initialised as `pd_start == 0 ? 0 : result[...]`: %s" % (len(accs), sorted(acc_by_name)))
        for n, e, d, z in accs:
            ok = store_by_val.get(n) == e and z
            _inst(out, "R-C01-carry", ok, KI, fn, "%s <-> result[%s]" % (n, e), d.get("_line", 0),
                  "restored from result[%s] when pd_start != 0, zero otherwise, and stored back to result[%s] on exit"
                  % (e, store_by_val.get(n)))
        for e, v, st in stores:
            if v not in acc_by_name:
                _inst(out, "R-C01-carry", False, KI, fn, "result[%s] = %s" % (e, v), st.get("_line", 0),
                      "value stored on exit is not a carried accumulator: it is lost or stale on the next chunk")
        # q range accumulation vs zeroing
        qacc = [(l, r, n, anc) for l, r, n, anc in k.accumulations() if l.startswith(k.p_result + "[")]
        idxs = sorted({l[len(k.p_result) + 1:-1] for l, _, _, _ in qacc})
        want_bound = "2*%s" % k.p_nq if any(i.startswith("2*") for i in idxs) else k.p_nq
        _inst(out, "R-C01-carry", zero_ok and bound == want_bound, KI, fn,
              "if (pd_start == 0) zero result[0..%s) ; accumulated slots %s" % (bound, idxs), zst.get("_line", 0) if zst else line,
              "the q slots are zeroed exactly when a new mesh starts and cover exactly the accumulated range %s" % want_bound)
        want_scalars = sorted([want_bound] + ["%s+%d" % (want_bound, i) for i in (1, 2, 3)])
        _inst(out, "R-C01-carry", sorted(acc_by_name.values()) == want_scalars, KI, fn,
              "scalar slots %s" % sorted(acc_by_name.values()), line, "the four sums live right after the q slots: %s" % want_scalars)
        # ---- loops: every counted loop of the kernel runs i = 0; i < BOUND; i++ -----------------------------
        qbounds = []
        for n in cfront.walk(k.body):
            if n.get("kind") != "ForStmt":
                continue
            parts = n.get("inner", [])
            if len(parts) < 5:
                continue
            init, cond, inc = parts[0], parts[2], parts[3]
            itxt, ctxt, stxt = norm(c_text(init)) if init else "", norm(c_text(cond)) if cond else "", norm(c_text(inc)) if inc else ""
            if init and init.get("kind") == "DeclStmt":
                vd = [x for x in kids(init) if x.get("kind") == "VarDecl"]
                ini = [x for x in kids(vd[0])] if vd else []
                itxt = "%s=%s" % (vd[0].get("name"), norm(c_text(ini[0])) if ini else "?") if vd else itxt
            m = re.match(r"^(\w+)<(.+)$", ctxt)
            var = m.group(1) if m else None
            ok = bool(m) and itxt == "%s=0" % var and stxt in ("%s++" % var, "++%s" % var) and "=" not in m.group(2)
            _inst(out, "R-C01-loops", ok, KI, fn, "for (%s; %s; %s)" % (itxt, ctxt, stxt), n.get("_line", 0),
                  "counted loop from 0, strict upper bound, step +1" if ok else
                  "a counted loop of the kernel must run index = 0; index < bound; index++ (a <= bound reads and accumulates one "
                  "element past the q vector / cross-section table, a reversed step never terminates on the intended range)")
            if var and "q_index" in var:
                qbounds.append((m.group(2), n))
        for b, n in qbounds:
            okb = b in (k.p_nq, "2*%s" % k.p_nq)
            _inst(out, "R-C01-loops", okb, KI, fn, "q loop bound %s" % b, n.get("_line", 0), "every q point, and only those, takes part")
        if not qbounds:
            _inst(out, "R-C01-loops", False, KI, fn, "q loop", line, "no loop over the q points found in the kernel")
        # ---- gate ----------------------------------------------------
        vif, cif = k.valid_if(), k.cutoff_if()
        if vif is None or cif is None:
            _inst(out, "R-C01-gate", False, KI, fn, "if (VALID(...)) { ... if (weight > cutoff) { ... } }", line,
                  "gating structure not found")
        else:
            ctext = norm(c_text(if_parts(cif)[0]))
            m = re.match(r"^(\w+)>%s$" % re.escape(k.p_cutoff), ctext)
            _inst(out, "R-C01-gate", bool(m), KI, fn, "if (%s)" % c_text(if_parts(cif)[0]), cif.get("_line", 0),
                  "strict comparison: weight == cutoff (in particular weight 0 with cutoff 0) is excluded")
            wvar = m.group(1) if m else "weight"
            names = set(acc_by_name)
            n_acc = 0
            for l, rhs, node, anc in k.accumulations():
                if l in names or l.startswith(k.p_result + "["):
                    n_acc += 1
                    gated = any(a is vif for a in anc) and any(a is cif for a in anc)
                    from ..ckernel import weighted_by
                    uses_w = weighted_by(kids(node)[1], wvar)
                    _inst(out, "R-C01-gate", gated and uses_w, KI, fn, "%s += %s" % (l, rhs[:60]), node.get("_line", 0),
                          "accumulated only for valid points above the cutoff, weighted by the tested weight"
                          if gated and uses_w else "gated=%s weighted_by_%s=%s" % (gated, wvar, uses_w))
            if n_acc < 5:
                _inst(out, "R-C01-gate", False, KI, fn, "accumulation statements", line, "only %d found" % n_acc)
            # the validity test is a C expression: a comparison applied to the result of a comparison (`a >= b >= 0`) does
            # not chain - it compares a 0/1 value - and silently turns the guard into a constant
            REL = ("<", ">", "<=", ">=", "==", "!=")
            vcond = if_parts(vif)[0]
            valid_texts[variant] = (norm(c_text(vcond)), vif.get("_line", 0))
            for nrel in cfront.walk(vcond):
                if nrel.get("kind") == "BinaryOperator" and nrel.get("opcode") in REL:
                    for ch in kids(nrel):
                        c0 = ch
                        while c0.get("kind") in ("ImplicitCastExpr", "CStyleCastExpr"):      # (parentheses show intent: not stripped)
                            c0 = kids(c0)[0]
                        if c0.get("kind") == "BinaryOperator" and c0.get("opcode") in REL:
                            _inst(out, "R-C01-gate", False, KI, fn, "VALID: %s" % c_text(nrel)[:80], vif.get("_line", 0),
                                  "chained comparison in the model's validity expression: `x >= y >= z` is `(x >= y) >= z` in C, so "
                                  "infeasible mesh points are no longer excluded")
            # no accumulation sits under any further condition, except the effective-radius sum under `mode != 0`
            radius_acc = {n for n, e in acc_by_name.items() if e.endswith("+3")}
            for l, rhs, node, anc in k.accumulations():
                if not (l in names or l.startswith(k.p_result + "[")):
                    continue
                extra = [a for a in anc if a.get("kind") == "IfStmt" and a is not vif and a is not cif and any(a is x for x in cfront.walk(cif))]
                for a in extra:
                    cnd, then, els = if_parts(a)
                    ctxt = norm(c_text(cnd))
                    in_then = any(node is x for x in cfront.walk(then))
                    if ctxt.startswith("qsq>"):
                        continue        # magnetic kernels skip q = 0 (judged by R-C06-loop)
                    ok = l in radius_acc and ctxt == norm("%s != 0" % k.p_mode) and in_then
                    _inst(out, "R-C01-gate", ok, KI, fn, "%s += ... under if (%s)" % (l, c_text(cnd)), a.get("_line", 0),
                          "the effective-radius sum is taken exactly when a mode is selected" if ok else
                          "an accumulation sits under a further condition: mesh points above the cutoff are left out of this sum")
            # the q point is fetched from the q vector at the loop index
            fetch = []
            for n in cfront.walk(cif):
                if n.get("kind") == "BinaryOperator" and n.get("opcode") == "=":
                    lhs, rhs = kids(n)
                    r0 = c_strip(rhs)
                    if r0.get("kind") == "ArraySubscriptExpr" and norm(c_text(kids(r0)[0])) == k.p_q:
                        fetch.append((norm(c_text(lhs)), norm(c_text(kids(r0)[1])), n))
            if variant == "Iq":
                okf = len(fetch) == 1 and "q_index" in fetch[0][1] and fetch[0][1] in ("q_index",)
            else:
                idx2 = sorted(f[1] for f in fetch)
                okf = len(fetch) == 2 and idx2 == ["2*q_index", "2*q_index+1"] and fetch[0][0] != fetch[1][0] \
                    and [f[0] for f in sorted(fetch, key=lambda f: f[1])] == ["qx", "qy"]
            _inst(out, "R-C01-gate", okf, KI, fn, "q fetch: %s" % ["%s = q[%s]" % (a, b) for a, b, _ in fetch], fetch[0][2].get("_line", 0) if fetch else line,
                  "each q point is read from its own slot of the q vector (1-D: q[i]; 2-D: qx = q[2i], qy = q[2i+1])")
        # ---- restart -------------------------------------------------
        loops = k.loops()
        max_pd = meta.get("max_pd")
        if max_pd is not None and len(loops) != max_pd and unit.name != "_reparam_witness":
            _inst(out, "R-C01-restart", False, KI, fn, "%d nested dispersity loops" % len(loops), line,
                  "model declares max_pd=%s" % max_pd)
        decl = {n: (d, init) for n, d, init, st in k.decls}
        D = k.p_details
        def dtext(name):
            d = decl.get(name)
            return norm(c_text(d[1])) if d and d[1] is not None else None
        if loops:
            nv = meta.get("nvalues")
            pv = dtext("pd_value")
            ok = pv == norm("%s+%s" % (k.p_values, nv)) if nv is not None else pv is not None
            _inst(out, "R-C01-restart", ok, KI, fn, "pd_value = %s" % pv, decl["pd_value"][0].get("_line", 0) if "pd_value" in decl else line,
                  "dispersity values start after the %s scalar slots (NUM_VALUES)" % nv)
            _inst(out, "R-C01-restart", dtext("pd_weight") == norm("pd_value+%s->num_weights" % D), KI, fn,
                  "pd_weight = %s" % dtext("pd_weight"), line, "weights follow the values block")
        # the local parameter table starts as a copy of the NUM_PARS central values (values[2 ..])
        npars = meta.get("npars")
        copied = None
        for n in kids(k.body):
            if n.get("kind") == "ForStmt":
                parts = n.get("inner", [])
                cond = norm(c_text(parts[2])) if len(parts) > 2 and parts[2] else ""
                stores = [x for x in cfront.walk(parts[-1]) if x.get("kind") == "BinaryOperator" and x.get("opcode") == "="]
                for x in stores:
                    lhs, rhs = norm(c_text(kids(x)[0])), norm(c_text(kids(x)[1]))
                    m1 = re.match(r"^(\w+)\.vector\[(\w+)\]$", lhs)
                    if m1:
                        var = m1.group(2)
                        copied = (cond, rhs, var, n)
        if copied is None:
            _inst(out, "R-C01-restart", False, KI, fn, "local parameter table filled from the value vector", line,
                  "no loop copying values[2+i] into the local table: the kernel evaluates the model on uninitialised parameters")
        else:
            cond, rhs, var, n = copied
            okc = rhs in ("%s[2+%s]" % (k.p_values, var), "%s[%s+2]" % (k.p_values, var)) and cond == "%s<%s" % (var, npars)
            _inst(out, "R-C01-restart", okc, KI, fn, "for (%s) local[%s] = %s" % (cond, var, rhs), n.get("_line", 0),
                  "all %s parameters start from their central values, after the scale and background slots" % npars)
            # ... and nothing is written into the local table before that copy (it would be overwritten by it)
            lvname = None
            for x in cfront.walk(n):
                if x.get("kind") == "BinaryOperator" and x.get("opcode") == "=":
                    m1 = re.match(r"^(\w+)\.vector\[", norm(c_text(kids(x)[0])))
                    if m1:
                        lvname = m1.group(1)
            early = []
            for st in kids(k.body):
                if st is n:
                    break
                for x in cfront.walk(st):
                    if x.get("kind") in ("BinaryOperator", "CompoundAssignOperator") and (x.get("opcode") == "=" or x.get("kind") == "CompoundAssignOperator"):
                        lhs = norm(c_text(kids(x)[0]))
                        if lvname and lhs.startswith(lvname + "."):
                            early.append(x)
            _inst(out, "R-C01-restart", not early, KI, fn, "local table filled before any other write to it", n.get("_line", 0),
                  "the copy of the central values comes first" if not early else
                  "`%s` is written before the table is filled from the value vector and is then overwritten by the copy: the jitter "
                  "slots no longer start at zero" % c_text(early[0])[:60])
        _inst(out, "R-C01-restart", dtext("step") == k.p_start, KI, fn, "int step = %s" % dtext("step"), line,
              "mesh position starts at pd_start")
        incs = [n for n in cfront.walk(k.body) if n.get("kind") == "UnaryOperator" and n.get("opcode") == "++"
                and norm(c_text(n)).strip("+") == "step"]
        inner = k.innermost()
        top_inc = [n for n in kids(inner) if n.get("kind") == "UnaryOperator" and norm(c_text(n)).strip("+") == "step"]
        _inst(out, "R-C01-restart", len(incs) == 1 and len(top_inc) == 1, KI, fn, "++step once per mesh point", line,
              "%d increments, %d unconditional in the innermost body" % (len(incs), len(top_inc)))
        nlev = len(loops)
        for depth, (w, parent) in enumerate(loops):
            lev = nlev - 1 - depth
            i, n_, p, v, wv = "i%d" % lev, "n%d" % lev, "p%d" % lev, "v%d" % lev, "w%d" % lev
            checks = [
                (dtext(n_) == norm("%s->pd_length[%d]" % (D, lev)), "%s = details->pd_length[%d]" % (n_, lev)),
                (dtext(p) == norm("%s->pd_par[%d]" % (D, lev)), "%s = details->pd_par[%d]" % (p, lev)),
                (dtext(v) == norm("pd_value+%s->pd_offset[%d]" % (D, lev)), "%s = pd_value + pd_offset[%d]" % (v, lev)),
                (dtext(wv) == norm("pd_weight+%s->pd_offset[%d]" % (D, lev)), "%s = pd_weight + pd_offset[%d]" % (wv, lev)),
                (dtext(i) == norm("(%s/%s->pd_stride[%d])%%%s" % (k.p_start, D, lev, n_)),
                 "%s = (pd_start/pd_stride[%d]) %% %s" % (i, lev, n_)),
            ]
            cond = norm(c_text(kids(w)[0]))
            checks.append((cond == "%s<%s" % (i, n_), "while (%s < %s)" % (i, n_)))
            body = kids(kids(w)[1])
            first = norm(c_text(body[0])) if body else ""
            checks.append((first == "local_values.vector[%s]=%s[%s]" % (p, v, i), "local_values.vector[%s] = %s[%s]" % (p, v, i)))
            wd = [x for x in var_decls(kids(w)[1]) if x[0] == "weight%d" % lev]
            wtxt = norm(c_text(wd[0][2])) if wd and wd[0][2] is not None else ""
            checks.append((wtxt == "%s[%s]*weight%d" % (wv, i, lev + 1), "weight%d = %s[%s] * weight%d" % (lev, wv, i, lev + 1)))
            tail = [norm(c_text(x)) if x["kind"] != "IfStmt" else
                    "if(%s)%s" % (norm(c_text(if_parts(x)[0])), if_parts(x)[1]["kind"]) for x in body[-2:]]
            checks.append((tail == ["if(step>=%s)BreakStmt" % k.p_stop, "++%s" % i], "if (step >= pd_stop) break; ++%s" % i))
            sib = kids(parent)
            pos = [j for j, x in enumerate(sib) if x is w][0]
            after = norm(c_text(sib[pos + 1])) if pos + 1 < len(sib) else ""
            checks.append((after == "%s=0" % i, "%s = 0 after the loop" % i))
            for ok, what in checks:
                _inst(out, "R-C01-restart", ok, KI, fn, what, w.get("_line", 0),
                      "loop level %d restart protocol" % lev if ok else "level %d: expected `%s`" % (lev, what))
        if loops:
            top = "weight%d" % nlev
            _inst(out, "R-C01-restart", dtext(top) in ("1", "1.0"), KI, fn, "%s = %s" % (top, dtext(top)), line, "outermost weight is 1")
    # ---- the three kernels of a unit test the same validity condition ------------------------------------
    if valid_texts:
        ref_v = valid_texts.get("Iq", next(iter(valid_texts.values())))[0]
        for variant, (txt, ln) in sorted(valid_texts.items()):
            _inst(out, "R-C01-gate", txt == ref_v, KI, "%s:%s" % (unit.name, variant), "VALID condition: %s" % txt[:70], ln,
                  "same validity test in the 1-D, 2-D and magnetic kernels" if txt == ref_v else
                  "the 1-D kernel tests `%s` but this kernel tests `%s`: points the model declares invalid take part here" % (ref_v[:60], txt[:60]))
    # ---- struct (once per unit) --------------------------------------
    fields = None
    for rec in unit.records.values():
        if rec.get("kind") == "RecordDecl":
            names = [f["name"] for f in kids(rec) if f.get("kind") == "FieldDecl"]
            if "num_eval" in names and "theta_par" in names:
                fields = [(f["name"], f["type"]["qualType"]) for f in kids(rec) if f.get("kind") == "FieldDecl"]
    out.append(("__struct__", "data", fields, unit.meta.get("max_pd"), None, None, None))
    return out


# ---------------------------------------------------------------------------
def make_c_rule(rule_id):
    def run(r):
        res = _c_results()
        n = 0
        for unit, rows in sorted(res.items()):
            for row in rows:
                if row[0] == rule_id:
                    n += 1
                    _, status, f, fn, construct, line, detail = row
                    (r.ok if status == "ok" else r.violation)(f, fn, construct, line, detail)
    return run


_C = None


def _c_results():
    global _C
    if _C is None:
        _C = cfront.map_units("sa.rules.c01:analyse_unit", include_witness=False)
    return _C


def rule_struct(r):
    """Field order of C ProblemDetails = view layout of CallDetails.buffer."""
    res = _c_results()
    mod = pf.lib("details")
    init = mod.func("CallDetails.__init__")
    M = sp.Symbol("max_pd")
    views = {}
    size = None
    for st in pf.walk_stmts(init):
        if isinstance(st, ast.Assign) and isinstance(st.targets[0], ast.Attribute) and isinstance(st.value, ast.Subscript) \
                and pf.unparse(st.value.value) == "self.buffer":
            sl = st.value.slice
            lo = affine(sl.lower, {"max_pd": M})
            hi = affine(sl.upper, {"max_pd": M})
            views[st.targets[0].attr.lstrip("_")] = (lo, hi)
        if isinstance(st, ast.Assign) and pf.unparse(st.targets[0]) == "self.buffer":
            c = st.value
            size = affine(c.args[0], {"max_pd": M})
            dt = pf.const_value(c.args[1]) if len(c.args) > 1 else None
            r.check(dt in ("i4", "int32"), "sasmodels/details.py", "CallDetails.__init__", pf.unparse(st), st.lineno,
                    "int32 buffer, as the C struct's int32_t fields")
    tail = {}
    cls = mod.cls("CallDetails")
    for name in ("num_eval", "num_weights", "num_active", "theta_par"):
        getter, setter = None, None
        for item in cls.body:
            if isinstance(item, ast.FunctionDef) and item.name == name:
                for s in pf.walk_stmts(item):
                    if isinstance(s, ast.Return) and isinstance(s.value, ast.Subscript) and pf.unparse(s.value.value) == "self.buffer":
                        getter = pf.const_value(s.value.slice)
                    if isinstance(s, ast.Assign) and isinstance(s.targets[0], ast.Subscript) and pf.unparse(s.targets[0].value) == "self.buffer":
                        setter = (pf.const_value(s.targets[0].slice), pf.unparse(s.value), pf.positional_params(item)[-1])
        tail[name] = getter
        r.check(getter is not None and setter is not None and setter[0] == getter and setter[1] == setter[2], "sasmodels/details.py",
                "CallDetails.%s" % name, "getter reads buffer[%s], setter writes buffer[%s] = %s" % (getter, setter[0] if setter else "?", setter[1] if setter else "?"),
                cls.lineno, "property and setter address the same slot")
    for name in ("pd_par", "pd_length", "pd_offset", "pd_stride"):
        ok = False
        for item in cls.body:
            if isinstance(item, ast.FunctionDef) and item.name == name:
                rets = [s for s in pf.walk_stmts(item) if isinstance(s, ast.Return)]
                ok = bool(rets) and pf.unparse(rets[0].value) == "self._" + name
        r.check(ok, "sasmodels/details.py", "CallDetails.%s" % name, "returns the view self._%s" % name, cls.lineno)
    n_units = 0
    for unit, rows in sorted(res.items()):
        for row in rows:
            if row[0] != "__struct__":
                continue
            fields, max_pd = row[2], row[3]
            if fields is None:
                raise AnalysisError("%s: ProblemDetails struct not found" % unit)
            n_units += 1
            off = 0
            layout = {}
            for name, typ in fields:
                m = re.match(r"int32_t\[(\d+)\]", typ)
                n = int(m.group(1)) if m else 1
                layout[name] = (off, off + n)
                off += n
            ok = off == size.subs(M, max_pd)
            problems = []
            for name, (lo, hi) in layout.items():
                if name in views:
                    want = (views[name][0].subs(M, max_pd), views[name][1].subs(M, max_pd))
                    if (lo, hi) != want:
                        problems.append("%s at [%d,%d) but python view is [%s,%s)" % (name, lo, hi, want[0], want[1]))
                elif name in tail:
                    if lo - off != tail[name]:
                        problems.append("%s at %d from the end but python reads buffer[%s]" % (name, lo - off, tail[name]))
                else:
                    problems.append("field %s has no python counterpart" % name)
            if max_pd and set(views) - set(layout):
                problems.append("python views %s missing in C" % sorted(set(views) - set(layout)))
            r.check(ok and not problems, KI, "%s:ProblemDetails" % unit, "struct layout (max_pd=%s): %s" % (
                max_pd, " ".join("%s[%d:%d]" % (n, a, b) for n, (a, b) in layout.items())), 0,
                "; ".join(problems) if problems else "matches CallDetails.buffer views and the trailing four scalars")
    if n_units < 50:
        raise AnalysisError("struct layout examined on only %d units" % n_units)


def rule_values(r):
    """make_kernel_args concatenates scalars + dispersity + weight (+pad); nvalues formula."""
    mod = pf.lib("details")
    fn = mod.func("make_kernel_args")
    f = "sasmodels/details.py"
    hs = [s for s in pf.walk_stmts(fn) if isinstance(s, ast.Assign) and pf.unparse(s.targets[0]) == "data"
          and isinstance(s.value, ast.Call) and pf.call_name(s.value) == "np.hstack"]
    if not hs:
        raise AnalysisError("make_kernel_args: hstack not found")
    arg = pf.unparse(hs[0].value.args[0])
    r.check(arg == "(scalars,) + dispersity + weight + ZEROS[:extra]", f, "make_kernel_args", "data = np.hstack(%s)" % arg,
            hs[0].lineno, "scalars, then all dispersity values, then all weights, then padding")
    sc = [s for s in pf.walk_stmts(fn) if isinstance(s, ast.Assign) and pf.unparse(s.targets[0]) == "scalars"]
    r.check(bool(sc) and pf.is_text(sc[0].value, "[value for (value, dispersity, weight) in mesh]"), f, "make_kernel_args",
            pf.unparse(sc[0]) if sc else "scalars", sc[0].lineno if sc else 0, "one scalar per call parameter, in table order")
    dz = [s for s in pf.walk_stmts(fn) if isinstance(s, ast.Assign) and "dispersity" in pf.unparse(s.targets[0])]
    ok = bool(dz) and "zip(*mesh[NUM_COMMON_PARS:npars + NUM_COMMON_PARS])" in pf.unparse(dz[0].value)
    r.check(ok, f, "make_kernel_args", "dispersity/weight taken from mesh[2:npars+2]", dz[0].lineno if dz else 0,
            "scale and background carry no distribution; magnetic slots neither")
    ln = [s for s in pf.walk_stmts(fn) if isinstance(s, ast.Assign) and pf.unparse(s.targets[0]) == "length"]
    of = [s for s in pf.walk_stmts(fn) if isinstance(s, ast.Assign) and pf.unparse(s.targets[0]) == "offset"]
    r.check(bool(ln) and pf.unparse(ln[0].value) == "np.array([len(w) for w in weight])", f, "make_kernel_args",
            pf.unparse(ln[0]) if ln else "length", ln[0].lineno if ln else 0)
    r.check(bool(of) and pf.unparse(of[0].value) == "np.cumsum(np.hstack((0, length)))", f, "make_kernel_args",
            pf.unparse(of[0]) if of else "offset", of[0].lineno if of else 0, "offsets = exclusive prefix sums of the lengths")
    md = [c for c in pf.calls_in(fn) if pf.call_name(c) == "make_details"]
    r.check(bool(md) and [pf.unparse(a) for a in md[0].args] == ["kernel.info", "length", "offset[:-1]", "offset[-1]"], f,
            "make_kernel_args", pf.unparse(md[0]) if md else "make_details", md[0].lineno if md else 0,
            "num_weights = total length; one offset per parameter")
    # nvalues = 2 + npars (+ 4 + 3*nmagnetic)
    mi = pf.lib("modelinfo")
    cls = mi.cls("ParameterTable")
    txt = pf.unparse(cls)
    r.check("self.nvalues = NUM_COMMON_PARS + self.npars" in txt and
            "self.nvalues += NUM_MAGFIELD_PARS + NUM_MAGNETIC_PARS * self.nmagnetic" in txt, "sasmodels/modelinfo.py",
            "ParameterTable.__init__", "nvalues = 2 + npars (+ 4 + 3*nmagnetic)", cls.lineno,
            "the scalar block the kernel skips (NUM_VALUES) is the length of the call-parameter list")
    g = pf.lib("generate")
    ms = g.func("make_source")
    r.check("'#define NUM_VALUES %d' % call_table.nvalues" in pf.unparse(ms), "sasmodels/generate.py", "make_source",
            "#define NUM_VALUES call_table.nvalues", ms.lineno)
    # generated NUM_VALUES equals len(call_parameters) for every unit (from the generator index)
    idx = cfront.generate_units()
    bad = [n for n, m in idx["models"].items() if m.get("kind") == "c" and m["nvalues"] != len(m["call_parameters"])]
    r.check(not bad, "sasmodels/modelinfo.py", "ParameterTable", "nvalues == len(call_parameters) for all compiled models", 0,
            "mismatch in %s" % bad[:5] if bad else "%d models" % sum(1 for m in idx["models"].values() if m.get("kind") == "c"))


def rule_stride(r):
    """make_details: one selection S (by decreasing length, at most max_pd) drives par, length, offset; strides are the
    exclusive cumulative product of the selected lengths; num_eval the total.  Read after inlining temporaries."""
    mod = pf.lib("details")
    fn = mod.func("make_details")
    f = "sasmodels/details.py"
    P = pf.positional_params(fn)
    length, offset = P[1], P[2]
    stores = {}
    for x in pf.walk_stmts(fn):
        if isinstance(x, ast.Assign) and pf.unparse(x.targets[0]).startswith("call_details."):
            stores[pf.unparse(x.targets[0])] = (pf.inlined_text(fn, x.value), x)
    mp = pf.inlined_text(fn, ast.Name("max_pd", ast.Load()))
    sel = "np.argsort(%s)[::-1][:%s]" % (length, mp)
    stride = "np.cumprod(np.hstack((1, %s[%s])))" % (length, sel)
    want = {"call_details.pd_par[:max_pd]": (sel, "loop slots by decreasing length"),
            "call_details.pd_length[:max_pd]": ("%s[%s]" % (length, sel), "lengths of the selected parameters"),
            "call_details.pd_offset[:max_pd]": ("%s[%s]" % (offset, sel), "offsets of the selected parameters"),
            "call_details.pd_stride[:max_pd]": (stride + "[:-1]", "exclusive cumulative product of the selected lengths"),
            "call_details.num_eval": (stride + "[-1]", "mesh size = product of the selected lengths"),
            "call_details.num_weights": (P[3], "total weight count"),
            "call_details.num_active": ("np.sum(%s > 1)" % length, "number of real loops")}
    for kx, (w, why) in want.items():
        got = stores.get(kx)
        r.check(got is not None and got[0] == pf.canon(w), f, "make_details", "%s = %s" % (kx, got[0] if got else "?"),
                got[1].lineno if got else fn.lineno, why + ("" if got and got[0] == pf.canon(w) else " (expected %s)" % w))
    for kx in ("call_details.length", "call_details.offset"):
        got = stores.get(kx)
        r.check(got is not None and got[0] in (length, offset), f, "make_details", "%s kept for composite models" % kx, got[1].lineno if got else 0)


def rule_maxpd(r):
    mod = pf.lib("details")
    fn = mod.func("make_details")
    f = "sasmodels/details.py"
    cfg = pf.cfg(fn)
    trunc = [s for s in cfg.stmts() if any(isinstance(n, ast.Subscript) and isinstance(n.slice, ast.Slice) and n.slice.upper is not None
                                           and pf.unparse(n.slice.upper) == "max_pd" and isinstance(n.ctx, ast.Load)
                                           for n in pf.own_exprs(s))]
    if not trunc:
        raise AnalysisError("make_details: truncation to max_pd not found")
    guards = [s for s in cfg.stmts() if isinstance(s, ast.If) and pf.ends_in_raise(s.body) and "max_pd" in pf.unparse(s.test)]
    for t in trunc:
        ok = any(cfg.dominates(g, t) for g in guards)
        r.check(ok, f, "make_details", pf.unparse(t)[:80], t.lineno,
                "selection of at most max_pd loops is preceded on every path by `if <active count> > max_pd: raise`"
                if ok else "the list of dispersed parameters is cut to max_pd without refusing the excess: "
                "distributions beyond the limit are silently dropped")
    for g in guards:
        t = pf.unparse(g.test)
        r.check(t in ("num_active > max_pd", "not num_active <= max_pd", "max_pd < num_active"), f, "make_details", "if %s: raise" % t,
                g.lineno, "refusal compares the active count with the model's max_pd")


def _strip_int(e):
    while isinstance(e, ast.Call) and pf.call_name(e) in ("int", "np.int32", "np.uint32", "np.int64") and len(e.args) == 1:
        e = e.args[0]
    return e


def _chunk_shape(fn, mod, r, f, qual):
    """Find the chunk loop of a driver (inline, or in a generator helper the loop iterates over) and reduce it to
    (N text, step text, start expr, stop expr, iteration form, where) - see rule_chunk."""
    loops = [s for s in pf.walk_stmts(fn) if isinstance(s, ast.For)]
    for lp in loops:
        it = lp.iter
        if isinstance(it, ast.Call) and pf.call_name(it) == "range":
            return lp, fn, {}, f, qual
        if isinstance(it, ast.Call) and isinstance(it.func, ast.Attribute):
            # a generator helper: <obj>.<name>(args) defined in details.CallDetails or in this module
            name = it.func.attr
            for m2, rel in ((pf.lib("details"), "sasmodels/details.py"), (mod, f)):
                cands = [q for q in m2.functions if q.split(".")[-1] == name]
                for q in cands:
                    g = m2.functions[q]
                    if not any(isinstance(n, ast.Yield) for n in ast.walk(g)):
                        continue
                    inner = [s for s in pf.walk_stmts(g) if isinstance(s, ast.For) and isinstance(s.iter, ast.Call) and pf.call_name(s.iter) == "range"]
                    if len(inner) != 1:
                        continue
                    ps = [p for p in pf.positional_params(g) if p != "self"]
                    bind = {p: pf.unparse(a) for p, a in zip(ps, it.args)}
                    bind["self"] = pf.unparse(it.func.value)
                    return inner[0], g, bind, rel, q
    return None, None, None, None, None


def _chunk_sym(node, names):
    """Integer expression of the chunk loop -> sympy.  names: source text -> symbol for the mesh size / step / loop variable."""
    t = pf.unparse(node)
    if t in names:
        return names[t]
    if isinstance(node, ast.Constant) and isinstance(node.value, int):
        return sp.Integer(node.value)
    if isinstance(node, ast.Name):
        singles = names.get("__singles__", {})
        if node.id in singles and names.get("__depth__", 0) < 6:
            sub = dict(names, __depth__=names.get("__depth__", 0) + 1)
            return _chunk_sym(singles[node.id], sub)
        raise AnalysisError("chunk loop: free name %s" % node.id)
    if isinstance(node, ast.UnaryOp) and isinstance(node.op, ast.USub):
        return -_chunk_sym(node.operand, names)
    if isinstance(node, ast.BinOp):
        a, b = _chunk_sym(node.left, names), _chunk_sym(node.right, names)
        if isinstance(node.op, ast.Add): return a + b
        if isinstance(node.op, ast.Sub): return a - b
        if isinstance(node.op, ast.Mult): return a * b
        if isinstance(node.op, ast.FloorDiv): return sp.floor(a / b)
        if isinstance(node.op, ast.Div): return a / b
    if isinstance(node, ast.Call):
        nm = (pf.call_name(node) or "").split(".")[-1]
        args = [_chunk_sym(x, names) for x in node.args]
        if nm == "min" and len(args) == 2: return sp.Min(*args)
        if nm in ("int", "int32", "uint32", "int64") and len(args) == 1: return args[0] if args[0].is_integer else sp.floor(args[0])
        if nm == "ceil" and len(args) == 1: return sp.ceiling(args[0])
    raise AnalysisError("chunk loop: expression %s outside the fragment" % t)


def rule_chunk(r):
    """The chunk loop of each driver tiles [0, num_eval) with non-empty chunks.  Accepted shapes (inline, or in a generator
    helper the driver iterates over, with the helper's parameters bound to the call's arguments), decided on sympy forms:
      A  for v in range(0, N, step):       start = v,      stop = min(v + step, N)
      B  for k in range(COUNT):            start = k*step, stop = min((k + 1)*step, N)   with COUNT == ceil(N/step)
    where N is call_details.num_eval.  An empty trailing chunk (start == stop == N) is not harmless: the kernel's loop
    indices wrap to the first mesh point and its body runs once before pd_stop is tested."""
    Nsym = sp.Symbol("N", integer=True, nonnegative=True)
    Ssym = sp.Symbol("step", integer=True, positive=True)
    for modname, qual in (("kerneldll", "DllKernel._call_kernel"), ("kernelcl", "GpuKernel._call_kernel"),
                          ("kernelcuda", "GpuKernel._call_kernel")):
        mod = pf.lib(modname)
        f = "sasmodels/%s.py" % modname
        fn = mod.func(qual)
        lp, host, bind, hf, hq = _chunk_shape(fn, mod, r, f, qual)
        if lp is None:
            raise AnalysisError("%s.%s: chunk loop not found" % (modname, qual))
        caller_loop = [s for s in pf.walk_stmts(fn) if isinstance(s, ast.For)][0]
        V = pf.unparse(lp.target)
        Vsym = sp.Symbol("v", integer=True, nonnegative=True)
        names = {V: Vsym, "__singles__": {k_: v_ for k_, v_ in pf.single_assignments(host).items() if k_ != "step"}}
        # the mesh size: <obj>.num_eval, possibly through int() and a local alias in the helper
        for owner in ("call_details", "self"):
            names["%s.num_eval" % owner] = Nsym
            names["int(%s.num_eval)" % owner] = Nsym
        for st_ in pf.walk_stmts(host):
            if isinstance(st_, ast.Assign) and len(st_.targets) == 1 and isinstance(st_.targets[0], ast.Name) \
                    and pf.unparse(_strip_int(st_.value)).endswith(".num_eval"):
                names[st_.targets[0].id] = Nsym
        # the step: the driver's local `step` (any positive value, checked below) or the helper parameter bound to it
        if host is fn:
            names["step"] = Ssym
        else:
            for p_, a_ in bind.items():
                if a_ == "step":
                    names[p_] = Ssym
        a = lp.iter.args
        body_vals = {}
        if host is fn:
            # the names handed to the kernel as (pd_start, pd_stop), and their values from the loop body's own assignments
            put0 = [s for s in lp.body if isinstance(s, ast.Assign) and isinstance(s.targets[0], ast.Subscript)
                    and pf.unparse(s.targets[0].slice) == "1:3" and isinstance(s.value, ast.List) and len(s.value.elts) == 2]
            if not put0:
                raise AnalysisError("%s: kernel_args[1:3] = [start, stop] not found in the chunk loop" % modname)
            S_e, T_e = (_strip_int(e) for e in put0[0].value.elts)
            S_name, T_name = pf.unparse(S_e), pf.unparse(T_e)
            for s_ in lp.body:
                if s_ is put0[0]:
                    break
                if isinstance(s_, ast.Assign) and len(s_.targets) == 1 and isinstance(s_.targets[0], ast.Name):
                    body_vals[s_.targets[0].id] = s_.value
            start_e = lp.target if S_name == V else body_vals.get(S_name)
            stop_e = body_vals.get(T_name)
            if start_e is None:
                raise AnalysisError("%s: chunk start %s is not the loop variable nor assigned in the loop" % (modname, S_name))
        else:
            ys = [n for n in ast.walk(lp) if isinstance(n, ast.Yield)]
            if len(ys) != 1 or not isinstance(ys[0].value, ast.Tuple) or len(ys[0].value.elts) != 2:
                raise AnalysisError("%s: chunk helper %s does not yield (start, stop) pairs" % (modname, hq))
            start_e, stop_e = ys[0].value.elts
            tg = caller_loop.target
            if not (isinstance(tg, ast.Tuple) and len(tg.elts) == 2):
                raise AnalysisError("%s: chunk helper result not unpacked as (start, stop)" % modname)
            S_name, T_name = pf.unparse(tg.elts[0]), pf.unparse(tg.elts[1])
        if stop_e is None:
            raise AnalysisError("%s: chunk stop not found" % modname)
        # body-local temporaries (start = k*step) are resolved in order
        for nm_, val_ in body_vals.items():
            if nm_ not in names:
                try:
                    names[nm_] = _chunk_sym(val_, names)
                except AnalysisError:
                    pass
        start_v, stop_v = _chunk_sym(start_e, names), _chunk_sym(stop_e, names)
        same_ = lambda x, y: sp.simplify(x - y) == 0

        def min_same(x, y):
            if isinstance(x, sp.Min) and isinstance(y, sp.Min) and len(x.args) == len(y.args):
                return {sp.expand(a_) for a_ in x.args} == {sp.expand(a_) for a_ in y.args}
            return same_(x, y)
        if len(a) == 3:
            okr = same_(_chunk_sym(a[0], names), 0) and same_(_chunk_sym(a[1], names), Nsym) and same_(_chunk_sym(a[2], names), Ssym)
            r.check(okr, hf, hq, "for %s in range(%s)" % (V, ", ".join(pf.unparse(x) for x in a)), lp.lineno,
                    "chunks start at 0 and advance by step up to num_eval")
            okt = same_(start_v, Vsym) and min_same(stop_v, sp.Min(Vsym + Ssym, Nsym))
            r.check(okt, hf, hq, "start = %s, stop = %s" % (pf.unparse(start_e), pf.unparse(stop_e)), lp.lineno,
                    "each chunk ends where the next begins; the last at num_eval")
        elif len(a) == 1:
            okt = same_(start_v, Vsym * Ssym) and min_same(stop_v, sp.Min((Vsym + 1) * Ssym, Nsym))
            r.check(okt, hf, hq, "start = %s, stop = %s" % (pf.unparse(start_e), pf.unparse(stop_e)), lp.lineno,
                    "k-th chunk is [k*step, min((k+1)*step, num_eval))")
            cnt = _chunk_sym(a[0], names)
            good = [sp.ceiling(Nsym / Ssym), sp.floor((Nsym + Ssym - 1) / Ssym), sp.floor((Nsym - 1) / Ssym) + 1, -sp.floor(-Nsym / Ssym)]
            okc = any(cnt == g or same_(cnt, g) for g in good)
            bad = same_(cnt, sp.floor(Nsym / Ssym) + 1)
            if not okc and not bad:
                raise AnalysisError("%s: chunk count %s is not a recognised form" % (modname, pf.unparse(a[0])))
            r.check(okc, hf, hq, "for %s in range(%s)" % (V, pf.unparse(a[0])), lp.lineno,
                    "chunk count is ceil(num_eval/step)" if okc else
                    "the chunk count is floor(num_eval/step) + 1, not ceil(num_eval/step): a mesh whose size is a multiple of the step "
                    "(e.g. 10 x 10 points with step 100) gets an extra, empty chunk (num_eval, num_eval), on which the kernel wraps to "
                    "the first mesh point and adds it again")
        else:
            raise AnalysisError("%s: chunk loop range(%s) not understood" % (modname, ", ".join(pf.unparse(x) for x in a)))
        # positive step
        okp = False
        stp = [s for s in pf.walk_stmts(fn) if isinstance(s, ast.Assign) and pf.unparse(s.targets[0]) == "step" and s.lineno < caller_loop.lineno]
        if stp:
            v = stp[-1].value
            c = pf.const_value(v)
            if c is not None:
                okp = c >= 1
            else:
                # N // nq + 1 is >= 1
                okp = isinstance(v, ast.BinOp) and isinstance(v.op, ast.Add) and pf.const_value(v.right) == 1 \
                    and isinstance(v.left, ast.BinOp) and isinstance(v.left.op, ast.FloorDiv)
        r.check(okp, f, qual, pf.unparse(stp[-1]) if stp else "step", stp[-1].lineno if stp else 0, "positive step")
        put = [s for s in caller_loop.body if isinstance(s, ast.Assign) and isinstance(s.targets[0], ast.Subscript)
               and pf.unparse(s.targets[0].slice) == "1:3"]
        r.check(bool(put) and isinstance(put[0].value, ast.List) and [pf.unparse(_strip_int(e_)) for e_ in put[0].value.elts] == [S_name, T_name], f, qual,
                pf.unparse(put[0]) if put else "args[1:3] = [start, stop]", put[0].lineno if put else 0,
                "pd_start, pd_stop are argument slots 1 and 2 of the kernel")


def rule_norm(r):
    """Kernel.Fq / Kernel.Iq read by role: return tuple in terms of result slots and zero guards (names of locals are free)."""
    from ..pyroles import kernel_fq
    f = "sasmodels/kernel.py"
    k = kernel_fq()
    fq, ret, guards = k["fn"], k["ret"], k["guards"]
    R = lambda i: nf.sym("R%d" % i)
    if len(ret) != 5:
        raise AnalysisError("Kernel.Fq returns %d values" % len(ret))
    # guard on the total weight: some guard symbol stands for slot 0
    gw = [g for g, pre, st in guards if pre is not None and nf.equal(pre, R(0))]
    r.check(bool(gw), f, "Kernel.Fq", "if <total weight> == 0: <total weight> = 1", guards[0][2].lineno if guards else fq.lineno,
            "an empty mesh gives 0/1 = 0, hence the background" if gw else "no zero guard on result[nout*nq + 0]")
    W = gw[0] if gw else R(0)
    gs = [g for g, pre, st in guards if pre is not None and nf.equal(pre, R(2) / W)]
    r.check(bool(gs), f, "Kernel.Fq", "if <shell volume> == 0: <shell volume> = 1", fq.lineno,
            "no division by a zero volume" if gs else "no zero guard on result[nout*nq + 2]/total_weight")
    V = gs[0] if gs else R(2) / W
    want = [("<F> = result[1::nout]/W", nf.sym("RF1") / W), ("<F^2> = result[0::nout]/W", nf.sym("RF2") / W),
            ("R_eff = result[nq_out+3]/W", R(3) / W), ("V_shell = result[nq_out+2]/W (guarded)", V),
            ("V_form/V_shell = (result[nq_out+1]/W)/V_shell", R(1) / W / V)]
    for i, (what, w) in enumerate(want):
        r.check(nf.equal(ret[i], w), f, "Kernel.Fq", "return[%d]: %s" % (i, what), k["return"].lineno,
                "found %s" % ret[i])
    r.check(k["nout"] == "2 if self.info.have_Fq and self.dim == '1d' else 1", f, "Kernel.Fq", "nout = %s" % k["nout"], fq.lineno,
            "interleaved F^2,F only for 1-D Fq kernels")
    # every division by the guarded quantities happens after the guard (CFG)
    cfg = pf.cfg(fq)
    for g, pre, st in guards:
        name = pf.unparse(st.test.left)
        divs = [s for s in cfg.stmts() if isinstance(s, (ast.Assign, ast.Return)) and s.value is not None and any(
            isinstance(n, ast.BinOp) and isinstance(n.op, ast.Div) and pf.unparse(n.right) == name for n in ast.walk(s.value))]
        for d in divs:
            r.check(cfg.dominates(st, d), f, "Kernel.Fq", "division by %s in `%s` follows its zero guard" % (name, pf.unparse(d)[:50]), d.lineno)
    # Iq: scale * F2 / shell_volume + background, F2 and shell_volume being the 2nd and 4th value of Fq
    mod = pf.lib("kernel")
    iq = mod.func("Kernel.Iq")
    call = [s for s in iq.body if isinstance(s, ast.Assign) and isinstance(s.value, ast.Call) and pf.call_name(s.value) == "self.Fq"]
    if not call or not isinstance(call[0].targets[0], ast.Tuple) or len(call[0].targets[0].elts) != 5:
        raise AnalysisError("Kernel.Iq: unpacking of self.Fq(...) not found")
    names = [pf.unparse(e) for e in call[0].targets[0].elts]
    env = {names[1]: nf.sym("F2"), names[3]: nf.sym("V_shell"), "values[0]": nf.sym("scale"), "values[1]": nf.sym("background")}
    env = nf.straightline_env([s for s in iq.body if isinstance(s, ast.Assign) and not isinstance(s.value, ast.Call)], env)
    rt = [s for s in iq.body if isinstance(s, ast.Return)][0]
    e = nf.py_expr(rt.value, env)
    wantI = nf.sym("scale") * nf.sym("F2") / nf.sym("V_shell") + nf.sym("background")
    r.check(nf.equal(e, wantI), f, "Kernel.Iq", "return %s" % pf.unparse(rt.value), rt.lineno,
            "I = scale * <F^2> / <V_shell> + background with the 2nd and 4th value of Fq (found %s)" % e)
    r.check(any(kw.arg == "radius_effective_mode" and pf.const_value(kw.value) == 0 for kw in call[0].value.keywords) or
            (len(call[0].value.args) > 4 and pf.const_value(call[0].value.args[4]) == 0),
            f, "Kernel.Iq", "Fq(..., radius_effective_mode=0)", iq.lineno)


def rule_single_point(r):
    """A distribution whose points can differ from the scalar value must get a loop slot or feed the scalar."""
    mod = pf.lib("details")
    f = "sasmodels/details.py"
    md = mod.func("make_details")
    mk = mod.func("make_kernel_args")
    dm = pf.lib("direct_model").func("_pop_par_weights")
    def mentions_special_length(fn):
        for n in ast.walk(fn):
            if isinstance(n, ast.Compare) and len(n.ops) == 1:
                txt = pf.unparse(n)
                if re.search(r"(length|len\(\w+(\[\d\])?\))\s*(==|!=|<|<=)\s*[01]\b", txt):
                    return txt
        return None
    key_only_length = "np.argsort(length)" in pf.unparse(md) and "np.sum(length > 1)" in pf.unparse(md)
    scal_nominal = pf.contains_text(mk, "[value for (value, dispersity, weight) in mesh]")
    mech = mentions_special_length(md) or mentions_special_length(mk) or mentions_special_length(dm)
    cond = key_only_length and scal_nominal and not mech
    r.check(not cond, f, "make_details", "loop slots chosen by length alone; a one-point distribution is not counted active", md.lineno,
            "a distribution cut by the limits to a single point (length 1) is neither counted active nor guaranteed one of the "
            "max_pd slots, and the scalar slot holds the nominal value: such a parameter is evaluated at the nominal value, "
            "not at the surviving point" if cond else "mechanism: %s" % mech)
    r.check(not cond, f, "make_details", "loop slots chosen by length alone; an empty distribution sorts last", md.lineno,
            "a distribution cut to zero points (length 0) sorts last, gets no slot when the model has more parameters than "
            "max_pd, and the kernel evaluates the nominal value instead of returning the background" if cond else "mechanism: %s" % mech)


from . import gpu as _gpu
RULES = [
    ("R-C01-carry", 61 * 3 * 4, "accumulator carry/reset pairing in every kernel", make_c_rule("R-C01-carry")),
    ("R-C01-gate", 61 * 3 * 4, "VALID and strict cutoff gate every accumulation", make_c_rule("R-C01-gate")),
    ("R-C01-restart", 61 * 3 * 3, "loop restart protocol per level", make_c_rule("R-C01-restart")),
    ("R-C01-loops", 300, "counted loops of every kernel run 0 <= i < bound, step 1", make_c_rule("R-C01-loops")),
    ("R-C01-drivers", 53, "the dll, OpenCL and CUDA drivers agree on kernel arguments, result size, read-back, kernel selection and q layout", _gpu.rule_drivers),
    ("R-C01-gpu", 2000, "OpenCL configuration of every unit: work-item bound, carried q-point sums, gated accumulation", _gpu.make_gpu_rule()),
    ("R-C01-struct", 60, "ProblemDetails layout = CallDetails.buffer views", rule_struct),
    ("R-C01-values", 9, "value vector layout and NUM_VALUES", rule_values),
    ("R-C01-stride", 9, "stride/selection construction", rule_stride),
    ("R-C01-maxpd", 2, "max_pd refusal dominates truncation", rule_maxpd),
    ("R-C01-chunk", 12, "chunks tile [0, num_eval) in three drivers", rule_chunk),
    ("R-C01-norm", 12, "normalisation formula and zero guards", rule_norm),
    ("R-C01-single-point", 2, "truncated distributions keep their points", rule_single_point),
]


from . import shared
RULES = RULES + shared.bundle('C01', ['cos', 'density', 'limits', 'centre', 'unit-sum', 'relative'], ['details', 'kernel', 'kerneldll', 'direct_model', 'weights'])
from . import folds as _folds
RULES = RULES + [_folds.fold_rule('C01')]
from .. import refs as _refs
RULES = RULES + [_refs.ref_rule('C01')]


def run(tier="quick", replay=None):
    return run_check(
        "C01", RULES, tier=tier, replay=replay,
        explanation="clang JSON AST of all generated translation units (the text the DLL build compiles), three kernel "
                    "instantiations each: accumulators identified by their initialiser `pd_start == 0 ? 0 : result[E]`, "
                    "paired with exit stores; control-dependence of every accumulation on VALID and weight > cutoff; per-"
                    "level restart protocol. Python side: affine layout of CallDetails.buffer vs the C struct of every unit, "
                    "value-vector concatenation, stride construction, dominance of the max_pd refusal, chunk tiling in the "
                    "dll/opencl/cuda drivers, normal form of Kernel.Fq/Iq. The numeric identity is not decided.",
        assumptions=["clang's macro expansion equals the compiler's", "numpy slicing/cumprod semantics"],
        extra_coverage={"translation_units": len(_c_results()) if _C is not None else 0})
