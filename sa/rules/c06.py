"""C06 - polarised magnetic scattering is the weighted sum of the four spin channels.

Decided: spin-channel weights (two guard cases) as normal forms; effective SLD
per channel from the Halpern-Johnson vector with an orthonormal polarisation
frame; channel loop structure, weights/switch agreement, every SLD slot
overwritten from the nominal before the model call; value-vector slot
arithmetic vs the append order of the call-parameter table; polar->rectangular
conversion and the magnetic flag selecting the Imagnetic kernel.
Not decided: equality with recombined non-magnetic evaluations.
"""
import ast, re
import sympy as sp
from ..report import run_check, AnalysisError
from .. import pyfacts as pf
from .. import nf, cfront
from ..ckernel import Kernel, norm, kids, var_decls, if_parts
from ..nf import c_text, c_callee, CInterp, sym, c_strip

KI = "sasmodels/kernel_iq.c"


def analyse_unit(unit, extra):
    out = []
    def inst(rule, ok, fn, construct, line, detail=""):
        out.append((rule, "ok" if ok else "violation", KI, fn, construct, line, detail))
    meta = unit.meta
    nmag = meta.get("nmagnetic", 0)
    if not nmag:
        # non-magnetic model: the Imagnetic kernel must not touch any SLD (it is the plain kernel)
        return out
    if "set_spin_weights" not in unit.functions or "mag_sld" not in unit.functions:
        inst("R-C06-loop", False, "%s:Imagnetic" % unit.name, "magnetic helpers present", 0, "set_spin_weights/mag_sld missing")
        return out
    digest = cfront.fn_digest(unit.fn("set_spin_weights")) + cfront.fn_digest(unit.fn("mag_sld")) + \
        "".join(cfront.fn_digest(unit.fn(h)) for h in ("clip", "SET_VEC", "ORTH_VEC", "SCALAR_VEC") if h in unit.functions)
    out.append(("__digest__", "data", digest, None, None, None, None))
    symbolic = (extra or {}).get("symbolic", True)
    if symbolic:
        _symbolic(unit, inst)
    if (extra or {}).get("only_symbolic"):
        return out
    _structural(unit, inst, meta, nmag)
    return out


def _symbolic(unit, inst):
    # ---- weights -------------------------------------------------------
    f = unit.fn("set_spin_weights")
    I, Fo = sym("in_spin"), sym("out_spin")
    clipI, clipF = sp.Function('clip')(I, 0, 1), sp.Function('clip')(Fo, 0, 1)
    for case, normv in ((True, 1 - clipF), (False, clipF)):
        w = {}
        env = {"in_spin": I, "out_spin": Fo, "weight": w}
        it = CInterp(unit.functions, facts={"out_spin < 0.5": case}, opaque=("clip",))
        try:
            it.stmt(unit.body(f), env)
        except CInterp.Return:
            pass
        want = [(1 - clipI) * (1 - clipF) / normv, (1 - clipI) * clipF / normv, clipI * (1 - clipF) / normv, clipI * clipF / normv]
        want += [want[1], want[2]]
        names = ["dd (1-i)(1-f)", "du (1-i)f", "ud i(1-f)", "uu i f", "du.imag = du", "ud.imag = ud"]
        for kx in range(6):
            ok = kx in w and nf.equal(w[kx], want[kx])
            inst("R-C06-weights", ok, "%s:set_spin_weights" % unit.name,
                 "weight[%d] = %s / %s" % (kx, names[kx], "(1-f)" if case else "f"), f.get("_line", 0),
                 "case out_spin %s 0.5, up-fractions clipped to [0,1]%s" % ("<" if case else ">=", "" if ok else "; found %s" % w.get(kx)))
    # clip semantics
    cf = unit.functions.get("clip")
    if cf is not None and unit.body(cf) is not None:
        x, lo, hi = sym("x"), sym("low"), sym("high")
        for facts, want in (({"x < low": True}, lo), ({"x < low": False, "x > high": True}, hi), ({"x < low": False, "x > high": False}, x)):
            it = CInterp(unit.functions, facts=facts)
            got = it.call("clip", [x, lo, hi])
            inst("R-C06-weights", got == want, "%s:clip" % unit.name, "clip(x, low, high) case %s" % sorted(facts.items()), cf.get("_line", 0))
    # ---- effective sld ---------------------------------------------------
    f = unit.fn("mag_sld")
    pn = [p["name"] for p in unit.params(f)]
    want_pn = ["xs", "qx", "qy", "cos_mtheta", "sin_mtheta", "cos_mphi", "sin_mphi", "sld", "mx", "my", "mz"]
    inst("R-C06-sld", pn == want_pn, "%s:mag_sld" % unit.name, "parameters %s" % pn, f.get("_line", 0))
    t, p = sym("mtheta"), sym("mphi")
    qx, qy, sld, mx, my, mz = sym("qx"), sym("qy"), sym("sld"), sym("mx"), sym("my"), sym("mz")
    q2 = qx ** 2 + qy ** 2
    M = sp.Matrix([mx, my, mz])
    qh = sp.Matrix([qx, qy, 0]) / sp.sqrt(q2)
    Mperp = M - qh * (qh.dot(M))
    P = sp.Matrix([sp.sin(t) * sp.cos(p), sp.sin(t) * sp.sin(p), sp.cos(t)])
    e1 = sp.Matrix([-sp.sin(p), sp.cos(p), 0])
    e2 = sp.Matrix([-sp.cos(t) * sp.cos(p), -sp.cos(t) * sp.sin(p), sp.sin(t)])
    want = {0: sld - P.dot(Mperp), 3: sld + P.dot(Mperp), 1: e1.dot(Mperp), 2: e1.dot(Mperp),
            4: -e2.dot(Mperp), 5: e2.dot(Mperp)}
    label = {0: "dd: sld - P.Mperp", 3: "uu: sld + P.Mperp", 1: "du: e1.Mperp", 2: "ud: e1.Mperp",
             4: "du.imag: -e2.Mperp", 5: "ud.imag: +e2.Mperp"}
    for xs in range(6):
        facts = {"xs < 4": xs < 4, "xs": xs, "xs == 4": xs == 4}
        it = CInterp(unit.functions, facts=facts)
        args = [sp.Integer(xs), qx, qy, sp.cos(t), sp.sin(t), sp.cos(p), sp.sin(p), sld, mx, my, mz]
        try:
            got = it.call("mag_sld", args)
        except AnalysisError as exc:
            inst("R-C06-sld", False, "%s:mag_sld" % unit.name, "channel %d %s" % (xs, label[xs]), f.get("_line", 0), str(exc))
            continue
        # multiply through by |q|^2 to compare as polynomials
        ok = got is not None and nf.equal(sp.simplify(got * q2), sp.simplify(want[xs] * q2), trig=True)
        inst("R-C06-sld", ok, "%s:mag_sld" % unit.name, "channel %d %s" % (xs, label[xs]), f.get("_line", 0),
             "Mperp = M - qhat (qhat.M), P from polar angles, {P,e1,e2} orthonormal" if ok else "found %s" % got)
    # frame orthonormality of the reference (pure algebra, kept so that the reference cannot silently drift)
    for a, b, v in ((P, P, 1), (e1, e1, 1), (e2, e2, 1), (P, e1, 0), (P, e2, 0), (e1, e2, 0)):
        if not nf.equal(a.dot(b), v, trig=True):
            raise AnalysisError("reference frame not orthonormal")


def _structural(unit, inst, meta, nmag):
    # ---- kernel loop -----------------------------------------------------
    out = None
    try:
        k = Kernel(unit, "Imagnetic")
    except AnalysisError:
        inst("R-C06-loop", False, "%s:Imagnetic" % unit.name, "Imagnetic kernel present", 0)
        return out
    fn = "%s:Imagnetic" % unit.name
    npars = meta["npars"]
    V = k.p_values
    decl = {n: (d, init) for n, d, init, st in k.decls}
    # slds[] = MAGNETIC_PARS
    slds = decl.get("slds")
    want_idx = [i - 2 for i, pid in enumerate(meta["call_parameters"]) if meta["types"].get(pid, None) == "sld"
                or _is_vector_sld(meta, pid)]
    got_idx = None
    if slds and slds[1] is not None:
        got_idx = [int(c_strip(x)["value"]) for x in kids(slds[1]) if c_strip(x).get("kind") == "IntegerLiteral"]
    inst("R-C06-slots", got_idx == want_idx, fn, "slds[] = {%s}" % (got_idx,), slds[0].get("_line", 0) if slds else 0,
         "positions of the SLD parameters in the kernel parameter vector: %s" % want_idx)
    calls = [n for n in cfront.walk(k.body) if n.get("kind") == "CallExpr"]
    ssw = [c for c in calls if c_callee(c) == "set_spin_weights"]
    if ssw:
        a = [norm(c_text(x)) for x in kids(ssw[0])[1:]]
        inst("R-C06-slots", a == ["%s[%d+2]" % (V, npars), "%s[%d+3]" % (V, npars), "xs_weights"], fn,
             "set_spin_weights(%s)" % ", ".join(a), ssw[0].get("_line", 0), "up_frac_i, up_frac_f at NUM_PARS+2, +3")
    else:
        inst("R-C06-slots", False, fn, "set_spin_weights(values[NUM_PARS+2], values[NUM_PARS+3], xs_weights)", 0, "call missing")
    # SINCOS(values[NUM_PARS+4]) -> mtheta ; +5 -> mphi
    asg = {}
    for n in cfront.walk(k.body):
        if n.get("kind") == "DeclStmt":
            for d in kids(n):
                if d.get("name") == "_t_" and kids(d):
                    asg.setdefault("_t_", []).append(norm(c_text(kids(d)[0])))
    pi180 = "0.017453292519943295"
    inst("R-C06-slots", asg.get("_t_", [])[:2] == ["%s[%d+4]*%s" % (V, npars, pi180), "%s[%d+5]*%s" % (V, npars, pi180)], fn,
         "polarisation angles from values[NUM_PARS+4], values[NUM_PARS+5] (degrees)", k.fn.get("_line", 0), "%s" % asg.get("_t_", [])[:2])
    # order of SINCOS outputs: (sin_mtheta, cos_mtheta), (sin_mphi, cos_mphi)
    sc = [norm(c_text(n)) for n in cfront.walk(k.body) if n.get("kind") == "BinaryOperator" and n.get("opcode") == "="
          and norm(c_text(n)).split("=")[0] in ("sin_mtheta", "cos_mtheta", "sin_mphi", "cos_mphi")]
    inst("R-C06-slots", sc == ["sin_mtheta=sin(_t_)", "cos_mtheta=cos(_t_)", "sin_mphi=sin(_t_)", "cos_mphi=cos(_t_)"], fn,
         "sin/cos of the polarisation angles", k.fn.get("_line", 0), "%s" % sc)
    # channel loop
    fors = [n for n in cfront.walk(k.body) if n.get("kind") == "ForStmt"]
    xs_loop = [n for n in fors if "xs<6" in norm(c_text(n["inner"][2])) if n["inner"][2]]
    if not xs_loop:
        inst("R-C06-loop", False, fn, "for (xs = 0; xs < 6; xs++)", 0, "channel loop not found")
        return out
    xl = xs_loop[0]
    body = xl["inner"][-1]
    dl = var_decls(body)
    wdecl = [x for x in dl if x[0] == "xs_weight"]
    inst("R-C06-loop", bool(wdecl) and norm(c_text(wdecl[0][2])) == "xs_weights[xs]", fn, "xs_weight = xs_weights[xs]", xl.get("_line", 0),
         "channel xs is weighted by weight[xs]: the order of set_spin_weights' vector is the order of mag_sld's switch")
    ifs = [n for n in kids(body) if n.get("kind") == "IfStmt"]
    thr = norm(c_text(if_parts(ifs[0])[0])) if ifs else ""
    inst("R-C06-loop", thr.startswith("xs_weight>") and float(thr.split(">")[1]) <= 1e-6, fn, "if (%s)" % thr, xl.get("_line", 0),
         "negligible channels skipped")
    # inner sld loop
    sk_loop = [n for n in cfront.walk(body) if n.get("kind") == "ForStmt"]
    if not sk_loop:
        inst("R-C06-loop", False, fn, "loop over magnetic SLDs", 0)
        return out
    sl = sk_loop[0]
    cond = norm(c_text(sl["inner"][2]))
    inst("R-C06-loop", cond == "sk<%d" % nmag, fn, "for (sk = 0; %s; sk++)" % cond, sl.get("_line", 0), "every one of the %d SLDs" % nmag)
    sd = {n: norm(c_text(init)) for n, d, init, st in var_decls(sl["inner"][-1]) if init is not None}
    inst("R-C06-slots", sd.get("mag_index") == "%d+6+3*sk" % npars, fn, "mag_index = %s" % sd.get("mag_index"), sl.get("_line", 0),
         "triplet k at NUM_PARS + 6 + 3k")
    inst("R-C06-slots", sd.get("sld_index") == "slds[sk]", fn, "sld_index = slds[sk]", sl.get("_line", 0))
    inst("R-C06-slots", (sd.get("mx"), sd.get("my"), sd.get("mz")) == ("%s[mag_index]" % V, "%s[mag_index+1]" % V, "%s[mag_index+2]" % V),
         fn, "mx,my,mz = values[mag_index + 0,1,2]", sl.get("_line", 0))
    st = [n for n in cfront.walk(sl["inner"][-1]) if n.get("kind") == "BinaryOperator" and n.get("opcode") == "="
          and norm(c_text(kids(n)[0])) == "local_values.vector[sld_index]"]
    if st:
        call = c_strip(kids(st[0])[1])
        a = [norm(c_text(x)) for x in kids(call)[1:]]
        wanta = ["xs", "qx", "qy", "cos_mtheta", "sin_mtheta", "cos_mphi", "sin_mphi", "%s[sld_index+2]" % V, "mx", "my", "mz"]
        inst("R-C06-loop", c_callee(call) == "mag_sld" and a == wanta, fn, "local_values.vector[sld_index] = mag_sld(%s)" % ", ".join(a),
             st[0].get("_line", 0), "each SLD slot is overwritten from its nominal value values[sld_index+2] for the current channel")
    else:
        inst("R-C06-loop", False, fn, "local_values.vector[sld_index] = mag_sld(...)", sl.get("_line", 0), "store not found")
    # accumulate: F2 += xs_weight * model
    acc = [(l, r_, n, anc) for l, r_, n, anc in k.accumulations() if l == "F2"]
    from ..ckernel import weighted_by
    okacc = bool(acc) and weighted_by(kids(acc[0][2])[1], "xs_weight") and len(acc) == 1 and any(a is xl for a in acc[0][3]) and \
        not any(a is sl for a in acc[0][3])
    inst("R-C06-loop", okacc, fn, "F2 += xs_weight * model(...)", acc[0][2].get("_line", 0) if acc else 0,
         "one model call per channel after all SLDs are set")
    f2 = [x for x in cfront.walk(k.body) if x.get("kind") == "VarDecl" and x.get("name") == "F2"]
    inst("R-C06-loop", bool(f2) and kids(f2[0]) and norm(c_text(kids(f2[0])[0])) in ("0", "0.0"), fn, "double F2 = 0", f2[0].get("_line", 0) if f2 else 0)
    qz = [n for n in cfront.walk(k.body) if n.get("kind") == "IfStmt" and norm(c_text(if_parts(n)[0])).startswith("qsq>")]
    inst("R-C06-loop", bool(qz), fn, "if (qsq > eps) guard around the channel loop", qz[0].get("_line", 0) if qz else 0,
         "q = 0 has no direction")
    if qz:
        # the guard removes q = 0 only: qsq is |q|^2, so the threshold is the square of a q below anything measured (1e-6 1/Ang)
        m_ = re.match(r"^qsq>([0-9.eE+-]+)$", norm(c_text(if_parts(qz[0])[0])))
        try:
            eps = float(m_.group(1)) if m_ else None
        except ValueError:
            eps = None
        oke = eps is not None and 0 <= eps <= 1e-12
        inst("R-C06-loop", oke, fn, "guard threshold qsq > %s" % (m_.group(1) if m_ else "?"), qz[0].get("_line", 0),
             "|q| below %.0e only" % (eps ** 0.5 if eps else 0) if oke else
             "qsq is q squared: this threshold zeroes the magnetic kernel for every |q| < %s, a range that is measured (USANS), while the "
             "non-magnetic kernel of the same model has no such gap - a component evaluated with the mixture's magnetic flag disagrees "
             "with itself evaluated alone" % ("%.0e" % (eps ** 0.5) if eps else "?"))
    return out


def _is_vector_sld(meta, pid):
    # expanded vector parameter names (sld1, sld2, ...) carry their base id's type
    import re
    m = re.match(r"^(.*?)(\d+)$", pid)
    if m and meta["types"].get(m.group(1)) == "sld" and meta["lengths"].get(m.group(1), 1) > 1:
        return True
    return False


_C = None


def _c_results():
    """Structural rules on every unit; the symbolic comparison once per distinct helper code (by AST digest),
    its verdicts then reported for every unit that contains identical helper code."""
    global _C
    if _C is None:
        first = cfront.map_units("sa.rules.c06:analyse_unit", extra={"symbolic": False})
        by_digest = {}
        for unit, rows in first.items():
            for row in rows:
                if row[0] == "__digest__":
                    by_digest.setdefault(row[2], []).append(unit)
        reps = sorted(min(us) for us in by_digest.values())
        second = cfront.map_units("sa.rules.c06:analyse_unit", names=set(reps), extra={"symbolic": True, "only_symbolic": True})
        for digest, units in by_digest.items():
            rep = min(units)
            sym_rows = [row for row in second[rep] if row[0] != "__digest__"]
            for u in units:
                for row in sym_rows:
                    rule, status, f, fn, construct, line, detail = row
                    fn2 = fn.replace(rep + ":", u + ":", 1)
                    d2 = detail if u == rep else (detail + " [helper AST identical to %s]" % rep).strip()
                    first[u].append((rule, status, f, fn2, construct, line, d2))
        _C = first
    return _C


def make_c_rule(rule_id):
    def run(r):
        for unit, rows in sorted(_c_results().items()):
            for row in rows:
                if row[0] == rule_id:
                    _, status, f, fn, construct, line, detail = row
                    getattr(r, status)(f, fn, construct, line, detail)
    return run


def analyse_translated(unit, extra):
    """Imagnetic kernel of a unit (a builtin model or the SLD-translation witness): every argument of the model call made
    inside the spin-channel loop is evaluated from the parameter table *after* the loop has overwritten the SLD slots.  An
    argument that goes through a local variable declared outside the channel loop whose value depends on an SLD-typed
    table member carries the nominal SLD into every channel."""
    out = []
    def inst(ok, fn, construct, line, detail=""):
        out.append(("R-C06-translated", "ok" if ok else "violation", KI, "%s:%s" % (unit.name.lstrip("_"), fn), construct, line, detail))
    meta = unit.meta
    sld = {p for p, t in meta.get("types", {}).items() if t == "sld"}
    if not sld:
        return out
    k = Kernel(unit, "Imagnetic")
    # the channel loop: the outermost `for` that contains a store into local_values.vector[...]
    # the local parameter table is found by role: the union variable whose `.vector[...]` member is stored into
    lv = None
    for x in cfront.walk(k.body):
        if x.get("kind") == "BinaryOperator" and x.get("opcode") == "=":
            m = re.match(r"(\w+)\.vector\[", norm(c_text(kids(x)[0])))
            if m:
                lv = m.group(1)
                break
    if lv is None:
        raise AnalysisError("%s: no store into <table>.vector[...] in the Imagnetic kernel" % unit.name)

    def stores(n):
        return [x for x in cfront.walk(n) if x.get("kind") == "BinaryOperator" and x.get("opcode") == "=" and
                norm(c_text(kids(x)[0])).startswith(lv + ".vector[")]
    loops = [n for n in cfront.walk(k.body) if n.get("kind") == "ForStmt" and stores(n)]
    calls_all = k.model_calls(names=("Iq", "Fq", "Iqac", "Iqabc", "Iqxy"))
    spin = [l for l in loops if any(c is x for c in calls_all for x in cfront.walk(l))]
    if not spin:
        raise AnalysisError("%s: no loop in the Imagnetic kernel both rewrites local_values.vector[] and calls the model" % unit.name)
    spin = spin[-1]         # innermost such loop: the loop over cross sections
    inside = {id(x) for x in cfront.walk(spin)}
    # local variables of the kernel: name -> (initialiser text, declared inside the channel loop?)
    decls = {}
    for n in cfront.walk(k.body):
        if n.get("kind") == "VarDecl" and kids(n):
            decls[n["name"]] = (norm(c_text(kids(n)[-1])), id(n) in inside, n.get("_line", 0))
    def sld_deps(text, seen=()):
        """SLD table members an expression text depends on through variables declared outside the channel loop."""
        deps = set()
        for name in set(re.findall(r"(?<![\w.])([A-Za-z_]\w*)", text)):
            if name in decls and not decls[name][1] and name not in seen:
                init = decls[name][0]
                direct = {m for m in re.findall(r"%s\.table\.(\w+)" % re.escape(lv), init) if m in sld}
                if direct:
                    deps.add((name, tuple(sorted(direct))))
                deps |= sld_deps(init, seen + (name,))
        return deps
    calls = [c for c in calls_all if id(c) in inside]
    for c in calls:
        args = [norm(c_text(a)) for a in kids(c)[1:]]
        stale = set()
        for a in args:
            stale |= sld_deps(a)
        reads = sorted({m for a in args for m in re.findall(r"%s\.table\.(\w+)" % re.escape(lv), a) if m in sld})
        inst(not stale, "Imagnetic", "%s(%s)" % (c_callee(c), ", ".join(args))[:150], c.get("_line", 0),
             "SLD-typed table members read in the call itself: %s" % reads if not stale else
             "argument goes through %s, computed before the channel loop from SLD member(s) %s: the per-channel effective SLD "
             "never reaches the model" % (sorted(x[0] for x in stale), sorted({m for x in stale for m in x[1]})))
    return out


_T = None


def rule_translated(r):
    global _T
    if _T is None:
        _T = cfront.map_units("sa.rules.c06:analyse_translated", include_witness="sld")
    if "_reparam_witness_sld" not in _T or not _T["_reparam_witness_sld"]:
        raise AnalysisError("SLD-translation witness produced no instance")
    for unit, rows in sorted(_T.items()):
        for _, status, f, fn, construct, line, detail in rows:
            getattr(r, status)(f, fn, construct, line, detail)


def rule_python(r):
    mi = pf.lib("modelinfo")
    MI = "sasmodels/modelinfo.py"
    gc = mi.func("ParameterTable._get_call_parameters")
    names = [n.args[0].value for n in ast.walk(gc) if isinstance(n, ast.Call) and pf.call_name(n) == "Parameter"
             and n.args and isinstance(n.args[0], ast.Constant)]
    r.check(names == ["up_frac_i", "up_frac_f", "up_theta", "up_phi"], MI, "ParameterTable._get_call_parameters",
            "polarisation parameters appended in the order %s" % names, gc.lineno, "value slots NUM_PARS+2 .. +5")
    sfx = [n.right.value for n in ast.walk(gc) if isinstance(n, ast.BinOp) and isinstance(n.op, ast.Add)
           and isinstance(n.right, ast.Constant) and isinstance(n.right.value, str) and n.right.value.startswith("_m") or
           isinstance(n, ast.BinOp) and isinstance(n.op, ast.Add) and isinstance(n.right, ast.Constant) and n.right.value == "_M0"]
    r.check(sfx == ["_M0", "_mtheta", "_mphi"], MI, "ParameterTable._get_call_parameters", "per SLD: %s" % sfx, gc.lineno,
            "triplet order (magnitude, theta, phi)")
    txt = pf.unparse(gc)
    r.check("slds = [p for p in full_list if p.type == 'sld']" in txt, MI, "ParameterTable._get_call_parameters",
            "triplets follow the SLD order of the call parameters", gc.lineno)
    d = pf.lib("details")
    D = "sasmodels/details.py"
    cm = d.func("convert_magnetism")
    env = {}
    stores = {}
    M0, th, ph = nf.sym("M0"), nf.sym("theta"), nf.sym("phi")
    for s in pf.walk_stmts(cm):
        if isinstance(s, ast.Assign) and isinstance(s.targets[0], ast.Subscript) and pf.unparse(s.targets[0].value) == "mag":
            col = pf.unparse(s.targets[0].slice)
            stores[col] = nf.py_expr(s.value, {"M0": M0, "theta": th, "phi": ph})
    want = {"(:, 0)": M0 * sp.sin(th) * sp.cos(ph), "(:, 1)": M0 * sp.sin(th) * sp.sin(ph), "(:, 2)": M0 * sp.cos(th)}
    for col, w in want.items():
        key = [k for k in stores if k.replace(" ", "") in (col.replace(" ", ""), col.replace(" ", "").strip("()"))]
        ok = bool(key) and nf.equal(stores[key[0]], w)
        r.check(ok, D, "convert_magnetism", "mag[%s] = %s" % (col.strip("()"), w), cm.lineno, "polar -> rectangular")
    txt = pf.unparse(cm)
    r.check("(theta, phi) = (radians(mag[:, 1]), radians(mag[:, 2]))" in txt or "theta, phi = (radians(mag[:, 1]), radians(mag[:, 2]))" in txt,
            D, "convert_magnetism", "theta, phi = radians(mag[:,1]), radians(mag[:,2])", cm.lineno, "column order (M0, theta, phi)")
    r.check("mag = values[parameters.nvalues - nmagpars:parameters.nvalues]" in txt and "nmagpars = NUM_MAGNETIC_PARS * parameters.nmagnetic" in txt,
            D, "convert_magnetism", "triplets are the last 3*nmagnetic scalar slots", cm.lineno)
    r.check("if np.any(mag[:, 0] != 0.0):" in txt and "return True" in txt and "return False" in txt, D, "convert_magnetism",
            "flag = any magnitude non-zero", cm.lineno, "with all magnitudes zero the non-magnetic kernel is used")
    mk = d.func("make_kernel_args")
    r.check("is_magnetic = convert_magnetism(kernel.info.parameters, data)" in pf.unparse(mk), D, "make_kernel_args",
            "is_magnetic = convert_magnetism(parameters, data)", mk.lineno)
    k = pf.lib("kerneldll")
    K = "sasmodels/kerneldll.py"
    ck = k.func("DllKernel._call_kernel")
    r.check("kernel = self.kernel[1 if magnetic else 0]" in pf.unparse(ck), K, "DllKernel._call_kernel", "kernel[1 if magnetic else 0]", ck.lineno)
    mkk = k.func("DllModel.make_kernel")
    r.check("kernel = self._kernels[1:3] if is_2d else [self._kernels[0]] * 2" in pf.unparse(mkk), K, "DllModel.make_kernel",
            "2-D: [Iqxy, Imagnetic]; 1-D: [Iq, Iq]", mkk.lineno)
    ld = k.func("DllModel._load_dll")
    r.check("for variant in ('Iq', 'Iqxy', 'Imagnetic')" in pf.unparse(ld), K, "DllModel._load_dll", "kernel order Iq, Iqxy, Imagnetic", ld.lineno)
    g = pf.lib("generate")
    ms = g.func("make_source")
    t = pf.unparse(ms)
    r.check("magpars = [k - 2 for (k, p) in enumerate(call_table.call_parameters) if p.type == 'sld']" in t or
            "magpars = [k - 2 for k, p in enumerate(call_table.call_parameters) if p.type == 'sld']" in t,
            "sasmodels/generate.py", "make_source", "MAGNETIC_PARS = positions of sld parameters minus the two common ones", ms.lineno)


from . import extra3 as _x3
RULES = [
    ("R-C06-weights", 400, "spin-channel weights, both guard cases", make_c_rule("R-C06-weights")),
    ("R-C06-sld", 250, "effective SLD per channel", make_c_rule("R-C06-sld")),
    ("R-C06-loop", 250, "channel loop in the Imagnetic kernel", make_c_rule("R-C06-loop")),
    ("R-C06-slots", 250, "value-vector slot arithmetic", make_c_rule("R-C06-slots")),
    ("R-C06-translated", 40, "model call in the channel loop reads the SLDs after substitution (builtin units + SLD-translation witness)", rule_translated),
    ("R-C06-python", 14, "append order, polar->rectangular conversion, kernel selection", rule_python),
    ("R-C06-qdir", 40, "mag_sld receives the fetched q components (all magnetic units)", _x3.make_helper_rule("R-C06-qdir")),
]


from . import shared
RULES = RULES + shared.bundle('C06', ['product-layout', 'drivers', 'gpu', 'carry', 'gate', 'restart', 'driver', 'values', 'stride', 'loops'], ['details'])
from .. import refs as _refs
RULES = RULES + [_refs.ref_rule('C06')]


def run(tier="quick", replay=None):
    return run_check(
        "C06", RULES, tier=tier, replay=replay,
        explanation="Symbolic straight-line interpretation (helpers SET_VEC/ORTH_VEC/SCALAR_VEC inlined, guards enumerated) of "
                    "set_spin_weights and mag_sld from the clang AST of every magnetic unit, compared as normal forms with the "
                    "documented weights and Halpern-Johnson expressions; structural rules on the expanded Imagnetic kernel; "
                    "Python-side append order and conversion. Recombination of separate evaluations is not decided.",
        assumptions=["sin^2+cos^2 = 1 for the polarisation angles", "clang macro expansion equals the compiler's"])
