"""C11 - history independence, inputs unchanged.

Decided: (args) no public evaluation entry point mutates a caller-supplied
mapping/array, directly, through an alias or in a resolved callee; (escape) no
view of the reused result buffer is returned; (scratch) the shared Python
parameter vector is fully overwritten before use; (globals) module-level
mutable state written from the evaluation path is limited to the enumerated
caches; (reload) DllModel re-opens the library when _dll is None.
Not decided: bit-identity of results across histories.
"""
import ast
from ..report import run_check, AnalysisError
from .. import pyfacts as pf
from .. import effects

# (module, qualified name, caller-owned parameters)
ENTRY_POINTS = [
    ("direct_model", "call_kernel", ["pars"]),
    ("direct_model", "call_Fq", ["pars"]),
    ("direct_model", "call_profile", ["pars"]),
    ("direct_model", "get_mesh", ["values"]),
    ("direct_model", "DataMixin._calc_theory", ["pars"]),
    ("direct_model", "DirectModel.__call__", ["pars"]),
    ("direct_model", "DirectModel.profile", ["pars"]),
    ("direct_model", "Iq", ["q", "dq", "ql", "qw", "pars"]),
    ("direct_model", "Iqxy", ["qx", "qy", "dqx", "dqy", "pars"]),
    ("direct_model", "Gxi", ["xi", "pars"]),
    ("direct_model", "_direct_calculate", ["pars"]),
    ("details", "make_kernel_args", ["mesh"]),
    ("details", "make_details", ["length", "offset"]),
    ("details", "correct_theta_weights", ["dispersity", "weights"]),
    ("details", "dispersion_mesh", ["mesh"]),
    ("weights", "get_weights", ["limits"]),
    ("sasview_model", "SasviewModel.calculate_Iq", ["qx", "qy"]),
    ("sasview_model", "SasviewModel.evalDistribution", ["qdist"]),
    ("sasview_model", "SasviewModel.run", ["x"]),
    ("sasview_model", "SasviewModel.runXY", ["x"]),
    ("sasview_model", "SasviewModel.calc_composition_models", ["qx"]),
    ("kernelpy", "PyModel.make_kernel", ["q_vectors"]),
    ("kernelpy", "PyInput.__init__", ["q_vectors"]),
    ("kerneldll", "DllModel.make_kernel", ["q_vectors"]),
    ("product", "ProductModel.make_kernel", ["q_vectors"]),
    ("mixture", "MixtureModel.make_kernel", ["q_vectors"]),
    ("bumps_model", "Model.__init__", ["kwargs"]),
    ("bumps_model", "create_parameters", ["kwargs"]),
    ("bumps_model", "Experiment.__init__", ["extra_pars"]),
]


def rule_args(r):
    ix = effects.index()
    for modname, qual, owned in ENTRY_POINTS:
        fn = ix.find(modname, qual)
        if fn is None:
            from .. import refs as _r
            fn = ix.find(modname, _r.current_name("sasmodels/%s.py" % modname, qual))
        if fn is None:
            raise AnalysisError("entry point missing: %s.%s" % (modname, qual))
        allp = pf.params(fn)
        summ = ix.summary(modname, qual)
        for p in owned:
            if p not in allp:
                raise AnalysisError("entry point %s.%s has no parameter %s" % (modname, qual, p))
            f = "sasmodels/%s.py" % modname
            is_kw = fn.args.kwarg is not None and fn.args.kwarg.arg == p
            hits = summ.get(p, [])
            if hits and not is_kw:
                line, text, via = hits[0]
                r.violation(f, qual, "%s mutated: %s" % (p, text), line,
                            "caller-owned argument %r is modified (%s)%s" % (
                                p, via, "; %d more sites" % (len(hits) - 1) if len(hits) > 1 else ""))
            else:
                r.ok(f, qual, "parameter %s" % p, fn.lineno,
                     "fresh **kwargs dict" if is_kw and hits else "no mutation reachable")
            for ep, line, text in summ.get("__escapes__", []):
                if ep == p:
                    r.note(f, qual, "%s passed to unresolved callee %s" % (p, text), line,
                           "not decided: callee outside the index")


def _aliases_buffer(node, buf_names):
    """Does the expression evaluate to (a view of) one of the buffers?"""
    if isinstance(node, ast.Attribute):
        d = pf.dotted(node)
        if d in buf_names:
            return True
        if node.attr in effects.ALIAS_ATTRS:
            return _aliases_buffer(node.value, buf_names)
        return False
    if isinstance(node, ast.Name):
        return node.id in buf_names
    if isinstance(node, ast.Subscript):
        # basic slicing gives a view; integer index gives a scalar copy
        if _aliases_buffer(node.value, buf_names):
            sl = node.slice
            return isinstance(sl, ast.Slice) or (isinstance(sl, ast.Tuple) and any(isinstance(e, ast.Slice) for e in sl.elts))
        return False
    if isinstance(node, ast.IfExp):
        return _aliases_buffer(node.body, buf_names) or _aliases_buffer(node.orelse, buf_names)
    if isinstance(node, ast.Call):
        name = pf.call_name(node) or ""
        short = name.split(".")[-1]
        if isinstance(node.func, ast.Attribute) and node.func.attr in effects.ALIAS_METHODS:
            return _aliases_buffer(node.func.value, buf_names)
        if short in effects.ALIAS_FUNCS and node.args:
            return _aliases_buffer(node.args[0], buf_names)
    return False


def rule_escape(r):
    """Returned values derived from the reused result buffer are fresh arrays."""
    targets = [("kernel", "Kernel.Fq", {"self.result"}), ("kernel", "Kernel.Iq", {"self.result"}),
               ("product", "ProductKernel.Iq", {"self.result"}), ("mixture", "MixtureKernel.Iq", {"self.result"})]
    for modname, qual, bufs in targets:
        mod = pf.lib(modname)
        fn = mod.func(qual)
        f = "sasmodels/%s.py" % modname
        # names that alias the buffer (flow-insensitive, conservative)
        alias = set(bufs)
        changed = True
        assigns = [s for s in pf.walk_stmts(fn) if isinstance(s, ast.Assign)]
        while changed:
            changed = False
            for s in assigns:
                if _aliases_buffer(s.value, alias):
                    for t in s.targets:
                        if isinstance(t, ast.Name) and t.id not in alias:
                            alias.add(t.id)
                            changed = True
        rets = [s for s in pf.walk_stmts(fn) if isinstance(s, ast.Return) and s.value is not None]
        if not rets:
            raise AnalysisError("%s: no return" % qual)
        for ret in rets:
            elts = ret.value.elts if isinstance(ret.value, ast.Tuple) else [ret.value]
            for e in elts:
                bad = _aliases_buffer(e, alias)
                r.check(not bad, f, qual, "return element %s" % pf.unparse(e), ret.lineno,
                        "a view of the reused result buffer would change under the caller at the next evaluation"
                        if bad else "fresh value")


def rule_scratch(r):
    """PyKernel's shared parameter vector is overwritten from `values` before any read."""
    mod = pf.lib("kernelpy")
    fn = mod.func("_loops")
    f = "sasmodels/kernelpy.py"
    pname = pf.positional_params(fn)[0]
    cfg = pf.cfg(fn)
    full = None
    for st in fn.body:
        if isinstance(st, ast.Assign) and isinstance(st.targets[0], ast.Subscript) \
                and isinstance(st.targets[0].value, ast.Name) and st.targets[0].value.id == pname \
                and isinstance(st.targets[0].slice, ast.Slice) and st.targets[0].slice.lower is None \
                and st.targets[0].slice.upper is None:
            full = st
            break
    if full is None:
        r.violation(f, "_loops", "%s[:] = values[...]" % pname, fn.lineno,
                    "no full overwrite of the shared parameter vector found: values from the previous evaluation leak")
        return
    # the source slice must have the vector's own length
    src = pf.unparse(full.value)
    r.check("values[2:" in src and "n_pars" in src, f, "_loops", pf.unparse(full), full.lineno,
            "vector filled from values[2:2+n_pars]")
    # every call of the closures (form/form_volume/form_radius) and every read of the vector is dominated by it
    closure_params = pf.positional_params(fn)[1:4]
    n = 0
    for st in cfg.stmts():
        if st is full:
            continue
        uses = [c for c in pf.own_exprs(st) if isinstance(c, ast.Call) and isinstance(c.func, ast.Name)
                and c.func.id in closure_params]
        if uses:
            n += 1
            r.check(cfg.dominates(full, st), f, "_loops", pf.unparse(uses[0]), st.lineno,
                    "model function reads the shared vector; must follow the overwrite on every path")
    if n == 0:
        raise AnalysisError("_loops: no calls to the model closures found")
    # the vector handed to _loops is the one the closures view
    kp = mod.func("PyKernel._call_kernel")
    calls = [c for c in pf.calls_in(kp) if pf.call_name(c) == "_loops"]
    r.check(bool(calls) and pf.unparse(calls[0].args[0]) == "self._parameter_vector", f, "PyKernel._call_kernel",
            "_loops(self._parameter_vector, ...)", kp.lineno, "scratch vector passed by reference")


ALLOWED_GLOBAL_WRITES = {
    # module: names of module-level mutable objects that may be written on the evaluation path
    "generate": {"_template_cache": "template cache keyed by filename, validated by mtime"},
    "sasview_model": {"MODELS": "name -> class registry", "MODEL_BY_PATH": "path -> class registry",
                      "_CACHED_MODULE": "module cache", "calculation_lock": "lock object",
                      "SUPPORT_OLD_STYLE_PLUGINS": "flag"},
    "kernelcl": {"ENV": "GPU environment singleton"},
    "kernelcuda": {"ENV": "GPU environment singleton"},
    "kerneldll": {"COMPILER": "compiler choice", "ARCH": "arch"},
    "direct_model": {},
    "details": {}, "kernel": {}, "kernelpy": {}, "weights": {"DISTRIBUTIONS": "distribution registry filled by load_weights (user plug-in distributions)"},
    "product": {}, "mixture": {}, "resolution": {}, "resolution2d": {}, "sesans": {},
    "core": {"CUSTOM_MODEL_PATH": "configuration"}, "modelinfo": {},
    "convert": {}, "data": {}, "bumps_model": {},
}


def rule_globals(r):
    """Who may write module-level state: only the enumerated caches."""
    ix = effects.index()
    for modname, allowed in sorted(ALLOWED_GLOBAL_WRITES.items()):
        mod = ix.mods.get(modname)
        if mod is None:
            continue
        f = "sasmodels/%s.py" % modname
        # module-level names bound to mutable displays / calls
        module_names = set()
        for st in mod.tree.body:
            if isinstance(st, (ast.Assign, ast.AnnAssign)):
                for n in ast.walk(st):
                    if isinstance(n, ast.Name) and isinstance(n.ctx, ast.Store):
                        module_names.add(n.id)
        for qual, fn in sorted(mod.functions.items()):
            if qual.startswith("test_") or qual.startswith("demo") or qual == "main":
                continue
            local = set(pf.params(fn))
            declared_global = set()
            for st in pf.walk_stmts(fn):
                if isinstance(st, ast.Global):
                    declared_global |= set(st.names)
                local |= pf.assigned_names(st)
            local -= declared_global
            for st in pf.walk_stmts(fn):
                written = set()
                # rebinding of declared globals
                for nm in pf.assigned_names(st):
                    if nm in declared_global:
                        written.add(nm)
                # mutation of module-level containers
                tgts = st.targets if isinstance(st, ast.Assign) else ([st.target] if isinstance(st, ast.AugAssign) else
                        (st.targets if isinstance(st, ast.Delete) else []))
                for t in tgts:
                    if isinstance(t, ast.Subscript) and isinstance(t.value, ast.Name) \
                            and t.value.id in module_names and t.value.id not in local:
                        written.add(t.value.id)
                for n in pf.own_exprs(st):
                    if isinstance(n, ast.Call) and isinstance(n.func, ast.Attribute) and n.func.attr in effects.MUTATORS \
                            and isinstance(n.func.value, ast.Name) and n.func.value.id in module_names \
                            and n.func.value.id not in local:
                        written.add(n.func.value.id)
                for nm in written:
                    ok = nm in allowed
                    r.check(ok, f, qual, "writes module state %s: %s" % (nm, pf.unparse(st)[:80]), st.lineno,
                            allowed.get(nm, "module-level mutable state outside the enumerated caches: results may "
                                        "depend on call history"))


def rule_reload(r):
    """DllModel: every use of the library handle is preceded by the `_dll is None` reload test."""
    mod = pf.lib("kerneldll")
    f = "sasmodels/kerneldll.py"
    mk = mod.func("DllModel.make_kernel")
    cfg = pf.cfg(mk)
    guards = [st for st in cfg.stmts() if isinstance(st, ast.If) and "self._dll is None" in pf.unparse(st.test)]
    r.check(bool(guards), f, "DllModel.make_kernel", "if self._dll is None: self._load_dll()", mk.lineno,
            "library handle reloaded lazily")
    if guards:
        body = pf.unparse(ast.Module(body=guards[0].body, type_ignores=[]))
        r.check("_load_dll" in body, f, "DllModel.make_kernel", "reload call in guard body", guards[0].lineno)
        for st in cfg.stmts():
            if st is guards[0] or isinstance(st, ast.If):
                continue
            if any(isinstance(n, ast.Attribute) and pf.dotted(n) == "self._kernels" for n in pf.own_exprs(st)):
                r.check(cfg.dominates(guards[0], st), f, "DllModel.make_kernel", pf.unparse(st)[:70], st.lineno,
                        "use of the kernel handles follows the reload test")
    rel = mod.func("DllModel.release")
    txt = pf.unparse(rel)
    r.check("self._dll = None" in txt, f, "DllModel.release", "self._dll = None", rel.lineno, "release nulls the handle")
    # kernel.c side: result reset iff pd_start == 0 is R-C01-carry
    # PyKernel allocates its result per call
    kp = pf.lib("kernelpy").func("PyKernel._call_kernel")
    r.check(any(isinstance(s, ast.Assign) and pf.unparse(s.targets[0]) == "self.result" and isinstance(s.value, ast.Call)
                for s in kp.body), "sasmodels/kernelpy.py", "PyKernel._call_kernel", "self.result = _loops(...)", kp.lineno,
            "python kernels build a fresh result per evaluation")


CONTAINER_CALLS = {"dict", "list", "set", "OrderedDict", "collections.OrderedDict", "defaultdict", "collections.defaultdict"}


def _is_container_expr(node):
    """The expression evaluates to a freshly made mutable container (top level, or either arm of a conditional)."""
    if isinstance(node, (ast.Dict, ast.List, ast.Set, ast.DictComp, ast.ListComp)):
        return True
    if isinstance(node, ast.Call) and pf.call_name(node) in CONTAINER_CALLS:
        return True
    if isinstance(node, ast.IfExp):
        return _is_container_expr(node.body) or _is_container_expr(node.orelse)
    if isinstance(node, ast.BoolOp):
        return any(_is_container_expr(v) for v in node.values)
    return False


def rule_clone(r):
    """SasviewModel.clone shares no mutable state with the original."""
    sv = pf.lib("sasview_model")
    f = "sasmodels/sasview_model.py"
    cl = sv.func("SasviewModel.clone")
    rets = [s_ for s_ in pf.walk_stmts(cl) if isinstance(s_, ast.Return)]
    if not rets:
        raise AnalysisError("clone: no return")
    if all(isinstance(x.value, ast.Call) and pf.call_name(x.value) in ("deepcopy", "copy.deepcopy") and
           pf.unparse(x.value.args[0]) == "self" for x in rets):
        r.ok(f, "SasviewModel.clone", "return deepcopy(self)", rets[0].lineno, "every nested container is duplicated")
        return
    # hand-rolled copy: every attribute that holds nested mutable containers must be deep-copied
    init = sv.func("SasviewModel.__init__")
    nested = {}
    for s_ in pf.walk_stmts(init):
        if isinstance(s_, ast.Assign) and isinstance(s_.targets[0], ast.Subscript) and isinstance(s_.targets[0].value, ast.Attribute) \
                and pf.unparse(s_.targets[0].value.value) == "self" and _is_container_expr(s_.value):
            nested[s_.targets[0].value.attr] = s_
    if not nested:
        raise AnalysisError("SasviewModel.__init__: nested containers not identified")
    ret_name = pf.unparse(rets[-1].value)
    for attr, where in sorted(nested.items()):
        deep = [s_ for s_ in pf.walk_stmts(cl) if isinstance(s_, ast.Assign) and pf.unparse(s_.targets[0]) == "%s.%s" % (ret_name, attr)
                and isinstance(s_.value, ast.Call) and pf.call_name(s_.value) in ("deepcopy", "copy.deepcopy")]
        r.check(bool(deep), f, "SasviewModel.clone", "%s.%s is a deep copy" % (ret_name, attr), cl.lineno,
                "self.%s holds containers inside a container (%s); a shallow copy leaves the inner ones shared, so setParam on "
                "the clone changes what the original evaluates" % (attr, pf.unparse(where)[:60]))


EVAL_CLASSES = [("mixture", "MixtureKernel"), ("mixture", "_MixtureParts"), ("product", "ProductKernel"), ("kernel", "Kernel"),
                ("kerneldll", "DllKernel"), ("kernelpy", "PyKernel")]
# attributes an evaluation may (re)write: each is overwritten before it is read within one evaluation
STATE_ALLOWED = {"results": "lazy intermediate results of the last evaluation (not consulted by the next one)",
                 "result": "result buffer, zeroed by the kernel when pd_start == 0 / rebuilt by _loops",
                 "part_num": "iterator position, reset in __iter__", "par_index": "iterator position, reset in __iter__",
                 "mag_index": "iterator position, reset in __iter__", "q_input": "released in release()"}


def rule_state(r):
    """No state survives from one evaluation to the next inside the kernel objects."""
    n = 0
    for modname, cname in EVAL_CLASSES:
        mod = pf.lib(modname)
        f = "sasmodels/%s.py" % modname
        if cname not in mod.classes:
            raise AnalysisError("%s.%s missing" % (modname, cname))
        methods = {q.split(".", 1)[1]: fn for q, fn in mod.functions.items() if q.startswith(cname + ".") and q.count(".") == 1}
        init = methods.get("__init__")
        persistent = {}
        if init is not None:
            for s_ in pf.walk_stmts(init):
                if isinstance(s_, ast.Assign) and isinstance(s_.targets[0], ast.Attribute) and pf.unparse(s_.targets[0].value) == "self" \
                        and _is_container_expr(s_.value) and not any(
                            isinstance(c, ast.Call) and (pf.call_name(c) or "").startswith("np.") for c in ast.walk(s_.value)):
                    persistent[s_.targets[0].attr] = s_
        for mname, fn in sorted(methods.items()):
            if mname in ("__init__", "release", "__del__", "__getstate__", "__setstate__"):
                continue
            for s_ in pf.walk_stmts(fn):
                # reads/writes of a persistent container created in __init__
                for node in pf.own_exprs(s_):
                    if isinstance(node, ast.Attribute) and pf.unparse(node.value) == "self" and node.attr in persistent:
                        n += 1
                        r.violation(f, "%s.%s" % (cname, mname), "self.%s used in %s" % (node.attr, pf.unparse(s_)[:70]), s_.lineno,
                                    "self.%s is a container created once per kernel object (%s) and consulted during evaluation: "
                                    "what an evaluation returns can depend on the evaluations before it"
                                    % (node.attr, pf.unparse(persistent[node.attr])[:50]))
                tgts = s_.targets if isinstance(s_, ast.Assign) else ([s_.target] if isinstance(s_, ast.AugAssign) else [])
                flat = []
                for t in tgts:
                    flat.extend(t.elts if isinstance(t, (ast.Tuple, ast.List)) else [t])
                for t in flat:
                    base = t.value if isinstance(t, ast.Subscript) else t
                    if isinstance(base, ast.Attribute) and pf.unparse(base.value) == "self":
                        n += 1
                        ok = base.attr in STATE_ALLOWED
                        r.check(ok, f, "%s.%s" % (cname, mname), "writes self.%s" % base.attr, s_.lineno,
                                STATE_ALLOWED.get(base.attr, "attribute written during evaluation outside the enumerated scratch state"))
    if n < 5:
        raise AnalysisError("state rule examined only %d writes" % n)


from . import extra3 as _x3
RULES = [
    ("R-C11-clone", 1, "clone shares no mutable state", rule_clone),
    ("R-C11-state", 5, "no evaluation-to-evaluation state in kernel objects", rule_state),
    ("R-C11-args", 40, "caller-owned arguments are never mutated (interprocedural effect analysis)", rule_args),
    ("R-C11-escape", 7, "no view of the reused result buffer escapes", rule_escape),
    ("R-C11-scratch", 3, "shared python parameter vector fully overwritten before use", rule_scratch),
    ("R-C11-globals", 3, "who-may-write module-level state", rule_globals),
    ("R-C11-reload", 4, "library handle typestate", rule_reload),
    ("R-C11-cstate", 600, "generated kernels keep no state and leave the process state alone (all units)", _x3.make_cstate_rule("R-C11-cstate")),
    ("R-C11-pymodel", 20, "python functions of the model files allocate no uninitialised memory and keep no state", _x3.rule_c11_pymodel),
    ("R-C11-views", 6, "caller arrays are selected by a copying mask before in-place edits", _x3.rule_c11_views),
]
from . import folds as _folds
RULES = RULES + [_folds.fold_rule('C11')]
from . import shared as _shared
RULES = RULES + _shared.bundle('C11', ['drivers', 'gpu', 'carry', 'restart', 'driver', 'loops'])
from .. import refs as _refs
RULES = RULES + [_refs.ref_rule('C11')]


def run(tier="quick", replay=None):
    return run_check(
        "C11", RULES, tier=tier, replay=replay,
        explanation="Effect analysis over the Python library: reaching-definition alias tracking on a statement CFG per "
                    "function, mutation summaries propagated through resolved calls (module functions, imported "
                    "functions, self methods, constructors); buffer-view escape check on the kernel return paths; "
                    "dominance of the scratch-vector overwrite; enumerated who-may-write table for module state. "
                    "Bit-identity of numerical results across histories is not decided.",
        assumptions=["numpy basic slicing yields views, arithmetic yields fresh arrays",
                     "callees outside the index (numpy, model functions) do not mutate their arguments; such calls "
                     "are listed as notes"])
