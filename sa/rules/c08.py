"""C08 - sum and product mixtures.

Decided: the accumulate/initialise choice in MixtureKernel.Iq is independent
of the values accumulated; slice arithmetic of _MixtureParts agrees with the
order in which make_mixture_info builds the combined table (for every number
of parts and both operators, as linear forms); each part is called with
(scale_k | 1, 0); result = scale*total + background; operator precedence of
the expression parser.  Not decided: numeric equality with the parts.
"""
import ast
import sympy as sp
from ..report import run_check, AnalysisError
from .. import pyfacts as pf
from ..layout import affine, same, slice_bounds

F = "sasmodels/mixture.py"


def _consts():
    mi = pf.lib("modelinfo")
    out = {}
    for name in ("NUM_COMMON_PARS", "NUM_MAGFIELD_PARS", "NUM_MAGNETIC_PARS"):
        v = pf.const_value(mi.module_assign(name))
        if v is None:
            raise AnalysisError("modelinfo.%s is not a literal" % name)
        out[name] = v
    return out


def rule_accum(r):
    """The init/accumulate decision must not read the accumulated values."""
    mod = pf.lib("mixture")
    fn = mod.func("MixtureKernel.Iq")
    rets = [s for s in pf.walk_stmts(fn) if isinstance(s, ast.Return)]
    if not rets:
        raise AnalysisError("MixtureKernel.Iq: no return")
    loops = [s for s in fn.body if isinstance(s, ast.For)]
    if not loops:
        raise AnalysisError("MixtureKernel.Iq: loop over parts not found")
    loop = loops[0]
    # accumulator: names written in the loop and read by the return expression
    written = set()
    for st in pf.walk_stmts(ast.Module(body=loop.body, type_ignores=[])):
        written |= pf.assigned_names(st)
    acc = written & pf.names_in(rets[-1].value)
    if not acc:
        raise AnalysisError("MixtureKernel.Iq: accumulator not identified")
    # value-carrying names: accumulator + anything assigned from a kernel call / arithmetic on those
    tainted = set(acc)
    changed = True
    while changed:
        changed = False
        for st in pf.walk_stmts(ast.Module(body=loop.body, type_ignores=[])):
            if isinstance(st, ast.Assign):
                rhs_names = pf.names_in(st.value)
                is_call_of_kernel = any(isinstance(c.func, ast.Name) and c.func.id in _loop_targets(loop)
                                        for c in pf.calls_in(st.value))
                if (rhs_names & tainted) or is_call_of_kernel:
                    # containers built by append are not assignments; tuples/lists of values are excluded
                    if isinstance(st.value, (ast.List, ast.Tuple, ast.Dict)):
                        continue
                    new = pf.assigned_names(st) - tainted
                    if new:
                        tainted |= new
                        changed = True
    n = 0
    for st in pf.walk_stmts(ast.Module(body=loop.body, type_ignores=[])):
        if isinstance(st, ast.If):
            used = pf.names_in(st.test) & tainted
            n += 1
            r.check(not used, F, "MixtureKernel.Iq", "if %s" % pf.unparse(st.test), st.lineno,
                    "branch inside the accumulation loop reads the values of %s: the combination then depends on "
                    "the numbers the parts take (a zero in an earlier factor restarts the product)" % sorted(used)
                    if used else "condition reads %s only" % sorted(pf.names_in(st.test)))
    # the accumulator's initial value / first binding
    init = [s for s in fn.body if isinstance(s, ast.Assign) and pf.assigned_names(s) & acc and s.lineno < loop.lineno]
    for s in init:
        r.ok(F, "MixtureKernel.Iq", pf.unparse(s), s.lineno, "accumulator initialisation (see R-C08-identity)")


def _loop_targets(loop):
    return {n.id for n in ast.walk(loop.target) if isinstance(n, ast.Name)}


def rule_identity(r):
    """Each operator combines with its own operation: '+' adds, '*' multiplies, and the
    first part initialises by position or by the operator's identity."""
    mod = pf.lib("mixture")
    fn = mod.func("MixtureKernel.Iq")
    loop = [s for s in fn.body if isinstance(s, ast.For)][0]
    seen = {}
    for st in pf.walk_stmts(ast.Module(body=loop.body, type_ignores=[])):
        if isinstance(st, ast.If) and isinstance(st.test, ast.Compare) and "operation" in pf.unparse(st.test.left) \
                and isinstance(st.test.comparators[0], ast.Constant):
            chain = []
            cur = st
            while True:
                chain.append((cur.test, cur.body))
                if len(cur.orelse) == 1 and isinstance(cur.orelse[0], ast.If):
                    cur = cur.orelse[0]
                else:
                    break
            for test, body in chain:
                if not (isinstance(test, ast.Compare) and isinstance(test.comparators[0], ast.Constant)):
                    continue
                op = test.comparators[0].value
                ops = set()
                for b in pf.walk_stmts(ast.Module(body=body, type_ignores=[])):
                    if isinstance(b, ast.AugAssign):
                        ops.add(type(b.op).__name__)
                    elif isinstance(b, ast.Assign) and isinstance(b.value, ast.BinOp):
                        ops.add(type(b.value.op).__name__)
                seen[op] = (ops, test)
    want = {"+": "Add", "*": "Mult"}
    for op, opname in want.items():
        if op not in seen:
            raise AnalysisError("MixtureKernel.Iq: no branch for operation %r" % op)
        ops, test = seen[op]
        r.check(ops == {opname}, F, "MixtureKernel.Iq", "operation == %r combines with %s" % (op, sorted(ops)),
                test.lineno, "expected only %s" % opname)


def rule_layout(r):
    """_MixtureParts index arithmetic = append order of make_mixture_info."""
    mod = pf.lib("mixture")
    C = _consts()
    npars = sp.Symbol("npars_k")          # parameters of the current part
    before = sp.Symbol("sum_before")      # sum of npars of earlier parts
    k = sp.Symbol("k")                    # number of earlier parts
    nmag_before = sp.Symbol("nmag_before")
    nmag = sp.Symbol("nmag_k")
    NP = sp.Symbol("NPARS_TOTAL")
    # writer: make_mixture_info
    mk = mod.func("make_mixture_info")
    loops = [s for s in mk.body if isinstance(s, ast.For)]
    writer = None
    for lp in loops:
        text = pf.unparse(lp)
        if "combined_pars.append" in text:
            writer = lp
    if writer is None:
        raise AnalysisError("make_mixture_info: loop appending to combined_pars not found")
    # order of appends inside the writer body: scale (guarded by operation == '+') then the parameters
    order = []
    for st in writer.body:
        for n in ast.walk(st):
            if isinstance(n, ast.Call) and pf.call_name(n) == "combined_pars.append":
                guard = None
                if isinstance(st, ast.If):
                    guard = pf.unparse(st.test)
                order.append((pf.unparse(n.args[0]), guard, isinstance(st, ast.For)))
    ok_order = len(order) == 2 and order[0][1] == "operation == '+'" and not order[0][2] and order[1][2]
    r.check(ok_order, F, "make_mixture_info", "append order: [scale_k if '+'] then kernel_parameters of the part",
            writer.lineno, "found %s" % order)
    for op in ("+", "*"):
        s = 1 if op == "+" else 0
        facts = {"self.model_info.operation == '+'": op == "+"}
        # writer offsets (in the values vector): part k starts at 2 + sum_before + s*k
        w_scale = C["NUM_COMMON_PARS"] + before + s * k
        w_pars = w_scale + s
        # reader: par_index at part k, from __iter__ start and __next__ increments
        it = mod.func("_MixtureParts.__iter__")
        nx = mod.func("_MixtureParts.__next__")
        env0 = dict(C)
        env0["self.spin_index"] = NP + C["NUM_COMMON_PARS"]
        start = {}
        for st in it.body:
            if isinstance(st, ast.Assign) and isinstance(st.targets[0], ast.Attribute):
                start[pf.unparse(st.targets[0])] = affine(st.value, env0, facts)
        # spin_index definition in __init__
        ini = mod.func("_MixtureParts.__init__")
        for st in ini.body:
            if isinstance(st, ast.Assign) and pf.unparse(st.targets[0]) == "self.spin_index":
                v = affine(st.value, dict(C, **{"model_info.parameters.npars": NP}), facts)
                r.check(same(v, NP + C["NUM_COMMON_PARS"]), F, "_MixtureParts.__init__", pf.unparse(st), st.lineno,
                        "spin block starts after common + all kernel parameters")
        inc = {"self.par_index": sp.Integer(0), "self.mag_index": sp.Integer(0), "self.part_num": sp.Integer(0)}
        envn = dict(C)
        envn["info.parameters.npars"] = npars
        envn["len(info.parameters.magnetism_index)"] = nmag
        envn["info.parameters.nmagnetic"] = nmag
        for st in pf.walk_stmts(nx):
            if isinstance(st, ast.AugAssign) and isinstance(st.op, ast.Add) and pf.unparse(st.target) in inc:
                parent = mod.parents.get(st)
                if isinstance(parent, ast.If) and st in parent.body:
                    if not pf_truth(parent.test, facts):
                        continue
                try:
                    try:
                        val = affine(st.value, envn, facts)
                    except AnalysisError:
                        val = affine(pf.inline_locals(nx, st.value), envn, facts)
                    inc[pf.unparse(st.target)] += val
                except AnalysisError as exc:
                    r.violation(F, "_MixtureParts.__next__", "%s (operation %r)" % (pf.unparse(st), op), st.lineno,
                                "the advance is not a function of the part's own table sizes (npars, number of magnetic SLD "
                                "slots) only - %s; parts after this one read another component's slots" % exc)
                    inc[pf.unparse(st.target)] += sp.Symbol("unresolved")
        for need in ("self.par_index", "self.mag_index"):
            if need not in start:
                raise AnalysisError("_MixtureParts.__iter__ does not initialise %s" % need)
        par_index = start["self.par_index"] + (before + s * k)  # closed form if increment is npars+s
        r.check(same(inc["self.par_index"], npars + s), F, "_MixtureParts.__next__",
                "par_index advance (operation %r)" % op, nx.lineno,
                "advance %s per part; the table holds npars_k%s entries per part" % (inc["self.par_index"], " + 1 scale" if s else ""))
        r.check(same(inc["self.mag_index"], C["NUM_MAGNETIC_PARS"] * nmag), F, "_MixtureParts.__next__",
                "mag_index advance (operation %r)" % op, nx.lineno, "advance %s" % inc["self.mag_index"])
        r.check(same(start["self.par_index"], C["NUM_COMMON_PARS"]), F, "_MixtureParts.__iter__",
                "par_index start (operation %r)" % op, it.lineno, "start %s" % start["self.par_index"])
        r.check(same(start["self.mag_index"], NP + C["NUM_COMMON_PARS"] + C["NUM_MAGFIELD_PARS"]), F,
                "_MixtureParts.__iter__", "mag_index start (operation %r)" % op, it.lineno,
                "start %s" % start["self.mag_index"])
        # the order of increments: values computed before the advance
        calls = [st for st in nx.body if isinstance(st, ast.Assign) and isinstance(st.value, ast.Call)
                 and pf.call_name(st.value) in ("self._part_details", "self._part_values")]
        augs = [st for st in pf.walk_stmts(nx) if isinstance(st, ast.AugAssign)]
        r.check(calls and augs and max(c.lineno for c in calls) < min(a.lineno for a in augs), F,
                "_MixtureParts.__next__", "part slices taken before the indices advance (operation %r)" % op, nx.lineno)
        # _part_values
        pv = mod.func("_MixtureParts._part_values")
        envv = dict(C)
        envv.update({"par_index": par_index, "info.parameters.npars": npars, "nmagnetic": nmag,
                     "self.spin_index": NP + C["NUM_COMMON_PARS"],
                     "mag_index": NP + C["NUM_COMMON_PARS"] + C["NUM_MAGFIELD_PARS"] + C["NUM_MAGNETIC_PARS"] * nmag_before})
        local = {}
        for st in pf.walk_stmts(pv):
            if isinstance(st, ast.Assign) and isinstance(st.targets[0], ast.Name):
                tgt = st.targets[0].id
                val = st.value
                if tgt == "diff":
                    envv["diff"] = affine(val, envv, facts)
                local.setdefault(tgt, []).append(st)
        # scale
        sc = local.get("scale", [None])[0]
        if sc is None:
            raise AnalysisError("_part_values: scale not found")
        v = sc.value
        chosen = v.body if (isinstance(v, ast.IfExp) and pf_truth(v.test, facts)) else (v.orelse if isinstance(v, ast.IfExp) else v)
        if op == "+":
            okk = isinstance(chosen, ast.Subscript) and pf.unparse(chosen.value) == "self.values" \
                and same(affine(chosen.slice, envv, facts), w_scale)
            r.check(okk, F, "_MixtureParts._part_values", "scale = %s (operation '+')" % pf.unparse(chosen), sc.lineno,
                    "must read the part's own scale slot %s" % w_scale)
        else:
            r.check(pf.const_value(chosen) == 1.0, F, "_MixtureParts._part_values",
                    "scale = %s (operation '*')" % pf.unparse(chosen), sc.lineno, "factors are evaluated with scale 1")
        pr = local.get("pars", [None])[0]
        if pr is None or not isinstance(pr.value, ast.Subscript):
            raise AnalysisError("_part_values: pars slice not found")
        lo, hi = slice_bounds(pr.value.slice, envv, facts)
        r.check(same(lo, w_pars) and same(hi, w_pars + npars), F, "_MixtureParts._part_values",
                "pars = %s (operation %r)" % (pf.unparse(pr.value), op), pr.lineno,
                "reads [%s, %s); the table places the part at [%s, %s)" % (lo, hi, w_pars, w_pars + npars))
        # magnetic slices inside the `if nmagnetic` arm
        for st in pf.walk_stmts(pv):
            if isinstance(st, ast.Assign) and isinstance(st.value, ast.Subscript) and pf.unparse(st.value.value) == "self.values" \
                    and isinstance(st.targets[0], ast.Name) and st.targets[0].id in ("spin_state", "mag_index"):
                lo, hi = slice_bounds(st.value.slice, envv, facts)
                if st.targets[0].id == "spin_state":
                    want = (NP + C["NUM_COMMON_PARS"], NP + C["NUM_COMMON_PARS"] + C["NUM_MAGFIELD_PARS"])
                else:
                    base = NP + C["NUM_COMMON_PARS"] + C["NUM_MAGFIELD_PARS"] + C["NUM_MAGNETIC_PARS"] * nmag_before
                    want = (base, base + C["NUM_MAGNETIC_PARS"] * nmag)
                r.check(same(lo, want[0]) and same(hi, want[1]), F, "_MixtureParts._part_values",
                        "%s (operation %r)" % (pf.unparse(st), op), st.lineno, "reads [%s,%s) want [%s,%s)" % (lo, hi, want[0], want[1]))
        # the assembled vector: [[scale, zero], pars, spin_state, mag_index, weights]
        vals = [st for st in local.get("values", []) if isinstance(st.value, ast.List)]
        if not vals:
            raise AnalysisError("_part_values: values list not found")
        elts = [pf.unparse(e) for e in vals[0].value.elts]
        r.check(elts == ["[scale, zero]", "pars", "spin_state", "mag_index", "weights"], F,
                "_MixtureParts._part_values", "values = %s (operation %r)" % (pf.unparse(vals[0].value), op),
                vals[0].lineno, "(scale_k | 1, background 0), parameters, spin state, magnetic triplets, weights")
        zero = local.get("zero", [None])[0]
        r.check(zero is not None and any(isinstance(n, ast.Constant) and n.value == 0 for n in ast.walk(zero.value)),
                F, "_MixtureParts._part_values", "zero = %s (operation %r)" % (pf.unparse(zero.value) if zero else "?", op),
                zero.lineno if zero else 0, "component background is 0")
        # _part_details: index into length/offset (kernel parameter positions, no scale/background)
        pd = mod.func("_MixtureParts._part_details")
        envd = dict(C)
        envd.update({"par_index": par_index, "info.parameters.npars": npars})
        idx = None
        for st in pd.body:
            if isinstance(st, ast.Assign) and isinstance(st.targets[0], ast.Name):
                if st.targets[0].id == "diff":
                    envd["diff"] = affine(st.value, envd, facts)
                if st.targets[0].id == "index":
                    idx = st
        if idx is None:
            raise AnalysisError("_part_details: index slice not found")
        lo, hi = slice_bounds(idx.value, envd, facts)
        w_lo = before + s * k + s      # position in combined kernel parameter list
        r.check(same(lo, w_lo) and same(hi, w_lo + npars), F, "_MixtureParts._part_details",
                "%s (operation %r)" % (pf.unparse(idx), op), idx.lineno,
                "reads [%s,%s) of length/offset; part occupies [%s,%s)" % (lo, hi, w_lo, w_lo + npars))
    # magnetic append counts in modelinfo agree with the constants
    mi = pf.lib("modelinfo")
    gc = mi.func("ParameterTable._get_call_parameters")
    counts = []
    for n in ast.walk(gc):
        if isinstance(n, ast.Call) and isinstance(n.func, ast.Attribute) and n.func.attr == "extend" and n.args \
                and isinstance(n.args[0], ast.List):
            counts.append(len(n.args[0].elts))
    r.check(counts == [C["NUM_MAGFIELD_PARS"], C["NUM_MAGNETIC_PARS"]], "sasmodels/modelinfo.py",
            "ParameterTable._get_call_parameters", "magnetic parameters appended: %s" % counts, gc.lineno,
            "NUM_MAGFIELD_PARS=%d then NUM_MAGNETIC_PARS=%d per sld" % (C["NUM_MAGFIELD_PARS"], C["NUM_MAGNETIC_PARS"]))


def pf_truth(test, facts):
    from ..layout import truth
    return truth(test, facts)


def rule_result(r):
    """result = scale*total + background with (scale, background) = values[0:2]."""
    from .. import nf
    mod = pf.lib("mixture")
    fn = mod.func("MixtureKernel.Iq")
    ret = [s for s in pf.walk_stmts(fn) if isinstance(s, ast.Return)][-1]
    first = fn.body[0] if not isinstance(fn.body[0], ast.Expr) else fn.body[1]
    ok_unpack = isinstance(first, ast.Assign) and pf.unparse(first.targets[0]) in ("(scale, background)", "scale, background") \
        and pf.unparse(first.value) in ("values[0:2]", "values[:2]")
    r.check(ok_unpack, F, "MixtureKernel.Iq", pf.unparse(first), first.lineno, "scale, background are values[0], values[1]")
    from ..pyroles import accumulator_of
    loop = [st for st in fn.body if isinstance(st, ast.For)][0]
    acc = sorted(accumulator_of(fn, loop))
    if len(acc) != 1:
        raise AnalysisError("MixtureKernel.Iq: accumulator not unique: %s" % acc)
    e = nf.py_expr(ret.value, {})
    s, t, b = nf.sym("scale"), nf.sym(acc[0]), nf.sym("background")
    r.check(nf.equal(e, s * t + b), F, "MixtureKernel.Iq", "return %s" % pf.unparse(ret.value), ret.lineno,
            "must equal scale*<accumulated parts> + background")


def rule_precedence(r):
    """load_model_info splits on '+' before '*' before '@' (loosest-binding operator first)."""
    mod = pf.lib("core")
    fn = mod.func("load_model_info")
    chain = []
    for st in fn.body:
        if isinstance(st, ast.If):
            cur = st
            while True:
                chain.append(cur)
                if len(cur.orelse) == 1 and isinstance(cur.orelse[0], ast.If):
                    cur = cur.orelse[0]
                else:
                    break
            break
    order = []
    for br in chain:
        consts = [n.value for n in ast.walk(br.test) if isinstance(n, ast.Constant) and n.value in ("+", "*", "@")]
        if not consts:
            continue
        simple = isinstance(br.test, ast.Compare) and isinstance(br.test.ops[0], ast.In) and isinstance(br.test.left, ast.Constant) \
            and pf.unparse(br.test.comparators[0]) == pf.positional_params(fn)[0]
        txt = pf.unparse(ast.Module(body=br.body, type_ignores=[]))
        order.append((consts[0], simple, txt, br.lineno, pf.unparse(br.test)))
    ops = [o for o, _, _, _, _ in order]
    r.check(ops == ["+", "*", "@"], "sasmodels/core.py", "load_model_info", "split order %s" % ops, fn.lineno,
            "loosest-binding operator first: + then * then @")
    for o, simple, txt, ln, test in order:
        r.check(simple, "sasmodels/core.py", "load_model_info", "branch test `%s`" % test, ln,
                "the operator test is the plain membership test, so the first branch taken is decided by precedence alone")
        if o == "+":
            r.check("split('+')" in txt and "operation='+'" in txt, "sasmodels/core.py", "load_model_info",
                    "'+' branch builds a '+' mixture", ln)
        if o == "*":
            r.check("split('*')" in txt and "operation='*'" in txt, "sasmodels/core.py", "load_model_info",
                    "'*' branch builds a '*' mixture", ln)
        if o == "@":
            r.check("split('@')" in txt and "make_product_info" in txt, "sasmodels/core.py", "load_model_info",
                    "'@' branch builds a product", ln)


def rule_stateless(r):
    """Each component is evaluated from this call's arguments only (shared with C11 R-C11-state, mixture classes)."""
    from .c11 import rule_state
    from ..report import Rule
    tmp = Rule("R-C11-state", 0, "")
    rule_state(tmp)
    for i in tmp.instances:
        if i["file"] == "sasmodels/mixture.py":
            getattr(r, i["status"])(i["file"], i["function"], i["construct"], i["line"], i["detail"])


from . import extra3 as _x3
RULES = [
    ("R-C08-stateless", 3, "no state carried between evaluations of a mixture", rule_stateless),
    ("R-C08-accum", 1, "init/accumulate decision independent of accumulated values", rule_accum),
    ("R-C08-identity", 2, "each operator combines with its own operation", rule_identity),
    ("R-C08-layout", 20, "part slices agree with table construction order (linear forms)", rule_layout),
    ("R-C08-result", 2, "scale*total+background", rule_result),
    ("R-C08-precedence", 7, "expression parser precedence", rule_precedence),
    ("R-C08-dim", 6, "kernel dimension comes from the q input or a component", _x3.rule_c08_dim),
]


from . import shared
RULES = RULES + shared.bundle('C08', ['magloop', 'values', 'stride', 'maxpd', 'driver'], ['details'])
from . import folds as _folds
RULES = RULES + [_folds.fold_rule('C08')]
from . import c07 as _c07
RULES = RULES + [("R-C08-component-scale", 8, "a P@S component honours its own scale and background slots (the mixture multiplies by X_scale_k on top)",
                  shared._relabel(_c07.rule_formula, "R-C08-component-scale")),
                 ("R-C08-component-norm", 12, "a plain component returns scale*<F^2>/<V> + background", shared._relabel(__import__("sa.rules.c01", fromlist=["x"]).rule_norm, "R-C08-component-norm"))]
from .. import refs as _refs
RULES = RULES + [_refs.ref_rule('C08')]


def run(tier="quick", replay=None):
    return run_check(
        "C08", RULES, tier=tier, replay=replay,
        explanation="AST rules on mixture.py/core.py: data-dependence of branch conditions on the accumulator, affine "
                    "layout algebra (sympy linear forms over npars_k, sum_before, k, nmag) comparing _MixtureParts "
                    "slices with make_mixture_info's append order for both operators, call-value shape, return formula, "
                    "parser precedence. Numeric equality with separately evaluated parts is not decided.",
        assumptions=["numpy slicing semantics", "ParameterTable orders call parameters as common + kernel + magnetic (checked in C06/C01 rules)"])
