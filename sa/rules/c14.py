"""C14 - amplitude outputs are mutually consistent.

Decided: the effective-radius mode list of every model agrees with the `case`
labels of its C radius_effective (exhaustiveness); every mode named
'equivalent (outer) volume sphere' returns cbrt(V_form/(4 pi/3)) with V_form
the model's form_volume of the same arguments (normal forms); the F^2,F
interleave of writer and reader; I(q) uses the reported shell volume.
Not decided: 0 <= <F>^2 <= <F^2>, positivity and finiteness (numeric).
"""
import ast, re
import sympy as sp
from ..report import run_check, AnalysisError
from .. import pyfacts as pf
from .. import nf, cfront, tables
from ..ckernel import Kernel, norm, kids
from ..nf import c_text, c_callee, CInterp, sym, c_strip

EQVOL = re.compile(r"equivalent\s+(outer\s+)?volume\s+sphere", re.I)


def _case_labels(fn):
    labels, has_default, has_switch = [], False, False
    for n in cfront.walk(fn):
        if n.get("kind") == "SwitchStmt":
            has_switch = True
        if n.get("kind") == "CaseStmt":
            lab = c_strip(kids(n)[0])
            if lab.get("kind") == "IntegerLiteral":
                labels.append(int(lab["value"]))
        if n.get("kind") == "DefaultStmt":
            has_default = True
    return sorted(labels), has_default, has_switch


def analyse_unit(unit, extra):
    out = []
    modes = (extra or {}).get("modes", {}).get(unit.name)
    relfile = "sasmodels/models/%s.c" % unit.name
    def inst(rule, ok, fn, construct, line, detail="", file=None):
        out.append((rule, "ok" if ok else "violation", file or relfile, fn, construct, line, detail))
    have_fn = "radius_effective" in unit.functions and unit.body(unit.fn("radius_effective")) is not None
    if modes is None:
        if have_fn:
            out.append(("R-C14-modes", "note", relfile, "radius_effective", "C function without a mode list in the model file", 0, ""))
    else:
        if not have_fn:
            inst("R-C14-modes", False, "radius_effective", "%d modes declared, no C radius_effective" % len(modes), 0,
                 "modes %s cannot be computed" % modes)
            return out
        f = unit.fn("radius_effective")
        file, line = unit.where(f)
        labels, has_default, has_switch = _case_labels(f)
        n = len(modes)
        if has_switch:
            ok = labels == list(range(1, n + 1))
            inst("R-C14-modes", ok, "radius_effective", "case labels %s for %d modes" % (labels, n), line,
                 "modes: %s" % modes if ok else "mode list %s needs cases 1..%d; a missing case silently falls into `default`" % (modes, n),
                 file=file)
        else:
            inst("R-C14-modes", n == 1, "radius_effective", "no switch, %d mode(s)" % n, line, "a single-mode function needs exactly one name", file=file)
        pn = [p["name"] for p in unit.params(f)]
        inst("R-C14-modes", pn[0] == "mode", "radius_effective", "first parameter %s" % pn[0], line, file=file)
        # ---- equivalent volume sphere ---------------------------------------
        for i, name in enumerate(modes, 1):
            if not EQVOL.search(name):
                continue
            args = [sym(p) for p in pn[1:]]
            fv = unit.functions.get("form_volume")
            if fv is None or unit.body(fv) is None:
                inst("R-C14-eqvol", False, "radius_effective", "mode %d %r" % (i, name), line, "no form_volume to compare with", file=file)
                continue
            fv_p = [p["name"] for p in unit.params(fv)]
            facts = {"mode": i}
            got = None
            err = None
            for opaque in (("form_volume",), ()):
                try:
                    it = CInterp(unit.functions, facts=facts, opaque=opaque)
                    got = it.call("radius_effective", [sp.Integer(i)] + args)
                    if opaque:
                        V = sp.Function("form_volume")(*[sym(p) for p in fv_p])
                    else:
                        V = CInterp(unit.functions).call("form_volume", [sym(p) for p in fv_p])
                    if got is not None and V is not None and nf.equal(got ** 3 * 4 * sp.pi / 3, V):
                        err = None
                        break
                    err = "4/3 pi R^3 = %s but form_volume = %s" % (sp.simplify(nf.canon(got ** 3 * 4 * sp.pi / 3)) if got is not None else None, V)
                except AnalysisError as exc:
                    err = "cannot evaluate: %s" % exc
            if err and err.startswith("cannot evaluate"):
                out.append(("R-C14-eqvol", "note", file, "radius_effective", "mode %d %r" % (i, name), line, err))
            else:
                inst("R-C14-eqvol", err is None, "radius_effective", "mode %d %r: 4/3 pi R^3 = form_volume(%s)" % (i, name, ", ".join(fv_p)),
                     line, err or "normal forms agree", file=file)
    # ---- prefactor: the factor on <F^2> is the square of the factor on <F>, up to a pure number ------------
    if unit.meta.get("have_Fq") and "Fq" in unit.functions and unit.body(unit.fn("Fq")) is not None:
        fq = unit.fn("Fq")
        file, line = unit.where(fq)
        pn = [p["name"] for p in unit.params(fq)]
        outs = {}
        argv = []
        for i, p in enumerate(unit.params(fq)):
            qt = p["type"]["qualType"]
            if i in (1, 2):
                argv.append(nf.Ref(outs, "F1" if i == 1 else "F2"))
            elif "*" in qt or "[" in qt:
                argv.append(sym("vec_" + p["name"]))
            else:
                argv.append(sym(p["name"]))
        try:
            it = CInterp(unit.functions, opaque_loops=True, opaque=tuple(
                f for f in unit.functions if f not in ("Fq", "square", "cube") and unit.body(unit.functions[f]) is not None))
            it.call("Fq", argv)
            E1, E2 = outs.get("F1"), outs.get("F2")
            if E1 is None or E2 is None:
                raise AnalysisError("stores to *F1/*F2 not reached")
            accs1 = [a for a in E1.free_symbols if a.name.startswith("acc_")]
            accs2 = [a for a in E2.free_symbols if a.name.startswith("acc_")]
            if len(accs1) == 1 and len(accs2) == 1 and accs1 != accs2:
                a = sp.simplify(E1 / accs1[0])
                b = sp.simplify(E2 / accs2[0])
                clean = not (a.free_symbols | b.free_symbols) & set(accs1 + accs2)
                ratio = sp.simplify(nf.canon(b / a ** 2)) if clean else None
                how = "F1 = (%s)*%s, F2 = (%s)*%s" % (a, accs1[0], b, accs2[0])
            else:
                ratio = sp.simplify(nf.canon(E2 / E1 ** 2))
                clean = True
                how = "F2/F1^2"
            ok = clean and ratio is not None and not ratio.free_symbols
            inst("R-C14-prefactor", ok, "Fq", "prefactor(F2) / prefactor(F1)^2 = %s" % (ratio if ratio is not None else "?"), line,
                 "%s: a pure number, so <F>^2 <= <F^2> cannot be upset by a parameter-dependent factor" % how if ok else
                 "%s: the factor applied to <F^2> is not the square of the factor applied to <F> (ratio depends on %s); "
                 "for some q and parameters <F>^2 exceeds <F^2>" % (how, sorted(str(x) for x in (ratio.free_symbols if ratio is not None else []))),
                 file=file)
        except AnalysisError as exc:
            out.append(("R-C14-prefactor", "note", file, "Fq", "prefactor relation not evaluated", line, str(exc)))
    # ---- interleave (writer side) -------------------------------------------
    if unit.meta.get("have_Fq"):
        k = Kernel(unit, "Iq")
        qacc = {l: r_ for l, r_, n, anc in k.accumulations() if l.startswith(k.p_result + "[")}
        f2 = qacc.get("%s[2*q_index+0]" % k.p_result, "")
        f1 = qacc.get("%s[2*q_index+1]" % k.p_result, "")
        inst("R-C14-interleave", norm(f2) == "weight*F2" and norm(f1) == "weight*F1", "%s:Iq" % unit.name,
             "result[2*q_index+0] += weight*F2; result[2*q_index+1] += weight*F1", k.fn.get("_line", 0),
             "F^2 in even slots, F in odd slots", file="sasmodels/kernel_iq.c")
        calls = k.model_calls(("Fq",))
        if calls:
            a = [norm(c_text(x)) for x in kids(calls[0])[1:4]]
            inst("R-C14-interleave", a == ["qk", "&F1", "&F2"], "%s:Iq" % unit.name, "Fq(%s, ...)" % ", ".join(a), calls[0].get("_line", 0),
                 "amplitude and squared amplitude returned through the 2nd and 3rd argument", file="sasmodels/kernel_iq.c")
            fq = unit.fn("Fq")
            pn = [p["name"] for p in unit.params(fq)][:3]
            inst("R-C14-interleave", [x.upper() for x in pn[1:]] == ["F1", "F2"], "Fq", "Fq(%s, ...)" % ", ".join(pn), fq.get("_line", 0),
                 "model's out-parameters are (F1, F2) in that order", file=unit.where(fq)[0])
    return out


_C = None


def _c_results():
    global _C
    if _C is None:
        modes = {}
        for name, m in tables.models().items():
            ml = m.get("radius_effective_modes")
            if ml:
                modes[name] = ml
        _C = cfront.map_units("sa.rules.c14:analyse_unit", extra={"modes": modes})
        _C["__modes__"] = modes
    return _C


def make_c_rule(rule_id):
    def run(r):
        for unit, rows in sorted(_c_results().items()):
            if unit == "__modes__":
                continue
            for row in rows:
                if row[0] == rule_id:
                    _, status, f, fn, construct, line, detail = row
                    getattr(r, status)(f, "%s:%s" % (unit, fn) if ":" not in fn else fn, construct, line, detail)
    return run


def rule_reader(r):
    from ..pyroles import kernel_fq
    f = "sasmodels/kernel.py"
    k = kernel_fq()
    ret = k["ret"]
    s1 = {str(x) for x in ret[0].free_symbols}
    s2 = {str(x) for x in ret[1].free_symbols}
    r.check("RF1" in s1 and "RF2" not in s1, f, "Kernel.Fq", "<F> from the odd slots result[1:nout*nq:nout]", k["return"].lineno,
            "reader agrees with the C writer (F in odd slots)")
    r.check("RF2" in s2 and "RF1" not in s2, f, "Kernel.Fq", "<F^2> from the even slots result[0:nout*nq:nout]", k["return"].lineno)
    mod = pf.lib("kernel")
    iq = mod.func("Kernel.Iq")
    call = [s_ for s_ in iq.body if isinstance(s_, ast.Assign) and isinstance(s_.value, ast.Call) and pf.call_name(s_.value) == "self.Fq"]
    ok = bool(call) and isinstance(call[0].targets[0], ast.Tuple) and len(call[0].targets[0].elts) == 5
    names = [pf.unparse(e) for e in call[0].targets[0].elts] if ok else []
    rt = [s_ for s_ in iq.body if isinstance(s_, ast.Return)]
    used = pf.names_in(pf.inline_locals(iq, rt[0].value)) if rt else set()
    r.check(ok and names[1] in used and names[3] in used and names[0] not in used - {"_"} and names[4] not in used - {"_"}, f, "Kernel.Iq",
            "I built from the 2nd (<F^2>) and 4th (V_shell) value Fq reports", iq.lineno, "formula in R-C01-norm")
    d = pf.lib("kerneldll")
    ki = d.func("DllKernel.__init__")
    t = pf.unparse(ki)
    r.check("nout = 2 if self.info.have_Fq else 1" in t and "self.result = np.empty(self.q_input.nq * nout + extra_q, dtype)" in t
            and "extra_q = 4" in t, "sasmodels/kerneldll.py", "DllKernel.__init__", "result buffer nq*nout + 4", ki.lineno,
            "room for interleaved F^2,F and the four sums")
    # every model with a mode list has have_Fq or Iq; list the models examined
    modes = _c_results()["__modes__"]
    idx = cfront.generate_units()
    for name in sorted(modes):
        m = idx["models"].get(name, {})
        r.check(m.get("kind") == "c", "sasmodels/models/%s.py" % name, "radius_effective_modes", "%d modes on a compiled model" % len(modes[name]), 0)


def rule_carry(r):
    """The reported <V_shell>, <V_form> and R_eff are the kernel's carried sums (shared with C01 R-C01-carry, Fq kernels):
    a sum restored from the wrong slot changes the reported volume only for meshes spanning several invocations."""
    from . import c01
    res = c01._c_results()
    idx = cfront.generate_units()
    n = 0
    for unit, rows in sorted(res.items()):
        if not idx["models"].get(unit, {}).get("have_Fq"):
            continue
        for row in rows:
            if row[0] == "R-C01-carry" and row[3].endswith(":Iq"):
                _, status, f, fn, construct, line, detail = row
                n += 1
                getattr(r, status)(f, fn, construct, line, detail)
    if n < 100:
        raise AnalysisError("carry rule examined only %d instances" % n)


from . import extra3 as _x3
RULES = [
    ("R-C14-carry", 100, "reported volumes/radius are carried correctly across kernel invocations (shared with C01)", rule_carry),
    ("R-C14-modes", 55, "mode list <-> case labels", make_c_rule("R-C14-modes")),
    ("R-C14-eqvol", 15, "equivalent volume sphere = cbrt(V_form / (4 pi/3))", make_c_rule("R-C14-eqvol")),
    ("R-C14-prefactor", 20, "factor on <F^2> = square of the factor on <F>, up to a constant", make_c_rule("R-C14-prefactor")),
    ("R-C14-interleave", 60, "F^2,F interleave on the writer side", make_c_rule("R-C14-interleave")),
    ("R-C14-reader", 30, "reader side, Iq uses the reported volume", rule_reader),
    ("R-C14-gauss-tables", 9, "quadrature tables are Gauss-Legendre rules on [-1, 1]: weights sum to 2, symmetric; nodes antisymmetric", _x3.rule_gauss_tables),
    ("R-C14-q0", 18, "Fq interpreted symbolically at q = 0: F1^2 = F2 (the two quadratures are normalised alike)", _x3.rule_c14_q0),
    ("R-C14-fastpath", 55, "equality-guarded special branches of model code agree with the general branch at the same point", _x3.rule_c14_fastpath),
    ("R-C14-definite-init", 40, "scalar locals of model code are assigned on every path before they are read", _x3.rule_definit),
    ("R-C14-order-select", 3, "helpers that select smallest / middle / largest of their inputs give the same value for every assignment of ranks to inputs", _x3.rule_c14_ordersel),
    ("R-C14-mode-order", 20, "a half diagonal is at least as long as the half sides / radius it spans (all models)", _x3.rule_c14_modeorder),
    ("R-C14-zero-guard", 4, "a zero test that guards a division tests the divisor, not one factor of it (model code)", _x3.rule_c14_zeroguard),
    ("R-C14-minmax", 18, "min/max effective-radius modes select by the ordering of their own candidates", _x3.rule_c14_minmax),
    ("R-C14-degenerate", 100, "denominators of the radius/volume functions that vanish at equal parameters are guarded", _x3.rule_c14_degenerate),
    ("R-C14-sign", 20, "Fq writes a signed amplitude (no sqrt/fabs) in every have_Fq unit", _x3.make_sign_rule("R-C14-sign")),
]


from . import shared
RULES = RULES + shared.bundle('C14', ['f2i', 'tablebounds', 'intdiv', 'drivers', 'gpu', 'gate', 'restart', 'driver', 'norm', 'loops'], ['kernel'])
from . import folds as _folds
RULES = RULES + [_folds.fold_rule('C14')]
from .. import refs as _refs
RULES = RULES + [_refs.ref_rule('C14')]


def run(tier="quick", replay=None):
    return run_check(
        "C14", RULES, tier=tier, replay=replay,
        explanation="clang AST of every unit's radius_effective: case labels against the literal mode list of the model file; "
                    "symbolic interpretation of the 'equivalent volume sphere' case (form_volume first kept opaque, then "
                    "inlined) compared with cbrt(V/(4pi/3)); writer/reader agreement of the F^2,F interleave. The "
                    "inequalities between <F>^2 and <F^2> are numeric and not decided.",
        assumptions=["form_volume returns the volume the model reports as V_form"])
