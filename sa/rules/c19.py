"""C19 - the SESANS transform is the Hankel transform G(xi) - G(0).

Decided: linearity of apply; H and H0 carry the same weight vector q dq/(2 pi)
(normal form through the in-place updates); log-spaced increasing positive q
grid; acceptance mask polarity; background forced to zero for SESANS data.
Not decided: quadrature accuracy against known Hankel pairs.
"""
import ast
import sympy as sp
from ..report import run_check, AnalysisError
from .. import pyfacts as pf
from .. import nf, effects
from .c03 import _lin_function, LIN

F = "sasmodels/sesans.py"
S = nf.sym


def _strip_methods(node):
    """x.reshape(...) / x.T -> x (shape-only operations)."""
    class T(ast.NodeTransformer):
        def visit_Call(self, n):
            self.generic_visit(n)
            if isinstance(n.func, ast.Attribute) and n.func.attr in ("reshape", "flatten", "ravel"):
                return n.func.value
            return n
        def visit_Attribute(self, n):
            self.generic_visit(n)
            if n.attr == "T":
                return n.value
            return n
    import copy
    return T().visit(copy.deepcopy(node))


def _symbolic_run(fn):
    """Interpret the straight-line NumPy body with in-place updates."""
    env = {}
    funcs = {"outer": lambda a, b: a * b, "j0": lambda x: sp.besselj(0, x), "arcsin": sp.asin,
             "diff": lambda x: sp.Function("np_diff")(x), "insert": lambda a, i, v: sp.Function("np_insert")(a),
             "asarray": lambda x: x}
    masked = {}
    def run(stmts):
        for st in stmts:
            if isinstance(st, ast.Assign) and isinstance(st.targets[0], ast.Name):
                try:
                    env[st.targets[0].id] = nf.py_expr(_strip_methods(nf.strip_broadcast(st.value)), env, funcs)
                except AnalysisError:
                    env[st.targets[0].id] = S(st.targets[0].id)
            elif isinstance(st, ast.Assign) and isinstance(st.targets[0], ast.Tuple) and isinstance(st.value, ast.Tuple):
                for t, v in zip(st.targets[0].elts, st.value.elts):
                    if isinstance(t, ast.Name):
                        env[t.id] = nf.py_expr(_strip_methods(v), env, funcs)
            elif isinstance(st, ast.Assign) and isinstance(st.targets[0], ast.Subscript) \
                    and isinstance(st.targets[0].value, ast.Name):
                masked.setdefault(st.targets[0].value.id, []).append((pf.unparse(st.targets[0].slice), st))
            elif isinstance(st, ast.AugAssign) and isinstance(st.target, ast.Name):
                v = nf.py_expr(_strip_methods(st.value), env, funcs)
                cur = env.get(st.target.id, S(st.target.id))
                if isinstance(st.op, ast.Mult): env[st.target.id] = cur * v
                elif isinstance(st.op, ast.Div): env[st.target.id] = cur / v
                elif isinstance(st.op, ast.Add): env[st.target.id] = cur + v
                elif isinstance(st.op, ast.Sub): env[st.target.id] = cur - v
                else: raise AnalysisError("sesans: in-place operator")
            elif isinstance(st, ast.Expr) and isinstance(st.value, ast.Call):
                c = st.value
                out = [k.value for k in c.keywords if k.arg == "out"]
                if out and isinstance(out[0], ast.Name):
                    short = (pf.call_name(c) or "").split(".")[-1]
                    if short not in funcs:
                        raise AnalysisError("sesans: in-place call %s" % short)
                    env[out[0].id] = funcs[short](*[nf.py_expr(a, env, funcs) for a in c.args])
            elif isinstance(st, ast.With):
                run(st.body)
            elif isinstance(st, ast.If):
                pass   # q range selection: not part of the weight formula
    run(fn.body)
    return env, masked


def rule_linear(r):
    ix = effects.index()
    fn = ix.find("sesans", "SesansTransform.apply")
    if fn is None:
        raise AnalysisError("SesansTransform.apply missing")
    arg = pf.positional_params(fn)[1]
    t = _lin_function(fn, {arg: LIN}, ix, "sesans", "SesansTransform")
    r.check(t == LIN, F, "SesansTransform.apply", "apply(%s) is linear" % arg, fn.lineno, "linearity type %s" % t)
    dot = sp.Function("dot")
    ret = [s_ for s_ in fn.body if isinstance(s_, ast.Return)][0]
    full = _strip_methods(pf.inline_locals(fn, ret.value))
    e2 = nf.py_expr(full, {}, {"dot": lambda a, b: dot(a, b)})
    H, H0, I = S("self._H"), S("self._H0"), S(arg)
    r.check(nf.equal(e2, dot(H, I) - dot(H0, I)), F, "SesansTransform.apply", "return G - G0 = H.I - H0.I", ret.lineno,
            "found %s" % e2)


def rule_weights(r):
    mod = pf.lib("sesans")
    fn = mod.func("SesansTransform._set_hankel")
    env, masked = _symbolic_run(fn)
    q, dq, xi = env.get("q"), env.get("dq"), env.get("SElength")
    if q is None or dq is None:
        raise AnalysisError("_set_hankel: q/dq not found")
    H, H0 = env.get("H"), env.get("H0")
    if H is None or H0 is None:
        raise AnalysisError("_set_hankel: H/H0 not found")
    w = q * dq / (2 * sp.pi)
    r.check(nf.equal(H0, w), F, "SesansTransform._set_hankel", "H0 = q dq / (2 pi)", fn.lineno, "found %s" % H0)
    r.check(nf.equal(H, sp.besselj(0, q * xi) * w), F, "SesansTransform._set_hankel", "H = J0(q xi) q dq / (2 pi)", fn.lineno,
            "found %s" % H)
    ratio = sp.simplify(H / H0)
    r.check(nf.equal(ratio, sp.besselj(0, q * xi)), F, "SesansTransform._set_hankel", "H / H0 = J0(q xi)", fn.lineno,
            "G and G0 are integrated with one and the same weight vector")
    # stored attributes are these arrays
    store = [s for s in fn.body if isinstance(s, ast.Assign) and "self._H" in pf.unparse(s.targets[0])]
    r.check(bool(store) and pf.unparse(store[0].value) in ("(H, H0)", "H, H0") and
            pf.unparse(store[0].targets[0]) in ("(self._H, self._H0)", "self._H, self._H0"), F,
            "SesansTransform._set_hankel", "self._H, self._H0 = H, H0", store[0].lineno if store else 0)
    qc = [s for s in fn.body if isinstance(s, ast.Assign) and pf.unparse(s.targets[0]) == "self.q_calc"]
    r.check(bool(qc) and pf.unparse(qc[0].value) == "q", F, "SesansTransform._set_hankel", "self.q_calc = q",
            qc[0].lineno if qc else 0, "theory is requested on the grid the weights were built for")
    return env, masked


def rule_grid(r):
    mod = pf.lib("sesans")
    fn = mod.func("SesansTransform._set_hankel")
    qs = [s for s in fn.body if isinstance(s, ast.Assign) and pf.unparse(s.targets[0]) == "q"]
    if not qs:
        raise AnalysisError("_set_hankel: q grid not found")
    v = qs[0].value
    ok = isinstance(v, ast.Call) and pf.call_name(v) == "np.exp" and isinstance(v.args[0], ast.Call) \
        and pf.call_name(v.args[0]) == "np.arange" and len(v.args[0].args) == 3 \
        and [pf.unparse(a) for a in v.args[0].args] == ["np.log(q_min)", "np.log(q_max)", "np.log(self.log_spacing)"]
    r.check(ok, F, "SesansTransform._set_hankel", pf.unparse(qs[0]), qs[0].lineno,
            "q = exp(arange(log qmin, log qmax, log s)): positive and increasing iff s > 1")
    init = mod.func("SesansTransform.__init__")
    d = dict(zip(pf.positional_params(init)[-len(init.args.defaults):], init.args.defaults))
    ls = pf.const_value(d.get("log_spacing")) if "log_spacing" in d else None
    r.check(ls is not None and ls > 1.0, F, "SesansTransform.__init__", "log_spacing=%s" % ls, init.lineno, "ratio > 1")
    # dq: differences with the first duplicated
    dqs = [s for s in fn.body if isinstance(s, ast.Assign) and pf.unparse(s.targets[0]) == "dq"]
    r.check(len(dqs) == 2 and pf.unparse(dqs[0].value) == "np.diff(q)" and pf.unparse(dqs[1].value) == "np.insert(dq, 0, dq[0])",
            F, "SesansTransform._set_hankel", "dq = diff(q) with first element duplicated", dqs[0].lineno if dqs else 0)
    # acceptance mask
    env, masked = _symbolic_run(fn)
    m = [s for s in fn.body if isinstance(s, ast.Assign) and pf.unparse(s.targets[0]) == "mask"]
    r.check(bool(m) and pf.unparse(m[0].value) == "~(reptheta <= zaccept)", F, "SesansTransform._set_hankel",
            pf.unparse(m[0]) if m else "mask", m[0].lineno if m else 0,
            "points beyond the acceptance, and unreachable ones (NaN), are excluded")
    hm = masked.get("H", [])
    r.check(any(k == "mask" and pf.const_value(st.value) == 0 for k, st in hm), F, "SesansTransform._set_hankel",
            "H[mask] = 0", hm[0][1].lineno if hm else 0, "masked contributions removed from G only (G0 keeps the full weight)")
    rt = env.get("reptheta")
    q, lam = env.get("q"), S("lam")
    r.check(rt is not None and nf.equal(rt, sp.asin(q * lam / (2 * sp.pi))), F, "SesansTransform._set_hankel",
            "theta = arcsin(q lambda / 2 pi)", fn.lineno, "found %s" % rt)
    # direct_model: background is zero for sesans; transform construction
    dm = pf.lib("direct_model")
    ct = dm.func("DataMixin._calc_theory")
    bg = [s for s in pf.walk_stmts(ct) if isinstance(s, ast.Assign) and pf.unparse(s.targets[0]) == "background"]
    okb = bool(bg) and isinstance(bg[0].value, ast.IfExp) and pf.unparse(bg[0].value.test) == "self.data_type != 'sesans'" \
        and pf.const_value(bg[0].value.orelse) == 0
    r.check(okb, "sasmodels/direct_model.py", "DataMixin._calc_theory", pf.unparse(bg[0]) if bg else "background", bg[0].lineno if bg else 0,
            "no background is added to a SESANS correlation")
    mk = dm.func("_make_sesans_transform")
    calls = [c for c in pf.calls_in(mk) if pf.call_name(c) == "sesans.SesansTransform"]
    okc = bool(calls) and [pf.unparse(a) for a in calls[0].args] == ["data.x", "SElength", "wavelength", "zaccept", "Rmax"]
    r.check(okc, "sasmodels/direct_model.py", "_make_sesans_transform", pf.unparse(calls[0]) if calls else "?", mk.lineno,
            "arguments in the order (z, SElength, lam, zaccept, Rmax) of the constructor")
    init_p = pf.positional_params(init)[1:6]
    r.check(init_p == ["z", "SElength", "lam", "zaccept", "Rmax"], F, "SesansTransform.__init__", "signature %s" % init_p, init.lineno)
    za = [s for s in mk.body if isinstance(s, ast.Assign) and pf.unparse(s.targets[0]) == "zaccept"]
    if za:
        e = nf.py_expr(za[0].value, {}, {"max": lambda x: sp.Function("np_max")(x)})
        want = 2 * sp.pi / sp.Function("np_max")(S("wavelength")) * sp.sin(S("theta_max"))
        r.check(nf.equal(e, want), "sasmodels/direct_model.py", "_make_sesans_transform", pf.unparse(za[0]), za[0].lineno,
                "acceptance q = 2 pi sin(theta_max) / lambda_max")


def rule_fresh(r):
    """The transform arrays are computed from the constructor arguments on every construction: sesans.py keeps no
    module-level mutable state that an evaluation reads or writes (shared with C11 R-C11-globals)."""
    mod = pf.lib("sesans")
    module_names = {}
    for st in mod.tree.body:
        if isinstance(st, (ast.Assign, ast.AnnAssign)):
            tg = st.targets if isinstance(st, ast.Assign) else [st.target]
            for t in tg:
                if isinstance(t, ast.Name) and st.value is not None and isinstance(st.value, (ast.Dict, ast.List, ast.Set, ast.Call)):
                    if isinstance(st.value, ast.Call) and (pf.call_name(st.value) or "") not in ("dict", "list", "set", "OrderedDict", "collections.OrderedDict", "defaultdict"):
                        continue
                    module_names[t.id] = st
    n = 0
    for qual, fn in sorted(mod.functions.items()):
        if not qual.startswith("SesansTransform."):
            continue
        local = set(pf.params(fn))
        for st in pf.walk_stmts(fn):
            local |= pf.assigned_names(st)
        for st in pf.walk_stmts(fn):
            for node in pf.own_exprs(st):
                if isinstance(node, ast.Name) and node.id in module_names and node.id not in local:
                    n += 1
                    r.violation(F, qual, "module-level container %s used in `%s`" % (node.id, pf.unparse(st)[:60]), st.lineno,
                                "a transform taken from or stored in module state depends on what was constructed before; "
                                "unless the key covers every argument, another data set's matrix is returned")
        r.ok(F, qual, "no module-level container consulted", fn.lineno)
    # H, H0, q_calc stored on self are the locals computed in this call
    sh = mod.func("SesansTransform._set_hankel")
    rets = [s_ for s_ in pf.walk_stmts(sh) if isinstance(s_, ast.Return)]
    r.check(not rets, F, "SesansTransform._set_hankel", "single exit at the end (no early return with other arrays)", sh.lineno,
            "%d early returns" % len(rets))


RULES = [
    ("R-C19-fresh", 4, "transform built afresh from its arguments", rule_fresh),
    ("R-C19-linear", 2, "apply is linear and equals H.I - H0.I", rule_linear),
    ("R-C19-weights", 5, "H and H0 share the weight vector q dq / 2 pi", rule_weights),
    ("R-C19-grid", 10, "grid, mask polarity, background and construction", rule_grid),
]


from . import shared
RULES = RULES + shared.bundle('C19', ['pymodel'], ['sesans', 'direct_model'])
from . import folds as _folds
RULES = RULES + [_folds.fold_rule('C19')]
from .. import refs as _refs
RULES = RULES + [_refs.ref_rule('C19')]


def run(tier="quick", replay=None):
    return run_check(
        "C19", RULES, tier=tier, replay=replay,
        explanation="Normal forms through the in-place NumPy updates of SesansTransform._set_hankel (j0(H, out=H), H *= ...) "
                    "compared with J0(q xi) q dq/2pi and q dq/2pi; linearity typing of apply; structural checks of the "
                    "log grid, acceptance mask and the SESANS branch of direct_model. Quadrature accuracy is not decided.",
        assumptions=["np.outer(q, xi) read as the product q*xi elementwise", "shape-only operations (reshape, .T) ignored"])
