"""C17 - the compiled-model cache reflects the current sources.

Decided: (key) the cached library name depends on everything the compiled text
depends on (whole generated source via CRC32, dtype bits, model id) and the
compiled text depends on nothing else; (assemble) every piece make_source
concatenates is read at call time or through an mtime-guarded cache and reaches
the returned string; (module) need_reload compares the stamp with the mtime of
every dependency, which include the file and its C sources.
Not decided: behaviour over concrete edit histories (follows from the shape);
CRC32 collisions (trusted base).
"""
import ast
from ..report import run_check, AnalysisError
from .. import pyfacts as pf

K = "sasmodels/kerneldll.py"
G = "sasmodels/generate.py"
C = "sasmodels/custom/__init__.py"


def _roots(fn, expr, stop_line=None):
    """Backward slice over simple assignments: parameter / free names an expression depends on.
    Flow-insensitive except that only definitions textually before the use are followed."""
    params = set(pf.params(fn))
    assigns = [s for s in pf.walk_stmts(fn) if isinstance(s, (ast.Assign, ast.AugAssign))]
    seen, roots = set(), set()
    def visit(node, line):
        for n in ast.walk(node):
            if isinstance(n, ast.Name) and isinstance(n.ctx, ast.Load):
                key = (n.id, line)
                if key in seen:
                    continue
                seen.add(key)
                defs = [s for s in assigns if n.id in pf.assigned_names(s) and s.lineno < line]
                if n.id in params:
                    roots.add(n.id)
                if defs:
                    for d in defs:
                        visit(d.value, d.lineno)
                elif n.id not in params:
                    roots.add(n.id)
            elif isinstance(n, ast.Attribute) and isinstance(n.value, ast.Name) and n.value.id in params:
                roots.add(pf.dotted(n))
    visit(expr, stop_line if stop_line is not None else getattr(expr, "lineno", 10**9))
    return roots


def rule_key(r):
    mod = pf.lib("kerneldll")
    fn = mod.func("make_dll")
    rets = [s for s in pf.walk_stmts(fn) if isinstance(s, ast.Return)]
    if not rets:
        raise AnalysisError("make_dll: no return")
    key_roots = _roots(fn, rets[0].value, rets[0].lineno)
    noise = {"generate", "SAS_DLL_PATH", "os", "F16", "F32", "F64", "ALLOW_SINGLE_PRECISION_DLLS", "dll_path", "joinpath"}
    kr = key_roots - noise
    r.check({"source", "dtype"} <= kr and ("model_info.id" in kr or "model_info" in kr), K, "make_dll",
            "cache path depends on %s" % sorted(kr), rets[0].lineno, "must include the generated source, the dtype and the model id")
    # tag over the whole source
    tags = [c for c in pf.calls_in(fn) if (pf.call_name(c) or "").endswith("tag_source")]
    if not tags:
        r.violation(K, "make_dll", "tag_source(source) in the library name", fn.lineno,
                    "the library name does not include a digest of the generated source: stale libraries are reused")
    else:
        a = tags[0].args[0]
        P = pf.positional_params(fn)[0]
        first_rebind = min([s.lineno for s in pf.walk_stmts(fn) if isinstance(s, ast.Assign) and P in pf.assigned_names(s)] + [10**9])
        r.check(isinstance(a, ast.Name) and a.id == P and tags[0].lineno < first_rebind, K, "make_dll",
                "tag_source(%s)" % pf.unparse(a), tags[0].lineno,
                "digest of the complete generated source as passed in (not a slice, not the model id)")
    g = pf.lib("generate")
    ts = g.func("tag_source")
    crc = [c for c in pf.calls_in(ts) if (pf.call_name(c) or "").endswith("crc32")]
    P = pf.positional_params(ts)[0]
    ok = bool(crc) and isinstance(crc[0].args[0], ast.Name) and crc[0].args[0].id == P
    enc = [s for s in pf.walk_stmts(ts) if isinstance(s, ast.Assign) and P in pf.assigned_names(s)]
    ok = ok and all(pf.unparse(s.value) == "%s.encode('utf8')" % P for s in enc)
    r.check(ok, G, "tag_source", "crc32 over the entire argument", ts.lineno, "no truncation or sub-selection before hashing")
    # compiled text depends only on (source, dtype)
    writes = [c for c in pf.calls_in(fn) if isinstance(c.func, ast.Attribute) and c.func.attr == "write"]
    if not writes:
        raise AnalysisError("make_dll: write of the C text not found")
    for w in writes:
        roots = _roots(fn, w.args[0], w.lineno) - noise
        r.check(roots <= {"source", "dtype"}, K, "make_dll", "compiled text %s depends on %s" % (pf.unparse(w.args[0]), sorted(roots)),
                w.lineno, "everything the text depends on is part of the cache name")
    # ... transitively: the functions that turn the hashed source into the compiled text (convert_type and what it calls in
    # generate.py) read no module-level value that can differ between two processes or two moments - a module global that
    # some module of the package rebinds (`generate.PROJECTION = ...` in jitter.py), os.environ, a file.  Such a value
    # changes the compiled text without changing the library name.
    import glob as _glob, os as _os
    rebound = {}
    for path in sorted(_glob.glob(_os.path.join(pf.REPO, "sasmodels", "*.py"))):
        m2 = pf.module("sasmodels/" + _os.path.basename(path))
        for n in ast.walk(m2.tree):
            tg = []
            if isinstance(n, ast.Assign):
                tg = n.targets
            elif isinstance(n, ast.AugAssign):
                tg = [n.target]
            for t in tg:
                if isinstance(t, ast.Attribute) and isinstance(t.value, ast.Name) and t.value.id == "generate":
                    rebound.setdefault(t.attr, "%s:%d" % (m2.relpath, n.lineno))
        if m2.relpath.endswith("/generate.py"):
            for fq, fdef in m2.functions.items():
                for n in ast.walk(fdef):
                    if isinstance(n, ast.Global):
                        for nm_ in n.names:
                            rebound.setdefault(nm_, "%s:%s (global statement)" % (m2.relpath, fq))
    gmod_names = {t.id for st_ in g.tree.body if isinstance(st_, ast.Assign) for t in st_.targets if isinstance(t, ast.Name)}
    seen, work = set(), []
    for c in pf.calls_in(fn):
        cn_ = pf.call_name(c) or ""
        if cn_.startswith("generate.") and cn_.split(".")[-1] != "tag_source" and g.has(cn_.split(".")[-1]):
            work.append(cn_.split(".")[-1])
    n_fn = 0
    while work:
        q = work.pop()
        if q in seen or not g.has(q):
            continue
        seen.add(q)
        fdef = g.func(q)
        n_fn += 1
        local = {a.arg for a in fdef.args.args} | {x.id for x in ast.walk(fdef) if isinstance(x, ast.Name) and isinstance(x.ctx, ast.Store)}
        bad = []
        for x in ast.walk(fdef):
            if isinstance(x, ast.Name) and isinstance(x.ctx, ast.Load) and x.id not in local:
                if x.id in rebound and x.id in gmod_names:
                    bad.append("%s (rebound at %s)" % (x.id, rebound[x.id]))
            if isinstance(x, ast.Attribute) and pf.unparse(x) in ("os.environ", "environ"):
                bad.append("os.environ")
            if isinstance(x, ast.Call):
                cn = pf.call_name(x) or ""
                if cn in ("open", "getmtime", "os.getenv", "getenv") or cn.split(".")[-1] in ("read_text", "load_template"):
                    bad.append("%s(...)" % cn)
                if g.has(cn.split(".")[-1]):
                    work.append(cn.split(".")[-1])
        r.check(not bad, G, q, "text produced after the cache name is fixed reads only its arguments and constants", fdef.lineno,
                "pure function of (source, dtype)" if not bad else
                "reads %s: the compiled text then depends on a value that is not part of the library name, so builds made "
                "under different values share one cache entry" % ", ".join(sorted(set(bad))))
    if n_fn < 2:
        raise AnalysisError("make_dll: conversion pipeline after the cache name not found")
    # dll_name carries the bits
    dn = mod.func("dll_name")
    txt = pf.unparse(dn)
    r.check("bits = 8 * dtype.itemsize" in txt and "'sas%d_%s' % (bits, model_file)" in txt, K, "dll_name",
            "basename = 'sas%d_%s' % (bits, model_file)", dn.lineno, "precision and tagged model name both in the file name")
    dp = mod.func("dll_path")
    r.check("dll_name(model_file, dtype)" in pf.unparse(dp), K, "dll_path", "dll_name(model_file, dtype)", dp.lineno)
    # dtype adjustments happen before the name is computed
    cfg = pf.cfg(fn)
    rebinding = [s for s in cfg.stmts() if isinstance(s, ast.Assign) and "dtype" in pf.assigned_names(s)]
    name_st = [s for s in cfg.stmts() if isinstance(s, ast.Assign) and any((pf.call_name(c) or "") == "dll_path" for c in pf.calls_in(s))]
    for s in rebinding:
        r.check(bool(name_st) and s.lineno < name_st[0].lineno, K, "make_dll", pf.unparse(s), s.lineno,
                "dtype is final before the cache name is derived")
    # load path: DllModel gets make_dll's result with the same dtype; core.build_model passes make_source()['dll']
    core = pf.lib("core")
    bm = core.func("build_model")
    txt = pf.unparse(bm)
    r.check("generate.make_source(model_info)" in txt and "kerneldll.load_dll(source['dll'], model_info, numpy_dtype)" in txt,
            "sasmodels/core.py", "build_model", "source regenerated on every build and handed to load_dll", bm.lineno,
            "no source text is cached between builds")


def rule_assemble(r):
    g = pf.lib("generate")
    ms = g.func("make_source")
    txt = pf.unparse(ms)
    need = {
        "kernel_header = load_template('kernel_header.c')": "header template read through the mtime-guarded cache",
        "kernel_code = load_template('kernel_iq.c')": "kernel template read through the mtime-guarded cache",
        "user_code = [(f, read_text(f)) for f in model_sources(model_info)]": "every included C file read at call time",
    }
    for k, why in need.items():
        r.check(k in txt, G, "make_source", k, ms.lineno, why)
    flows = {
        "_add_source(source, *kernel_header)": "header reaches the source list",
        "_add_source(source, code, path)": "included files reach the source list",
        "_add_source(source, model_info.c_code, model_info.basefile": "inline c_code reaches the source list",
        "_kernels(kernel_code, call_iq, clear_iq, call_iqxy, clear_iqxy, model_info.name)": "kernel template instantiated",
    }
    for k, why in flows.items():
        r.check(k in txt, G, "make_source", k, ms.lineno, why)
    code = [s for s in pf.walk_stmts(ms) if isinstance(s, ast.Assign) and pf.unparse(s.targets[0]) == "code"]
    ok = bool(code) and pf.unparse(code[0].value) == "'\\n'.join(source + wrappers[0] + wrappers[1] + wrappers[2])"
    r.check(ok, G, "make_source", pf.unparse(code[0]) if code else "code = ...", code[0].lineno if code else 0,
            "returned text = everything appended + the three kernel instantiations")
    ret = [s for s in pf.walk_stmts(ms) if isinstance(s, ast.Return)]
    r.check(any("'dll': code" in pf.unparse(s) for s in pf.walk_stmts(ms)), G, "make_source", "result = {'dll': code, ...}", ms.lineno)
    # _kernels uses the template text in all three variants
    kf = g.func("_kernels")
    n = pf.unparse(kf).count("code,") + pf.unparse(kf).count("code]")
    uses = sum(1 for x in ast.walk(kf) if isinstance(x, ast.Name) and x.id == "code" and isinstance(x.ctx, ast.Load))
    r.check(uses >= 3, G, "_kernels", "template text used in %d kernel variants" % uses, kf.lineno)
    # load_template: fresh mtime each call, reuse only when not newer
    lt = g.func("load_template")
    cfg = pf.cfg(lt)
    mt = [s for s in cfg.stmts() if isinstance(s, ast.Assign) and pf.unparse(s.targets[0]) == "mtime"]
    guard = [s for s in cfg.stmts() if isinstance(s, ast.If) and "_template_cache" in pf.unparse(s.test)]
    ok = bool(mt and guard) and pf.unparse(mt[0].value) == "getmtime(path)" and cfg.dominates(mt[0], guard[0])
    r.check(ok, G, "load_template", "mtime = getmtime(path) on every call", mt[0].lineno if mt else 0)
    if guard:
        t = pf.unparse(guard[0].test)
        r.check(t == "filename not in _template_cache or mtime > _template_cache[filename][0]", G, "load_template",
                "if %s" % t, guard[0].lineno, "cached text reused only when the file is not newer than the cached stamp")
        body = pf.unparse(ast.Module(body=guard[0].body, type_ignores=[]))
        r.check("_template_cache[filename] = (mtime, fid.read(), path)" in body, G, "load_template",
                "cache stores the stamp together with the text", guard[0].lineno)
    rt = g.func("read_text")
    r.check("open(f)" in pf.unparse(rt) and "read()" in pf.unparse(rt), G, "read_text", "reads the file on every call", rt.lineno)
    # model_sources resolves every entry of model_info.source
    msrc = g.func("model_sources")
    r.check("[_search(search_path, f) for f in model_info.source]" in pf.unparse(msrc), G, "model_sources",
            "every declared source is resolved (missing file raises)", msrc.lineno)


def rule_module(r):
    mod = pf.module(C)
    nr = mod.func("need_reload")
    txt = pf.unparse(nr)
    r.check("any((cache_time < os.path.getmtime(p) for p in depends))" in txt, C, "need_reload",
            "any(cache_time < getmtime(p) for p in depends)", nr.lineno, "a newer stamp on any dependency forces a reload")
    r.check("(_, cache_time) = _MODULE_CACHE.get(path, (None, -1))" in txt or "_, cache_time = _MODULE_CACHE.get(path, (None, -1))" in txt,
            C, "need_reload", "unknown path -> stamp -1 (always load)", nr.lineno)
    r.check("depends = _MODULE_DEPENDS.get(path, [path])" in txt, C, "need_reload", "dependencies default to the file itself", nr.lineno)
    ld = mod.func("load_custom_kernel_module")
    cfg = pf.cfg(ld)
    guard = [s for s in cfg.stmts() if isinstance(s, ast.If) and pf.unparse(s.test) == "need_reload(path)"]
    r.check(bool(guard), C, "load_custom_kernel_module", "if need_reload(path): (re)load", ld.lineno)
    body = pf.unparse(ast.Module(body=guard[0].body, type_ignores=[])) if guard else ""
    r.check("_MODULE_DEPENDS[path] = set([path])" in body, C, "load_custom_kernel_module", "dependencies start with the file itself", ld.lineno)
    r.check("_MODULE_DEPENDS[path].update(_find_sources(path, c_sources))" in body and "c_sources = getattr(module, 'source', None)" in body,
            C, "load_custom_kernel_module", "C sources listed by the module are added as dependencies", ld.lineno)
    r.check("timestamp = max((os.path.getmtime(f) for f in _MODULE_DEPENDS[path]))" in body and
            "_MODULE_CACHE[path] = (module, timestamp)" in body, C, "load_custom_kernel_module",
            "stamp = newest mtime over all dependencies, stored with the module", ld.lineno)
    rets = [s for s in cfg.stmts() if isinstance(s, ast.Return)]
    r.check(bool(rets) and pf.unparse(rets[-1].value) == "_MODULE_CACHE[path][0]", C, "load_custom_kernel_module",
            "returns the cached (possibly just reloaded) module", rets[-1].lineno if rets else 0)
    lm = [f for q, f in mod.functions.items() if q.endswith("load_module_from_path")]
    if not lm:
        raise AnalysisError("load_module_from_path missing")
    for f in lm:
        t = pf.unparse(f)
        if "sys.modules" in t:
            r.check("del sys.modules[fullname]" in t, C, "load_module_from_path", "old definition removed from sys.modules", f.lineno,
                    "a reload executes the current file text")
    fs = mod.func("_find_sources")
    t = pf.unparse(fs)
    r.check("root = dirname(path)" in t and "exists" in t, C, "_find_sources", "sources located next to the module file", fs.lineno)
    # core.load_model_info goes through the custom loader for plugin models
    core = pf.lib("core")
    li = core.func("load_model_info")
    r.check("custom.load_custom_kernel_module(model_path)" in pf.unparse(li), "sasmodels/core.py", "load_model_info",
            "plugin models loaded through load_custom_kernel_module", li.lineno)
    g = pf.lib("generate")
    lk = g.func("load_kernel_module")
    r.check("load_custom_kernel_module(model_name)" in pf.unparse(lk) and "endswith('.py')" in pf.unparse(lk), G,
            "load_kernel_module", "path-named models loaded through load_custom_kernel_module", lk.lineno)


RULES = [
    ("R-C17-key", 8, "cache name depends on everything the compiled text depends on", rule_key),
    ("R-C17-assemble", 14, "assembled pieces are fresh or mtime-guarded and all reach the result", rule_assemble),
    ("R-C17-module", 11, "module reload covers all dependencies", rule_module),
]
from .. import refs as _refs
RULES = RULES + [_refs.ref_rule('C17')]
from . import c18 as _c18, shared as _sh17
RULES = RULES + [("R-C17-publish", 8, "a library under the cache name is always a complete build of the named source (C18's publish rule)", _sh17._relabel(_c18.rule_publish, "R-C17-publish")),
                 ("R-C17-load", 4, "the loader opens only the published path", _sh17._relabel(_c18.rule_load, "R-C17-load"))]


def run(tier="quick", replay=None):
    return run_check(
        "C17", RULES, tier=tier, replay=replay,
        explanation="Def-use (backward slice over assignments) in kerneldll.make_dll for the cache name and the written text; "
                    "structural rules on generate.make_source/load_template/tag_source and custom.load_custom_kernel_module/"
                    "need_reload: freshness of every read, mtime guards, dependency sets. Edit histories themselves are not "
                    "executed.",
        assumptions=["CRC32 of the full text distinguishes the texts in play (collisions not considered)",
                     "file modification times advance on edit, as the property states"])
