"""C04 - smeared values converge to the documented resolution integrals.

Decided (formula agreement only, via normal forms): erf bin-mass argument,
n-sigma window, slit u-substitution bins and prefactors, 2-D ring mass and
polar rotation.  Not decided: convergence, its rate, and any error bound.
"""
import ast
import sympy as sp
from ..report import run_check, AnalysisError
from .. import pyfacts as pf
from .. import nf

R = "sasmodels/resolution.py"
R2 = "sasmodels/resolution2d.py"
S = nf.sym


def _assign(fn, name):
    out = [s for s in pf.walk_stmts(fn) if isinstance(s, ast.Assign) and pf.unparse(s.targets[0]) == name]
    if not out:
        raise AnalysisError("%s: assignment to %s not found" % (fn.name, name))
    return out


def rule_erf(r):
    mod = pf.lib("resolution")
    fn = mod.func("pinhole_resolution")
    st = _assign(fn, "cdf")[0]
    e = nf.py_expr(nf.strip_broadcast(st.value), {})
    ok = e.func == sp.erf
    want = (S("edges") - S("q")) / (sp.sqrt(2) * S("q_width"))
    r.check(ok and nf.equal(e.args[0], want), R, "pinhole_resolution", pf.unparse(st), st.lineno,
            "bin masses come from erf((edge - q)/(sqrt(2) sigma)), the Gaussian cdf up to affine constants"
            if ok else "cdf is not an erf")
    ed = _assign(fn, "edges")[0]
    r.check(pf.unparse(ed.value) == "bin_edges(q_calc)", R, "pinhole_resolution", pf.unparse(ed), ed.lineno,
            "edges are the bin edges of the calculation grid")
    # bin_edges: midpoints, extrapolated half intervals at both ends
    be = mod.func("bin_edges")
    hs = [c for c in pf.calls_in(be) if pf.call_name(c) in ("np.hstack", "hstack")]
    if not hs:
        raise AnalysisError("bin_edges: hstack not found")
    elts = hs[0].args[0].elts
    env = {}
    got = [nf.py_expr(nf.strip_broadcast(e), env) for e in elts]
    ref = lambda text: nf.py_expr(ast.parse(text, mode="eval").body, env)
    want0 = ref("x[0] - (x[1] - x[0])/2")
    want2 = ref("x[-1] + (x[-1] - x[-2])/2")
    r.check(nf.equal(got[0], want0), R, "bin_edges", pf.unparse(elts[0]), be.lineno, "first edge = x0 - (x1-x0)/2")
    r.check(nf.equal(got[2], want2), R, "bin_edges", pf.unparse(elts[2]), be.lineno, "last edge = xn + (xn-xn-1)/2")
    mid = ref("(x[1:] + x[:-1])/2")
    r.check(nf.equal(got[1], mid), R, "bin_edges", pf.unparse(elts[1]), be.lineno, "interior edges are midpoints")


def rule_window(r):
    mod = pf.lib("resolution")
    v = mod.module_assign("PINHOLE_N_SIGMA")
    r.check(pf.const_value(v) == (2.5, 3.0), R, "<module>", "PINHOLE_N_SIGMA = %s" % pf.unparse(v), v.lineno,
            "documented window [-2.5 sigma, +3 sigma]")
    fn = mod.func("pinhole_resolution")
    env = nf.straightline_env(fn.body)
    q, dq = S("q"), S("q_width")
    lo, hi = env.get("nsigma_low"), env.get("nsigma_high")
    st_lo, st_hi = _assign(fn, "qlow")[0], _assign(fn, "qhigh")[0]
    r.check(nf.equal(env["qlow"], q - S("nsigma_low") * dq), R, "pinhole_resolution", pf.unparse(st_lo), st_lo.lineno,
            "lower limit q - n_low sigma")
    r.check(nf.equal(env["qhigh"], q + S("nsigma_high") * dq), R, "pinhole_resolution", pf.unparse(st_hi), st_hi.lineno,
            "upper limit q + n_high sigma")
    # unpack order (low, high)
    tries = [s for s in fn.body if isinstance(s, ast.Try)]
    ok = bool(tries) and pf.unparse(tries[0].body[0]) in ("(nsigma_low, nsigma_high) = nsigma", "nsigma_low, nsigma_high = nsigma")
    r.check(ok, R, "pinhole_resolution", "nsigma_low, nsigma_high = nsigma", tries[0].lineno if tries else 0,
            "tuple order is (low, high)")
    # the truncation masks: below qlow and above qhigh are zeroed (strict comparisons keep the end points)
    stores = [s for s in pf.walk_stmts(fn) if isinstance(s, ast.Assign) and isinstance(s.targets[0], ast.Subscript)
              and pf.unparse(s.targets[0].value) == "weights"]
    masks = sorted(pf.unparse(nf.strip_broadcast(s.targets[0].slice)) for s in stores)
    r.check(masks == ["q_calc < qlow", "q_calc > qhigh"], R, "pinhole_resolution", "truncation masks %s" % masks,
            stores[0].lineno if stores else 0, "weights outside [qlow, qhigh] are removed")
    for s in stores:
        r.check(pf.const_value(s.value) == 0, R, "pinhole_resolution", pf.unparse(s), s.lineno, "set to zero")
    # 2-D truncation: NSIGMA = 3
    m2 = pf.lib("resolution2d")
    v2 = m2.module_assign("NSIGMA")
    r.check(pf.const_value(v2) == 3.0, R2, "<module>", "NSIGMA = %s" % pf.unparse(v2), v2.lineno, "2-D Gaussian truncated at 3 sigma")
    dm = pf.lib("direct_model").func("DataMixin._interpret_data")
    calls = [c for c in pf.calls_in(dm) if pf.call_name(c) == "resolution2d.Pinhole2D"]
    r.check(bool(calls) and any(k.arg == "nsigma" and pf.const_value(k.value) == 3.0 for k in calls[0].keywords),
            "sasmodels/direct_model.py", "DataMixin._interpret_data", "Pinhole2D(..., nsigma=3.0, ...)",
            calls[0].lineno if calls else 0)


def rule_slit_u(r):
    mod = pf.lib("resolution")
    fn = mod.func("_q_perp_weights")
    P = pf.positional_params(fn)
    if len(P) != 3:
        raise AnalysisError("_q_perp_weights: expected (edges, q, width)")
    QE, QI, WW = P
    qe, qi, w = S(QE), S(QI), S(WW)
    ret = [s_ for s_ in fn.body if isinstance(s_, ast.Return)]
    if not ret or not isinstance(ret[0].value, ast.Name):
        raise AnalysisError("_q_perp_weights: return of a name expected")
    # roles: U = the array that is masked and square-rooted; LIM = the name compared with the edges in the upper mask
    stores = [s_ for s_ in fn.body if isinstance(s_, ast.Assign) and isinstance(s_.targets[0], ast.Subscript)]
    if not stores:
        raise AnalysisError("_q_perp_weights: clipping stores not found")
    U = pf.unparse(stores[0].targets[0].value)
    env = nf.straightline_env(fn.body)
    ust = _assign(fn, U)[0]
    r.check(nf.equal(nf.py_expr(ust.value, {}), qe**2 - qi**2), R, "_q_perp_weights", pf.unparse(ust), ust.lineno, "u^2 = q'^2 - q^2")
    low = high = None
    for s_ in stores:
        m = s_.targets[0].slice
        if isinstance(m, ast.Compare) and pf.unparse(m.left) == QE and len(m.ops) == 1:
            bound = nf.py_expr(m.comparators[0], env, {"abs": sp.Abs})
            val = nf.py_expr(s_.value, env)
            if isinstance(m.ops[0], ast.Lt):
                low = (bound, val, s_)
            elif isinstance(m.ops[0], ast.Gt):
                high = (bound, val, s_)
    r.check(low is not None and nf.equal(low[0], sp.Abs(qi)) and low[1] == 0, R, "_q_perp_weights", "%s[%s < |%s|] = 0" % (U, QE, QI),
            low[2].lineno if low else fn.lineno, "clip below at u = 0")
    r.check(high is not None and nf.equal(high[0], sp.sqrt(qi**2 + w**2)), R, "_q_perp_weights", "upper mask at %s > sqrt(%s^2 + %s^2)" % (QE, QI, WW),
            high[2].lineno if high else fn.lineno, "upper limit of q' is sqrt(q^2 + w^2)")
    r.check(high is not None and nf.equal(high[1], w**2), R, "_q_perp_weights", "%s[%s > limit] = limit^2 - %s^2" % (U, QE, QI),
            high[2].lineno if high else fn.lineno, "clip above at u^2 = w^2 (found %s)" % (high[1] if high else None))
    wst = _assign(fn, ret[0].value.id)[0]
    e = nf.py_expr(wst.value, {})
    want = sp.Function("np_diff")(sp.sqrt(S(U))) / w
    r.check(nf.equal(e, want), R, "_q_perp_weights", pf.unparse(wst), wst.lineno, "W = delta(u)/w: the 1/L prefactor of (1/L) int_0^L")
    # slit_resolution branches
    sr = mod.func("slit_resolution")
    loop = [s for s in sr.body if isinstance(s, ast.For)][0]
    chain = []
    cur = [s for s in loop.body if isinstance(s, ast.If)][0]
    while True:
        chain.append((pf.unparse(cur.test), cur.body))
        if len(cur.orelse) == 1 and isinstance(cur.orelse[0], ast.If):
            cur = cur.orelse[0]
        else:
            chain.append(("else", cur.orelse))
            break
    tests = [t for t, _ in chain]
    r.check(tests == ["w == 0.0 and l == 0.0", "l == 0", "w == 0", "else"], R, "slit_resolution", "branches %s" % tests,
            loop.lineno, "perfect / length-only(sqrt) / width-only(+-) / both")
    bodies = dict(chain)
    # l == 0: perpendicular weights with (q_edges, qi, w)
    b = bodies.get("l == 0", [])
    edges_var = [pf.unparse(s_.targets[0]) for s_ in sr.body if isinstance(s_, ast.Assign) and pf.unparse(s_.value) == "bin_edges(q_calc)"]
    if not edges_var:
        raise AnalysisError("slit_resolution: bin_edges(q_calc) not found")
    EV = edges_var[0]
    r.check(bool(b) and pf.unparse(b[0].value) == "_q_perp_weights(%s, qi, w)" % EV, R, "slit_resolution",
            pf.unparse(b[0]) if b else "?", b[0].lineno if b else 0)
    # w == 0: (in_x + abs_x) * diff(q_edges) / (2 l)
    b = bodies.get("w == 0", [])
    envb = nf.straightline_env(b)
    final = [s for s in b if isinstance(s, ast.Assign) and isinstance(s.targets[0], ast.Subscript)]
    if not final:
        raise AnalysisError("slit_resolution: width-only store not found")
    e = nf.py_expr(final[0].value, {"in_x": S("in_x"), "abs_x": S("abs_x")})
    want = (S("in_x") + S("abs_x")) * sp.Function("np_diff")(S(EV)) / (2 * S("l"))
    r.check(nf.equal(e, want), R, "slit_resolution", pf.unparse(final[0]), final[0].lineno,
            "1/(2 l) prefactor of (1/2W) int_-W^W, bin widths from the edges")
    inx = [s for s in b if isinstance(s, ast.Assign) and pf.unparse(s.targets[0]) == "in_x"]
    r.check(bool(inx) and "q_calc >= qi - l" in pf.unparse(inx[0].value) and "q_calc <= qi + l" in pf.unparse(inx[0].value),
            R, "slit_resolution", pf.unparse(inx[0]) if inx else "in_x", inx[0].lineno if inx else 0,
            "window [q - l, q + l], end points included")
    absx = [s for s in b if isinstance(s, ast.Assign) and pf.unparse(s.targets[0]) == "abs_x"]
    okabs = bool(absx) and isinstance(absx[0].value, ast.IfExp) and pf.unparse(absx[0].value.test) == "qi < l" \
        and "q_calc < abs(qi - l)" in pf.unparse(absx[0].value.body) and pf.const_value(absx[0].value.orelse) == 0
    r.check(okabs, R, "slit_resolution", pf.unparse(absx[0]) if absx else "abs_x", absx[0].lineno if absx else 0,
            "reflection |q + v| for q < l counts [0, l - q) a second time")
    # both: average of 2n+1 perpendicular weights at q + k l / n
    b = bodies.get("else", [])
    loops = [s for s in b if isinstance(s, ast.For)]
    if not loops:
        raise AnalysisError("slit_resolution: mixed-branch loop not found")
    lp = loops[0]
    rng = lp.iter
    okr = isinstance(rng, ast.Call) and pf.call_name(rng) == "range" and len(rng.args) == 2
    start = nf.py_expr(rng.args[0], {}) if okr else None
    stop = nf.py_expr(rng.args[1], {}) if okr else None
    div = [s for s in b if isinstance(s, ast.AugAssign) and isinstance(s.op, ast.Div)]
    if not div:
        r.violation(R, "slit_resolution", "weights[i, :] /= 2*n_length + 1", lp.lineno, "mixed branch is not averaged")
    else:
        d = nf.py_expr(div[0].value, {})
        r.check(okr and nf.equal(stop - start, d), R, "slit_resolution", "range(%s) averaged by %s" % (
            ", ".join(pf.unparse(a) for a in rng.args), pf.unparse(div[0].value)), div[0].lineno,
            "divisor equals the trip count %s" % (sp.simplify(stop - start) if okr else "?"))
    acc = [s for s in lp.body if isinstance(s, ast.AugAssign) and isinstance(s.op, ast.Add)]
    okacc = bool(acc) and isinstance(acc[0].value, ast.Call) and pf.call_name(acc[0].value) == "_q_perp_weights"
    if okacc:
        a = acc[0].value.args
        k = pf.unparse(lp.target)
        pos = nf.py_expr(a[1], {})
        okacc = pf.unparse(a[0]) == EV and pf.unparse(a[2]) == "w" and \
            nf.equal(pos, S("qi") + S(k) * S("l") / S("n_length"))
    r.check(okacc, R, "slit_resolution", pf.unparse(acc[0]) if acc else "?", acc[0].lineno if acc else 0,
            "samples at q + k l/n, k = -n..n, each a perpendicular integral of width w")
    ret = [s for s in sr.body if isinstance(s, ast.Return)][0]
    r.check(pf.unparse(ret.value) == "weights.T", R, "slit_resolution", "return weights.T", ret.lineno,
            "matrix orientation (q_calc x q) as apply_resolution_matrix expects")
    ap = mod.func("apply_resolution_matrix")
    r.check("np.dot(theory[None, :], weight_matrix)" in pf.unparse(ap), R, "apply_resolution_matrix",
            "np.dot(theory[None, :], weight_matrix)", ap.lineno)


def rule_ring(r):
    mod = pf.lib("resolution2d")
    fn = mod.func("Pinhole2D._calc_res")
    nr, ns = S("nr"), S("self.nsigma")
    env = {"nr": nr}
    st = _assign(fn, "bin_size")[0]
    b = nf.py_expr(st.value, env)
    r.check(nf.equal(b, ns / nr), R2, "Pinhole2D._calc_res", pf.unparse(st), st.lineno, "radial bin b = nsigma/nr")
    st = _assign(fn, "r")[0]
    rr = nf.py_expr(st.value, {"bin_size": S("b")})
    r.check(nf.equal(rr, S("b") / 2 + sp.Function("np_arange")(nr) * S("b")), R2, "Pinhole2D._calc_res", pf.unparse(st),
            st.lineno, "ring centres (k + 1/2) b")
    st = _assign(fn, "weight_res")[0]
    w = nf.py_expr(st.value, {"bin_size": S("b"), "r": S("r")})
    want = sp.exp(-(S("r") - S("b") / 2) ** 2 / 2) - sp.exp(-(S("r") + S("b") / 2) ** 2 / 2)
    r.check(nf.equal(w, want), R2, "Pinhole2D._calc_res", pf.unparse(st), st.lineno,
            "ring mass of a unit 2-D Gaussian between r - b/2 and r + b/2")
    # rotation
    sx, sy = _assign(fn, "qx_res")[0], _assign(fn, "qy_res")[0]
    syms = {k: S(k) for k in ("dqx", "dqy", "dphi", "q_r", "q_phi", "qx", "qy")}
    ex = nf.py_expr(sx.value, syms)
    ey = nf.py_expr(sy.value, syms)
    a = syms["q_r"] + syms["dqx"] * sp.cos(syms["dphi"])
    bb = syms["dqy"] * sp.sin(syms["dphi"])
    th = syms["q_phi"]
    r.check(nf.equal(ex, a * sp.cos(th) - bb * sp.sin(th)), R2, "Pinhole2D._calc_res", pf.unparse(sx)[:80], sx.lineno,
            "x component of the rotation by q_phi of (q_r + dq_par cos, dq_perp sin)")
    r.check(nf.equal(ey, a * sp.sin(th) + bb * sp.cos(th)), R2, "Pinhole2D._calc_res", pf.unparse(sy)[:80], sy.lineno,
            "y component of the rotation by q_phi")
    # q_phi = atan(qy/qx), dqx = r * dq_par, dqy = r * dq_perp, q_r = sqrt(qx^2+qy^2)
    stq = _assign(fn, "q_phi")
    t0 = pf.unparse(stq[0].value)
    t1 = pf.unparse(stq[1].value) if len(stq) > 1 else ""
    r.check(t0 == "self.qy_data / self.qx_data" and t1.startswith("np.arctan(q_phi)"), R2, "Pinhole2D._calc_res",
            "q_phi = arctan(qy/qx)", stq[0].lineno, "direction of q")
    for nm, src in (("dqx", "self.dqx_data"), ("dqy", "self.dqy_data")):
        s = _assign(fn, nm)[0]
        r.check(pf.unparse(s.value) == "np.outer(dr, %s).flatten()" % src, R2, "Pinhole2D._calc_res", pf.unparse(s), s.lineno,
                "offset = ring radius (in sigma) x supplied width")
    s = _assign(fn, "q_r")[0]
    r.check(nf.equal(nf.py_expr(s.value, {}), sp.sqrt(S("qx") ** 2 + S("qy") ** 2)), R2, "Pinhole2D._calc_res", pf.unparse(s), s.lineno)
    s = _assign(fn, "dphi")[0]
    e = nf.py_expr(s.value, {})
    r.check(nf.equal(e, S("phi") * 2 * sp.pi / S("nphi")), R2, "Pinhole2D._calc_res", pf.unparse(s), s.lineno,
            "angles uniformly spaced over the full circle")
    init = mod.func("Pinhole2D.__init__")
    d = dict(zip(pf.positional_params(init)[-len(init.args.defaults):], init.args.defaults))
    r.check(pf.unparse(d.get("coords", ast.Constant(None))) == "'polar'", R2, "Pinhole2D.__init__", "coords='polar' default",
            init.lineno, "the ellipse is aligned with the q direction")


RULES = [
    ("R-C04-erf", 5, "erf bin masses and bin edges", rule_erf),
    ("R-C04-window", 9, "n-sigma window constants and limits", rule_window),
    ("R-C04-slit-u", 13, "slit u-substitution bins, prefactors and sample average", rule_slit_u),
    ("R-C04-ring", 11, "2-D ring mass and polar rotation", rule_ring),
]


from . import shared
RULES = RULES + shared.bundle('C04', [], ['resolution', 'resolution2d'])
from . import folds as _folds
RULES = RULES + [_folds.fold_rule('C04')]
from .. import refs as _refs
RULES = RULES + [_refs.ref_rule('C04')]


def run(tier="quick", replay=None):
    return run_check(
        "C04", RULES, tier=tier, replay=replay,
        explanation="Normal-form comparison (sympy expansion of straight-line NumPy code read from the AST, broadcasting "
                    "subscripts stripped) of the constants and formulas the documented integrals depend on: erf argument, "
                    "bin edges, window limits and masks, slit prefactors/limits/trip count, ring mass and rotation. "
                    "Convergence, rate and error bounds are numerical analysis and are not decided.",
        assumptions=["NumPy elementwise semantics", "np.diff/np.arange treated as opaque atoms"])
