"""Rules added after the third round of seeded changes (general forms of what that round slipped past)."""
import ast
import os
import re
import sympy as sp
from ..report import AnalysisError
from .. import pyfacts as pf
from .. import pyval
from ..nf import sym, where

F = sp.Function


# --------------------------------------------------------------------------------------------- C15: precision plumbing
def rule_c15_plumb(r):
    """The numpy dtype chosen by parse_dtype reaches convert_type, the library name and the ctypes signature unchanged."""
    core = pf.lib("core")
    bm = core.func("build_model")
    res = pyval.fold_function(bm)
    pd = [c for c in res.calls if c[0] == "parse_dtype"]
    if not pd:
        raise AnalysisError("build_model: parse_dtype call not found")
    chosen = F("item")(pd[0][4], sp.Integer(0))
    loaders = [c for c in res.calls if c[0].endswith(("load_dll", "GpuModel"))]
    if len({c[0] for c in loaders}) < 3:
        raise AnalysisError("build_model: loader calls (dll, opencl, cuda) not found")
    seen = set()
    for c in loaders:
        if (c[0], c[1].lineno) in seen:
            continue
        seen.add((c[0], c[1].lineno))
        got = pyval.call_arg(c, pos=2, kw="dtype")
        r.check(got is not None and pyval.same(got, chosen), core.relpath, "build_model", "%s(..., dtype = parse_dtype(...)[0])" % c[0],
                c[1].lineno, "the resolved precision is handed on unchanged" if got is not None and pyval.same(got, chosen)
                else "dtype handed to the loader is %s, not the first element of parse_dtype's result" % got)
    kd = pf.lib("kerneldll")
    D = sym("dtype")
    # load_dll
    ld = pyval.fold_function(kd.func("load_dll"))
    for c in ld.calls:
        if c[0] in ("make_dll", "DllModel"):
            got = pyval.call_arg(c, pos=2, kw="dtype")
            ok = got is not None and pyval.same(got, D)
            r.check(ok, kd.relpath, "load_dll", "%s(..., dtype=dtype)" % c[0], c[1].lineno,
                    "requested precision passed through" if ok else "precision handed on is %s: the request is replaced on some path" % got)
    # make_dll: with single-precision libraries allowed (module constant), the dtype is used as given
    allow = kd.module_assign("ALLOW_SINGLE_PRECISION_DLLS")
    r.check(pf.const_value(allow) is True, kd.relpath, "<module>", "ALLOW_SINGLE_PRECISION_DLLS = %s" % pf.unparse(allow), allow.lineno,
            "single precision libraries are built on request")
    mk = kd.func("make_dll")
    facts = {}
    for st in pf.walk_stmts(mk):
        if isinstance(st, ast.If) and "ALLOW_SINGLE_PRECISION_DLLS" in pf.unparse(st.test):
            t = pf.unparse(st.test)
            if t in ("dtype == F32 and (not ALLOW_SINGLE_PRECISION_DLLS)", "dtype == F32 and not ALLOW_SINGLE_PRECISION_DLLS"):
                facts[t] = False
    md = pyval.fold_function(mk, facts=facts)
    n = 0
    for c in md.calls:
        if c[0] in ("generate.convert_type", "convert_type", "dll_path", "dll_name"):
            got = pyval.call_arg(c, pos=1, kw="dtype")
            ok = got is not None and pyval.same(got, D)
            n += 1
            r.check(ok, kd.relpath, "make_dll", "%s(..., dtype)" % c[0], c[1].lineno,
                    "source conversion and library name use the requested precision" if ok else "receives %s" % got)
    if n < 2:
        raise AnalysisError("make_dll: convert_type/dll_path calls not found")
    guards16 = [g for g in md.guards if "F16" in str(g)]
    r.check(bool(guards16), kd.relpath, "make_dll", "half precision refused", mk.lineno, "raise for F16")
    # dll_name: bits from the dtype
    dn = pyval.fold_function(kd.func("dll_name"))
    r.check("8*dtype.itemsize" in str(dn.ret).replace(" ", "") or "8*attr(dtype,.itemsize)" in str(dn.ret).replace(" ", ""), kd.relpath,
            "dll_name", "library name carries 8*dtype.itemsize", kd.func("dll_name").lineno, "precisions never share a file name")
    # DllModel
    init = pyval.fold_function(kd.func("DllModel.__init__"))
    got = init.env.get("self.dtype")
    r.check(got is not None and pyval.same(got, F("np_dtype")(D)), kd.relpath, "DllModel.__init__", "self.dtype = np.dtype(dtype)",
            kd.func("DllModel.__init__").lineno, "found %s" % got)
    mkk = pyval.fold_function(kd.func("DllModel.make_kernel"))
    pin = [c for c in mkk.calls if c[0] == "PyInput"]
    r.check(bool(pin) and pyval.same(pyval.call_arg(pin[0], pos=1, kw="dtype"), sym("self.dtype")), kd.relpath, "DllModel.make_kernel",
            "PyInput(q_vectors, self.dtype)", pin[0][1].lineno if pin else 0, "q vectors converted to the model precision")
    ll = pyval.fold_function(kd.func("DllModel._load_dll"))
    ft = ll.env.get("float_type")
    want = pyval.mk_where(pyval.mk_cmp("Eq", sym("self.dtype"), sym("generate.F32")), sym("ct.c_float"),
                          pyval.mk_where(pyval.mk_cmp("Eq", sym("self.dtype"), sym("generate.F64")), sym("ct.c_double"), sym("ct.c_longdouble")))
    r.check(ft is not None and pyval.same(ft, want), kd.relpath, "DllModel._load_dll", "float_type by self.dtype: F32->c_float, F64->c_double, else c_longdouble",
            kd.func("DllModel._load_dll").lineno, "found %s" % ft)


# --------------------------------------------------------------------------------------------- C08: kernel dimension
def rule_c08_dim(r):
    """Every kernel's `dim` comes from its q input or from a component; never from a constant fallback."""
    n = 0
    for modname in ("kerneldll", "kernelpy", "kernelcl", "kernelcuda", "mixture", "product", "kernel"):
        mod = pf.lib(modname)
        for qual, fn in sorted(mod.functions.items()):
            for st in pf.walk_stmts(fn):
                if not isinstance(st, (ast.Assign, ast.AugAssign, ast.AnnAssign)):
                    continue
                tg = st.targets if isinstance(st, ast.Assign) else [st.target]
                if not any(pf.unparse(t) == "self.dim" for t in tg):
                    continue
                n += 1
                v = st.value
                ok = False
                why = "unrecognised source of the dimension"
                if isinstance(v, ast.IfExp) and pf.unparse(v.test).endswith("is_2d") and pf.const_value(v.body) == "2d" \
                        and pf.const_value(v.orelse) == "1d":
                    ok, why = True, "from the q input"
                elif isinstance(v, ast.Attribute) and v.attr == "dim" and not any(isinstance(x, ast.Constant) and isinstance(x.value, str)
                                                                                 for x in ast.walk(v)):
                    ok, why = True, "propagated from a component kernel"
                r.check(ok, mod.relpath, qual, pf.unparse(st), st.lineno,
                        why if ok else "the dimension selects which dispersity parameters are active (get_mesh); a literal or "
                        "defaulted value drops a component's orientation dispersity for 2-D data")
    kb = pf.lib("kernel")
    base = kb.cls("Kernel")
    dflt = [s for s in base.body if isinstance(s, ast.Assign) and pf.unparse(s.targets[0]) == "dim"]
    r.check(bool(dflt) and pf.const_value(dflt[0].value) is None, kb.relpath, "Kernel", "class default dim = None",
            dflt[0].lineno if dflt else base.lineno, "kernels that do not state a dimension keep every dispersity parameter active")
    gm = pf.lib("direct_model").func("get_mesh")
    res = pyval.fold_function(gm)
    act = res.env.get("active")
    s = str(act)
    c1, c2 = str(pyval.mk_cmp("Eq", sym("dim"), sym("'1d'"))), str(pyval.mk_cmp("Eq", sym("dim"), sym("'2d'")))
    ok = act is not None and "pd_1d" in s and "pd_2d" in s and c1 in s and c2 in s
    r.check(ok, "sasmodels/direct_model.py", "get_mesh", "active set: mono -> none, '1d' -> pd_1d, '2d' -> pd_2d, otherwise all", gm.lineno,
            "found %s" % pyval._short(act))
    if n < 4:
        raise AnalysisError("kernel dim assignments not found")


# --------------------------------------------------------------------------------------------- C10: setParam / getParam
def _guarded_key(fn, mod, store_container, key):
    """Is `key` known to be an existing key of `store_container` (text) at this node?  Accepted idioms: key is the
    target of an enclosing `for key in C` / `for key in C.keys()`; an enclosing `if key in C`."""
    node = key
    ktxt = pf.unparse(key)
    p = mod.parents.get(node)
    while p is not None and p is not fn:
        if isinstance(p, ast.For) and pf.unparse(p.target) == ktxt:
            it = pf.unparse(p.iter)
            if it in (store_container, store_container + ".keys()", "list(%s)" % store_container, "list(%s.keys())" % store_container):
                return True
        if isinstance(p, ast.If):
            for c in ast.walk(p.test):
                if isinstance(c, ast.Compare) and len(c.ops) == 1 and isinstance(c.ops[0], ast.In) and pf.unparse(c.left) == ktxt \
                        and pf.unparse(c.comparators[0]) in (store_container, store_container + ".keys()"):
                    # must be in the true branch
                    inside_body = any(node is x or any(node is y for y in ast.walk(x)) for x in p.body)
                    if inside_body and not isinstance(p.test, ast.BoolOp) or (inside_body and isinstance(p.test, ast.BoolOp) and isinstance(p.test.op, ast.And)):
                        return True
        node, p = p, mod.parents.get(p)
    return False


def rule_c10_setparam(r):
    mod = pf.lib("sasview_model")
    for qual in ("SasviewModel.setParam", "SasviewModel.getParam"):
        fn = mod.func(qual)
        last = fn.body[-1]
        r.check(isinstance(last, ast.Raise), mod.relpath, qual, "falls through to raise ValueError", last.lineno,
                "a name that matched nothing is refused")
        n = 0
        for node in ast.walk(fn):
            if not isinstance(node, ast.Subscript):
                continue
            base = pf.unparse(node.value)
            if not (base.startswith("self.params") or base.startswith("self.dispersion")):
                continue
            # outermost subscripts only (self.dispersion[a][b] is judged level by level below)
            par = mod.parents.get(node)
            if isinstance(par, ast.Subscript) and par.value is node:
                continue
            # walk the chain from the outside in
            chain = []
            cur = node
            while isinstance(cur, ast.Subscript):
                chain.append(cur)
                cur = cur.value
            for sub in chain:
                n += 1
                cont = pf.unparse(sub.value)
                key = sub.slice
                # a key taken from a loop over the container, or tested with `in`
                ok = _guarded_key(fn, mod, cont, key)
                if not ok and isinstance(key, ast.Name):
                    # the for-loop of the key may iterate the container while the subscript is inside the loop header itself
                    p = mod.parents.get(sub)
                    if isinstance(p, ast.For) and p.iter is sub:
                        ok = True
                # `for par in self.dispersion[item]` : the container expression appears as a loop header: key judged as above
                r.check(ok, mod.relpath, qual, "%s: key %s" % (pf.unparse(node), pf.unparse(key)), sub.lineno,
                        "key comes from iterating / testing membership in %s" % cont if ok else
                        "key %s is used in %s without being checked against its keys: an unknown name is accepted "
                        "(stored or read) instead of raising" % (pf.unparse(key), cont))
        if n < 3:
            raise AnalysisError("%s: parameter table accesses not found" % qual)
        # every return is directly preceded by the access it reports (setParam) / is the access (getParam)
        for st in pf.walk_stmts(fn):
            if isinstance(st, ast.Return) and st.value is None:
                blk = pf.block_of(mod, st)
                i = blk.index(st)
                ok = i > 0 and isinstance(blk[i - 1], ast.Assign) and isinstance(blk[i - 1].targets[0], ast.Subscript)
                r.check(ok, mod.relpath, qual, "return after the store", st.lineno, "success only after a parameter was found")


# --------------------------------------------------------------------------------------------- C09: scan order in make_source
def rule_c09_scan(r):
    mod = pf.lib("generate")
    fn = mod.func("make_source")
    cfg = pf.cfg(fn)
    appenders, scans = [], []
    for st in cfg.stmts():
        for c in pf.own_exprs(st):
            if isinstance(c, ast.Call):
                nm = pf.call_name(c) or ""
                if nm == "_add_source" and len(c.args) > 1 and isinstance(c.args[1], ast.Name):
                    # the validity macro produced by _build_translation is generated wrapper text, not a model function
                    src = [d for d in pf.walk_stmts(fn) if isinstance(d, ast.Assign) and c.args[1].id in pf.assigned_names(d)]
                    if src and all(isinstance(d.value, ast.Call) and pf.call_name(d.value) == "_build_translation" for d in src):
                        continue
                if nm in ("_gen_fn", "_add_source"):
                    appenders.append((st, nm))
                if nm in ("contains_shell_volume", "find_xy_mode", "_kernels_defined", "have_Fq", "_call_pars") and c.args and pf.unparse(c.args[0]) == "source":
                    scans.append((st, nm))
    scans = [(st, nm) for st, nm in scans if nm in ("contains_shell_volume", "find_xy_mode")]
    if len(scans) < 2 or len(appenders) < 6:
        raise AnalysisError("make_source: scans (%d) / model-code appenders (%d) not found" % (len(scans), len(appenders)))
    for sst, snm in scans:
        late = [a for a, _ in appenders if cfg.reaches(sst, a)]
        r.check(not late, mod.relpath, "make_source", "%s(source) sees all model code" % snm, sst.lineno,
                "every _gen_fn/_add_source append precedes the scan" if not late else
                "model code appended at line(s) %s after the scan: a function defined there (e.g. a string-bodied shell_volume) is not seen"
                % sorted({a.lineno for a in late}))
    # the scan result is what selects the hollow wrapper
    res = [s for s in cfg.stmts() if isinstance(s, ast.If) and pf.unparse(s.test) == "is_hollow"]
    r.check(bool(res), mod.relpath, "make_source", "if is_hollow: shell-volume wrapper", res[0].lineno if res else fn.lineno,
            "the CALL_VOLUME wrapper is chosen by the scan result")
    hol = [s for s in cfg.stmts() if isinstance(s, ast.Assign) and pf.unparse(s.targets[0]) == "is_hollow"]
    r.check(len(hol) == 1 and pf.unparse(hol[0].value) == "contains_shell_volume(source)", mod.relpath, "make_source",
            "is_hollow = contains_shell_volume(source)", hol[0].lineno if hol else fn.lineno, "single definition")


# --------------------------------------------------------------------------------------------- C11: views of caller arrays
def rule_c11_views(r):
    """The selection DirectModel applies to the caller's detector arrays is a boolean mask (a copy), and the 2-D
    resolution object applies exactly that selection before editing the selected arrays in place."""
    dm = pf.lib("direct_model")
    fn = dm.func("DataMixin._interpret_data")
    res = pyval.fold_function(fn)
    calls = [c for c in res.calls if c[0].endswith("Pinhole2D")]
    if not calls:
        raise AnalysisError("_interpret_data: Pinhole2D construction not found")
    for c in calls[:1]:
        idx = pyval.call_arg(c, pos=1, kw="index")
        s = str(idx)
        maskish = idx is not None and s.startswith(("band(", "cmp_", "bnot(", "where(")) and "slice" not in s
        r.check(maskish, dm.relpath, "DataMixin._interpret_data", "Pinhole2D(index = boolean mask)", c[1].lineno,
                "selection is built from comparisons: indexing with it copies" if maskish else "index value %s" % pyval._short(idx))
        d = pyval.call_arg(c, pos=0, kw="data")
        r.check(d is not None and pyval.same(d, sym("data")), dm.relpath, "DataMixin._interpret_data", "Pinhole2D(data = data)", c[1].lineno)
    r2 = pf.lib("resolution2d")
    init = pyval.fold_function(r2.func("Pinhole2D.__init__"))
    ic = [c for c in init.calls if c[0] == "self._init_data"]
    ok = bool(ic) and pyval.same(pyval.call_arg(ic[0], pos=1, kw="index"), sym("index")) and pyval.same(pyval.call_arg(ic[0], pos=0, kw="data"), sym("data"))
    r.check(ok, r2.relpath, "Pinhole2D.__init__", "self._init_data(data, index)", ic[0][1].lineno if ic else 0, "selection passed through unchanged")
    idf = r2.func("Pinhole2D._init_data")
    facts = {"index is not None": True, "index is None": False}
    res = pyval.fold_function(idf, facts=facts)
    got = res.env.get("self.index")
    ok = got is not None and pyval.same(got, sym("index"))
    r.check(ok, r2.relpath, "Pinhole2D._init_data", "self.index is the caller's mask whenever one is given", idf.lineno,
            "a boolean mask is applied as given (copying)" if ok else
            "for a given mask the selection becomes %s: a slice makes the selected arrays views of the caller's arrays, "
            "and the in-place clamp of the widths then edits the caller's data" % pyval._short(got))
    # arrays edited in place are those selected with self.index
    n = 0
    for st in pf.walk_stmts(idf):
        if isinstance(st, ast.Assign) and isinstance(st.targets[0], ast.Subscript):
            base = pf.unparse(st.targets[0].value)
            if base.startswith("self."):
                n += 1
                defs = [s for s in pf.walk_stmts(idf) if isinstance(s, ast.Assign) and pf.unparse(s.targets[0]) == base and s.lineno < st.lineno]
                ok = bool(defs) and all(isinstance(d.value, ast.Subscript) and pf.unparse(d.value.slice) == "self.index" for d in defs)
                r.check(ok, r2.relpath, "Pinhole2D._init_data", "in-place edit of %s" % base, st.lineno,
                        "%s = <array>[self.index]: a masked copy" % base if ok else "%s is not a masked copy at this store" % base)
    if n < 2:
        raise AnalysisError("Pinhole2D._init_data: in-place clamps not found")


# --------------------------------------------------------------------------------------------- C15: declared single-precision safety
def rule_c15_declared(r):
    """A model that the confirmed tree declares unsafe for single precision (`single = False`) stays declared unsafe:
    the agreement clause of the property quantifies over the models declared safe, so widening that set silently
    is how the clause is broken without touching the converter."""
    import json, os
    from .. import tables
    p = os.path.join(os.path.dirname(os.path.abspath(__file__)), "..", "refmeta.json")
    try:
        ref = json.load(open(p))
    except (OSError, ValueError):
        raise AnalysisError("sa/refmeta.json missing: run tools/mkrefshape.py")
    n = 0
    for model, flags in sorted(ref.items()):
        if flags.get("single") != "False":
            continue
        rel = "sasmodels/models/%s.py" % model
        path = os.path.join(pf.REPO, rel)
        if not os.path.exists(path):
            continue        # a removed model is not a declaration
        tree = ast.parse(open(path).read())
        cur = [st for st in tree.body if isinstance(st, ast.Assign) and len(st.targets) == 1 and isinstance(st.targets[0], ast.Name)
               and st.targets[0].id == "single"]
        n += 1
        ok = bool(cur) and pf.const_value(cur[-1].value) is False
        r.check(ok, rel, "<module>", "single = False", cur[-1].lineno if cur else 0,
                "declared unsafe for single precision, as confirmed" if ok else
                "the confirmed tree declares this model unsafe for single precision (loss of significance in float32); the "
                "declaration is gone, so a single-precision request is now honoured and the result disagrees with double")
    if n < 10:
        raise AnalysisError("reference list of single-unsafe models too short (%d)" % n)
    # the declaration is what make_model_info reads
    mi = pf.lib("modelinfo")
    fn = mi.func("make_model_info")
    got = [st for st in pf.walk_stmts(fn) if isinstance(st, ast.Assign) and pf.unparse(st.targets[0]) == "info.single"]
    ok = bool(got) and isinstance(got[0].value, ast.Call) and pf.call_name(got[0].value) == "getattr" and len(got[0].value.args) >= 2 \
        and pf.unparse(got[0].value.args[0]) == "kernel_module" and pf.const_value(got[0].value.args[1]) == "single"
    r.check(ok, mi.relpath, "make_model_info", "info.single = getattr(kernel_module, 'single', <default>)", got[0].lineno if got else fn.lineno,
            "the model's own declaration decides")


# --------------------------------------------------------------------------------------------- C05: orientation limits in model tables
def rule_c05_orient_limits(r):
    """Jitter values are offsets from the view angle; the interfaces truncate the jitter mesh with the parameter's own
    limits (direct_model._pop_par_weights, sasview_model._get_weights pass parameter.limits).  An orientation parameter
    whose limits are not symmetric about zero therefore cuts the mesh on one side, and the average is no longer centred
    on zero."""
    from .. import tables
    n = 0
    for mid, md in sorted(tables.models().items()):
        for p in md.pars:
            if p["type"] != "orientation":
                continue
            n += 1
            lim = p["limits"]
            ok = isinstance(lim, (list, tuple)) and len(lim) == 2 and lim[0] == -lim[1] and lim[1] >= 180
            r.check(ok, md.relpath, "parameters", "%s limits %s" % (p["name"], list(lim) if isinstance(lim, (list, tuple)) else lim),
                    md.lineno.get("parameters", 0),
                    "symmetric about zero and at least +/-180: the jitter mesh is not cut on one side" if ok else
                    "limits of an orientation parameter also truncate its jitter distribution, which is centred on zero: "
                    "one side of the mesh is dropped for this model")
    if n < 40:
        raise AnalysisError("orientation parameters not found in the model tables (%d)" % n)
    # the interfaces do pass the parameter's limits to the distribution
    dm = pf.lib("direct_model").func("_pop_par_weights")
    res = pyval.fold_function(dm)
    gw = [c for c in res.calls if c[0].endswith("get_weights")]
    ok = bool(gw) and pyval.same(pyval.call_arg(gw[0], pos=5, kw="limits"), sym("parameter.limits"))
    r.check(ok, "sasmodels/direct_model.py", "_pop_par_weights", "get_weights(..., limits = parameter.limits, ...)", gw[0][1].lineno if gw else dm.lineno,
            "the hard limits of the parameter bound its distribution")


# --------------------------------------------------------------------------------------------- C-side state and numerics (per unit)
PROCESS_STATE_CALLS = {"_mm_setcsr", "_mm_getcsr", "__builtin_ia32_ldmxcsr", "__builtin_ia32_stmxcsr", "fesetenv", "fesetround", "feenableexcept",
                       "fedisableexcept", "feholdexcept", "feupdateenv", "feclearexcept", "feraiseexcept", "_controlfp", "_control87", "_clearfp",
                       "setenv", "putenv", "srand", "rand", "setlocale", "signal", "_MM_SET_FLUSH_ZERO_MODE", "_MM_SET_DENORMALS_ZERO_MODE",
                       "omp_set_num_threads", "malloc", "free", "fopen", "printf"}


def cstate_unit(unit, extra):
    """Worker: a generated unit keeps no state between calls and leaves the process state alone."""
    from .. import cfront
    from ..nf import c_callee, c_text, c_strip
    out = []
    KI = "sasmodels/kernel_iq.c"
    file_scope = {d.get("id") for d in unit.ast.get("inner", []) if d.get("kind") == "VarDecl"}
    nfun = 0
    for fname, fn in sorted(unit.functions.items()):
        body = unit.body(fn)
        if body is None:
            continue
        nfun += 1
        f, line = unit.where(fn)
        bad = []
        for n in cfront.walk(body):
            k = n.get("kind")
            if k == "VarDecl" and n.get("storageClass") == "static":
                init_const = "const" in n.get("type", {}).get("qualType", "")
                if not init_const:
                    bad.append((n, "static local `%s` keeps a value from one call to the next" % n.get("name")))
            elif k in ("GCCAsmStmt", "MSAsmStmt"):
                bad.append((n, "inline assembly"))
            elif k == "CallExpr":
                cal = c_callee(n)
                if cal in PROCESS_STATE_CALLS:
                    bad.append((n, "call of %s changes or reads process-wide state (floating-point environment, allocator, I/O)" % cal))
            elif k in ("BinaryOperator", "CompoundAssignOperator") and (n.get("opcode") == "=" or k == "CompoundAssignOperator"):
                lhs = c_strip(n["inner"][0])
                root = lhs
                while root.get("kind") in ("ArraySubscriptExpr", "MemberExpr", "ImplicitCastExpr", "ParenExpr", "UnaryOperator"):
                    root = root["inner"][0]
                if root.get("kind") == "DeclRefExpr" and root.get("referencedDecl", {}).get("id") in file_scope:
                    bad.append((n, "write to the file-scope variable `%s`" % root["referencedDecl"].get("name")))
        for n, why in bad:
            ff, ll = unit.where(n)
            out.append(("R-C11-cstate", "violation", ff, "%s:%s" % (unit.name, fname), why[:70], ll,
                        "a compiled kernel must be a pure function of its arguments: " + why))
        if not bad:
            out.append(("R-C11-cstate", "ok", f, "%s:%s" % (unit.name, fname), "no static locals, file-scope writes, asm or process-state calls", line, ""))
    for h in getattr(unit, "unknown_headers", []):
        out.append(("R-C11-cstate", "violation", KI, unit.name, "#include <%s>" % h, 0,
                    "a system header outside the C99 math/stdint set the kernels are written against is included: its functions "
                    "are not part of the pure computation"))
    # numerics: difference of 1 and a cosine / exponential loses all significant digits for small arguments in float32
    if unit.meta.get("single", True):
        for fname, fn in sorted(unit.functions.items()):
            body = unit.body(fn)
            if body is None:
                continue
            ff0, _ = unit.where(fn)
            if "/models/" not in (ff0 or "") or "/lib/" in (ff0 or ""):
                continue
            found = False
            for n in cfront.walk(body):
                if n.get("kind") == "BinaryOperator" and n.get("opcode") == "-":
                    a, b = c_strip(n["inner"][0]), c_strip(n["inner"][1])
                    def is_one(x):
                        return x.get("kind") in ("FloatingLiteral", "IntegerLiteral") and float(x.get("value", 0)) == 1.0
                    def is_call(x):
                        return x.get("kind") == "CallExpr" and c_callee(x) in ("cos", "exp", "cosh")
                    if (is_one(a) and is_call(b)) or (is_call(a) and is_one(b)):
                        ff, ll = unit.where(n)
                        found = True
                        out.append(("R-C15-cancel", "violation", ff, "%s:%s" % (unit.name, fname), c_text(n)[:70], ll,
                                    "1 - cos(x) / 1 - exp(x) in a model declared safe for single precision: for small x the float32 "
                                    "result has no correct digits (use 2 sin^2(x/2) / expm1, or declare single = False)"))
            if not found:
                out.append(("R-C15-cancel", "ok", ff0, "%s:%s" % (unit.name, fname), "no 1 - cos / 1 - exp difference", 0, ""))
    return out


_cstate_cache = None


def _cstate_results():
    global _cstate_cache
    if _cstate_cache is None:
        from .. import cfront
        _cstate_cache = cfront.map_units("sa.rules.extra3:cstate_unit")
    return _cstate_cache


def make_cstate_rule(rule_id):
    def run(r):
        for unit, rows in sorted(_cstate_results().items()):
            for row in rows:
                if row[0] == rule_id:
                    _, status, f, fn, construct, line, detail = row
                    getattr(r, status)(f, fn, construct, line, detail)
    return run


# --------------------------------------------------------------------------------------------- C05/C06: helper guards in every unit
def helper_unit(unit, extra):
    """Worker: (C05) the square root of a difference that rounding can make negative is guarded in qac_apply;
    (C06) the magnetic kernel hands mag_sld the q components exactly as fetched."""
    from .. import cfront
    from ..nf import c_callee, c_text, c_strip
    from ..ckernel import Kernel, kids, norm
    out = []
    KI = "sasmodels/kernel_iq.c"
    f = unit.functions.get("qac_apply")
    if f is not None and unit.body(f) is not None:
        body = unit.body(f)
        ff, ll = unit.where(f)
        sq = []
        def rec(node, anc):
            for ch in kids(node):
                if ch.get("kind") == "CallExpr" and c_callee(ch) == "sqrt":
                    sq.append((ch, list(anc)))
                rec(ch, anc + [ch])
        rec(body, [])
        if not sq:
            out.append(("R-C05-guard", "violation", ff, "%s:qac_apply" % unit.name, "sqrt of the in-plane remainder", ll,
                        "qab = sqrt(|q|^2 - qc^2) not found"))
        for call, anc in sq:
            arg = norm(c_text(kids(call)[1]))
            guarded = False
            for a in anc:
                if a.get("kind") == "ConditionalOperator" or a.get("kind") == "IfStmt":
                    cnd = norm(c_text(kids(a)[0]))
                    if cnd in ("%s>0" % arg, "%s>0.0" % arg, "%s>=0" % arg, "%s>=0.0" % arg):
                        guarded = True
            inner = c_strip(kids(call)[1])
            if inner.get("kind") == "CallExpr" and c_callee(inner) in ("fmax", "fabs"):
                guarded = True
            f2, l2 = unit.where(call)
            out.append(("R-C05-guard", "ok" if guarded else "violation", f2, "%s:qac_apply" % unit.name, "sqrt(%s)" % arg[:50], l2,
                        "taken only when the argument is positive" if guarded else
                        "|q|^2 - qc^2 can round to a small negative number when the particle axis lies along q (theta = 90): the "
                        "unguarded sqrt makes the in-plane component, and the intensity, NaN"))
    try:
        k = Kernel(unit, "Imagnetic")
    except AnalysisError:
        return out
    calls = [n for n in cfront.walk(k.body) if n.get("kind") == "CallExpr" and c_callee(n) == "mag_sld"]
    fn = "%s:Imagnetic" % unit.name
    for c in calls:
        a = [norm(c_text(x)) for x in kids(c)[1:]]
        qn = a[1:3]
        writes = []
        for n in cfront.walk(k.body):
            if n.get("kind") in ("BinaryOperator", "CompoundAssignOperator") and (n.get("opcode") == "=" or n.get("kind") == "CompoundAssignOperator"):
                lhs = norm(c_text(kids(n)[0]))
                if lhs in qn:
                    rhs = c_strip(kids(n)[1])
                    from_q = rhs.get("kind") == "ArraySubscriptExpr" and norm(c_text(kids(rhs)[0])) == k.p_q
                    writes.append((lhs, from_q, n))
        bad = [w for w in writes if not w[1]]
        f2, l2 = unit.where(c)
        ok = len(qn) == 2 and not bad and len([w for w in writes if w[1]]) >= 2
        out.append(("R-C06-qdir", "ok" if ok else "violation", f2, fn, "mag_sld(xs, %s, ...)" % ", ".join(qn), l2,
                    "the q direction given to mag_sld is the detector point as fetched from the q vector" if ok else
                    "%s is overwritten before mag_sld uses it (%s): the component of M perpendicular to q is taken for the wrong direction"
                    % (", ".join(sorted({w[0] for w in bad})) or "q", "; ".join(c_text(w[2])[:50] for w in bad))))
    return out


_helper_cache = None


def make_helper_rule(rule_id):
    def run(r):
        global _helper_cache
        if _helper_cache is None:
            from .. import cfront
            _helper_cache = cfront.map_units("sa.rules.extra3:helper_unit")
        for unit, rows in sorted(_helper_cache.items()):
            for row in rows:
                if row[0] == rule_id:
                    _, status, f, fn, construct, line, detail = row
                    getattr(r, status)(f, fn, construct, line, detail)
    return run


# --------------------------------------------------------------------------------------------- C13: scale-free limits
def rule_c13_limits(r):
    """The interfaces truncate a parameter's dispersity mesh at its limits.  A finite non-zero limit on a parameter with a
    length unit is an absolute length, so the truncated mesh - and with it the average - does not scale with lambda."""
    import math
    from .. import tables
    from .c13 import in_scope, unit_degree
    n = 0
    for mid, md in sorted(tables.models().items()):
        ok_scope, _ = in_scope(md)
        if not ok_scope:
            continue
        for p in md.pars:
            deg = unit_degree(p["units"])
            if deg in (None, "out-of-scope") or p["type"] == "orientation":
                continue
            L, S = deg if isinstance(deg, tuple) else (0, 0)
            if L == 0 and S == 0:
                continue
            lim = p["limits"]
            if not (isinstance(lim, (list, tuple)) and len(lim) == 2):
                continue
            n += 1
            bad = [x for x in lim if x != 0 and not (isinstance(x, float) and math.isinf(x))]
            r.check(not bad, md.relpath, "parameters", "%s [%s] limits %s" % (p["name"], p["units"], list(lim)), md.lineno.get("parameters", 0),
                    "limits 0 / +-inf are scale free" if not bad else
                    "a dispersity mesh on %s is cut at %s %s whatever the scale of the particle: the average over the mesh, and with it "
                    "I, the volumes and R_eff, does not follow the scaling law" % (p["name"], bad[0], p["units"]))
    if n < 150:
        raise AnalysisError("dimensional parameters of the in-scope models not found (%d)" % n)


# --------------------------------------------------------------------------------------------- C11: python model functions are pure
def _uncovered_return(fn, X, alloc):
    """Reason text when some `return` can hand back X before every element was written, else None.
    Accepted coverage (enumerated from the model files): X[:] = / X[...] = , or the pair X[m] = and X[~m] = for one mask m,
    as statements that are not under an `if` (a `with` block is transparent)."""
    def flat(stmts):
        for st in stmts:
            if isinstance(st, (ast.With, ast.AsyncWith)):
                for x in flat(st.body):
                    yield x
            else:
                yield st
    masks_pos, masks_neg, full = set(), set(), False
    seen_alloc = False
    for st in flat(fn.body):
        if st is alloc:
            seen_alloc = True
            continue
        if not seen_alloc:
            if any(isinstance(x, ast.Return) for x in ast.walk(st)) and X in pf.names_in(st):
                pass
            continue
        if isinstance(st, ast.Assign) and isinstance(st.targets[0], ast.Subscript) and pf.unparse(st.targets[0].value) == X:
            sl = st.targets[0].slice
            if isinstance(sl, ast.Slice) and sl.lower is None and sl.upper is None:
                full = True
            elif isinstance(sl, ast.Constant) and sl.value is Ellipsis:
                full = True
            elif isinstance(sl, ast.UnaryOp) and isinstance(sl.op, ast.Invert):
                masks_neg.add(pf.unparse(sl.operand))
            else:
                masks_pos.add(pf.unparse(sl))
        covered = full or bool(masks_pos & masks_neg)
        rets = [x for x in ast.walk(st) if isinstance(x, ast.Return) and x.value is not None and X in pf.names_in(x.value)]
        if rets and not covered:
            return "line %d returns %s before every element has been written" % (rets[0].lineno, X)
    return None


def rule_c11_pymodel(r):
    """The python functions of the model files (Iq, Iqxy, form_volume, ...) are evaluated by PyKernel on every request:
    they must not hand back uninitialised memory, keep state, or write their arguments."""
    from .. import tables
    n = 0
    for mid, md in sorted(tables.models().items()):
        for fname, fn in sorted(md.functions.items()):
            if fname in ("random", "profile") or fname.startswith("test"):
                continue
            n += 1
            bad = []
            params = {a.arg for a in fn.args.args}
            for node in ast.walk(fn):
                if isinstance(node, ast.Assign) and isinstance(node.value, ast.Call) and len(node.targets) == 1 and isinstance(node.targets[0], ast.Name):
                    nm = pf.call_name(node.value) or ""
                    if nm.split(".")[-1] in ("empty", "empty_like", "ndarray") and nm.split(".")[0] in ("np", "numpy", "empty", "empty_like", "ndarray"):
                        X = node.targets[0].id
                        why = _uncovered_return(fn, X, node)
                        if why:
                            bad.append((node, "%s(...) allocates uninitialised memory and %s: the call echoes whatever an earlier "
                                              "evaluation left on the heap" % (nm, why)))
                elif isinstance(node, ast.Call):
                    nm = pf.call_name(node) or ""
                    par = None
                    if nm.split(".")[-1] in ("empty", "empty_like", "ndarray") and nm.split(".")[0] in ("np", "numpy", "empty", "empty_like", "ndarray"):
                        # an allocation that is not simply bound to a name cannot be followed
                        holders = [x for x in ast.walk(fn) if isinstance(x, ast.Assign) and x.value is node]
                        if not holders:
                            bad.append((node, "%s(...) allocates uninitialised memory that is used without being bound to a name" % nm))
                elif isinstance(node, (ast.Global, ast.Nonlocal)):
                    bad.append((node, "`%s %s` keeps state between evaluations" % (type(node).__name__.lower(), ", ".join(node.names))))
                elif isinstance(node, (ast.Assign, ast.AugAssign)):
                    tg = node.targets if isinstance(node, ast.Assign) else [node.target]
                    for t in tg:
                        root = t
                        while isinstance(root, (ast.Subscript, ast.Attribute)):
                            root = root.value
                        if isinstance(t, (ast.Subscript, ast.Attribute)) and isinstance(root, ast.Name):
                            if root.id == fn.name or (isinstance(t, ast.Attribute) and root.id not in params
                                                      and root.id not in {x.id for x in ast.walk(fn) if isinstance(x, ast.Name) and isinstance(x.ctx, ast.Store)}):
                                bad.append((node, "write to `%s`: state outside the call" % pf.unparse(t)))
            for d in fn.args.defaults + fn.args.kw_defaults:
                if isinstance(d, (ast.List, ast.Dict, ast.Set)):
                    bad.append((d, "mutable default argument keeps state between calls"))
            # the q arguments are the kernel's own persistent input arrays (PyInput.q is filled once per kernel and handed to the
            # model by reference on every call): no in-place update of them, of a view of them, or of any array argument
            order = [a.arg for a in fn.args.args]
            qargs = set(order[:2] if fname == "Iqxy" else order[:1]) if fname in ("Iq", "Iqxy", "Fq") else set()
            views = {p_: p_ for p_ in params}        # name -> parameter it may alias
            VIEW_CALLS = ("asarray", "reshape", "ravel", "squeeze", "view", "transpose", "atleast_1d", "asanyarray")
            for node in ast.walk(fn):
                if isinstance(node, ast.Assign) and len(node.targets) == 1 and isinstance(node.targets[0], ast.Name):
                    v = node.value
                    src = None
                    if isinstance(v, ast.Name):
                        src = v.id
                    elif isinstance(v, ast.Subscript) and isinstance(v.value, ast.Name) and isinstance(v.slice, (ast.Slice, ast.Tuple)):
                        src = v.value.id
                    elif isinstance(v, ast.Attribute) and v.attr == "T" and isinstance(v.value, ast.Name):
                        src = v.value.id
                    elif isinstance(v, ast.Call) and (pf.call_name(v) or "").split(".")[-1] in VIEW_CALLS:
                        cand = ([v.func.value] if isinstance(v.func, ast.Attribute) else []) + list(v.args[:1])
                        for c_ in cand:
                            if isinstance(c_, ast.Name) and c_.id in views:
                                src = c_.id
                    if src in views and node.targets[0].id not in params:
                        views[node.targets[0].id] = views[src]
            INPLACE = ("sort", "fill", "resize", "put", "itemset", "partition", "clip")
            for node in ast.walk(fn):
                hit = None
                if isinstance(node, ast.AugAssign):
                    t = node.target
                    root = t
                    while isinstance(root, (ast.Subscript, ast.Attribute)):
                        root = root.value
                    if isinstance(root, ast.Name) and root.id in views:
                        par = views[root.id]
                        if par in qargs or isinstance(t, ast.Subscript):
                            hit = par
                elif isinstance(node, ast.Assign):
                    for t in node.targets:
                        if isinstance(t, ast.Subscript):
                            root = t
                            while isinstance(root, (ast.Subscript, ast.Attribute)):
                                root = root.value
                            if isinstance(root, ast.Name) and root.id in views:
                                hit = views[root.id]
                elif isinstance(node, ast.Call):
                    for kw in node.keywords:
                        if kw.arg == "out" and isinstance(kw.value, ast.Name) and kw.value.id in views:
                            hit = views[kw.value.id]
                    if isinstance(node.func, ast.Attribute) and node.func.attr in INPLACE and isinstance(node.func.value, ast.Name) \
                            and node.func.value.id in views and (node.func.attr != "clip" or any(k.arg == "out" for k in node.keywords)):
                        hit = views[node.func.value.id]
                if hit:
                    bad.append((node, "updates its argument `%s` in place: PyKernel hands the model its own persistent q array (and views "
                                      "of the parameter vector) by reference, so the next evaluation of the same kernel starts from the "
                                      "modified values" % hit))
            # module-level mutable objects (sets, lists, dicts of the model file) are shared by every call: a local bound to
            # one of them by plain assignment is the same object, so an in-place update through it persists
            mglob = set()
            for st_ in md.tree.body:
                if isinstance(st_, ast.Assign) and len(st_.targets) == 1 and isinstance(st_.targets[0], ast.Name):
                    v_ = st_.value
                    if isinstance(v_, (ast.List, ast.Dict, ast.Set, ast.ListComp, ast.DictComp, ast.SetComp)) or \
                            (isinstance(v_, ast.Call) and (pf.call_name(v_) or "").split(".")[-1] in
                             ("set", "list", "dict", "OrderedDict", "defaultdict", "union", "copy", "array", "zeros", "ones", "empty")):
                        mglob.add(st_.targets[0].id)
            stored = {x.id for x in ast.walk(fn) if isinstance(x, ast.Name) and isinstance(x.ctx, ast.Store)} | params
            declared = {n_ for g_ in ast.walk(fn) if isinstance(g_, ast.Global) for n_ in g_.names}
            galias = {g_: g_ for g_ in mglob if g_ not in stored or g_ in declared}
            # import-time set-up helpers (called from the module body, i.e. once per load of the file) may build the module's tables
            init_time = any(isinstance(c_, ast.Call) and isinstance(c_.func, ast.Name) and c_.func.id == fname
                            for st_ in md.tree.body if not isinstance(st_, (ast.FunctionDef, ast.ClassDef)) for c_ in ast.walk(st_))
            if init_time:
                galias = {}
            for node in ast.walk(fn):
                if isinstance(node, ast.Assign) and len(node.targets) == 1 and isinstance(node.targets[0], ast.Name) \
                        and isinstance(node.value, ast.Name) and node.value.id in galias:
                    galias[node.targets[0].id] = galias[node.value.id]
            MUT = ("add", "update", "append", "extend", "insert", "pop", "remove", "discard", "clear", "sort", "reverse", "setdefault",
                   "popitem", "difference_update", "intersection_update", "symmetric_difference_update")
            for node in ast.walk(fn):
                g_hit = None
                if isinstance(node, ast.AugAssign):
                    root = node.target
                    while isinstance(root, (ast.Subscript, ast.Attribute)):
                        root = root.value
                    if isinstance(root, ast.Name) and root.id in galias:
                        g_hit = galias[root.id]
                elif isinstance(node, ast.Assign):
                    for t in node.targets:
                        if isinstance(t, ast.Subscript):
                            root = t
                            while isinstance(root, (ast.Subscript, ast.Attribute)):
                                root = root.value
                            if isinstance(root, ast.Name) and root.id in galias:
                                g_hit = galias[root.id]
                elif isinstance(node, ast.Call) and isinstance(node.func, ast.Attribute) and node.func.attr in MUT \
                        and isinstance(node.func.value, ast.Name) and node.func.value.id in galias:
                    g_hit = galias[node.func.value.id]
                if g_hit:
                    bad.append((node, "updates the module-level object `%s` in place (through a local bound to it): every later call, "
                                      "in this and every other model instance, sees the accumulated value" % g_hit))
            for node, why in bad:
                r.violation(md.relpath, fname, pf.unparse(node)[:70], getattr(node, "lineno", fn.lineno), why)
            if not bad:
                r.ok(md.relpath, fname, "no uninitialised allocation, no state kept", fn.lineno)
    if n < 20:
        raise AnalysisError("python functions of the model files not found (%d)" % n)


# --------------------------------------------------------------------------------------------- C07/C14: the amplitude is signed
def sign_unit(unit, extra):
    """Worker: in a model's Fq, the amplitude output is not obtained through sqrt/fabs (which would drop its sign)."""
    from .. import cfront
    from ..nf import c_callee, c_text, c_strip
    from ..ckernel import kids, norm
    out = []
    f = unit.functions.get("Fq")
    if f is None or unit.body(f) is None:
        return out
    params = [p["name"] for p in unit.params(f)]
    if len(params) < 3:
        return out
    f1 = params[1]
    ff, ll = unit.where(f)
    n = 0
    for x in cfront.walk(unit.body(f)):
        if x.get("kind") == "BinaryOperator" and x.get("opcode") == "=":
            lhs = norm(c_text(kids(x)[0]))
            if lhs == "*" + f1:
                n += 1
                rhs = c_strip(kids(x)[1])
                bad = rhs.get("kind") == "CallExpr" and c_callee(rhs) in ("sqrt", "fabs", "abs")
                f2, l2 = unit.where(x)
                out.append(("R-C14-sign", "violation" if bad else "ok", f2, "%s:Fq" % unit.name, "*%s = %s" % (f1, c_text(kids(x)[1])[:60]), l2,
                            "the amplitude <F> is a signed quantity: taking it as %s(...) makes every mesh point contribute |F|, so "
                            "<F>^2 (beta approximation) is overestimated wherever the amplitude changes sign over the mesh" % c_callee(rhs)
                            if bad else "signed amplitude"))
    if n == 0:
        out.append(("R-C14-sign", "violation", ff, "%s:Fq" % unit.name, "store to *%s" % f1, ll, "Fq never writes its amplitude output"))
    return out


_sign_cache = None


def make_sign_rule(rule_id_out):
    def run(r):
        global _sign_cache
        if _sign_cache is None:
            from .. import cfront
            _sign_cache = cfront.map_units("sa.rules.extra3:sign_unit")
        for unit, rows in sorted(_sign_cache.items()):
            for row in rows:
                _, status, f, fn, construct, line, detail = row
                getattr(r, status)(f, fn, construct, line, detail)
    return run


# --------------------------------------------------------------------------------------------- C14: removable singularities are guarded
def _degen_alternatives(e, limit=32):
    """Resolve where(c, a, b) nodes of `e` (after a substitution p := q): a condition comparing two structurally equal operands is
    decided, any other condition keeps both alternatives."""
    import sympy as sp
    def rec(x):
        if not getattr(x, "args", None):
            return [x]
        fname = getattr(getattr(x, "func", None), "__name__", "")
        if fname == "where" and len(x.args) == 3:
            c, a, b = x.args
            cname = getattr(getattr(c, "func", None), "__name__", "")
            if cname in ("c_lt", "c_gt", "c_ne", "c_le", "c_ge", "c_eq") and len(c.args) == 2 and sp.simplify(c.args[0] - c.args[1]) == 0:
                return rec(b) if cname in ("c_lt", "c_gt", "c_ne") else rec(a)
            return (rec(a) + rec(b))[:limit]
        alts = [[]]
        for arg in x.args:
            ra = rec(arg)
            alts = [p + [v] for p in alts for v in ra][:limit]
        out = []
        for p in alts:
            try:
                out.append(x.func(*p))
            except Exception:
                pass
        return out
    return rec(e)


def degen_unit(unit, extra):
    """Worker: in the functions that compute the reported radius and volumes, a denominator that vanishes identically when two of
    the function's own parameters are equal (a removable singularity: the sphere limit of an ellipsoid formula) is only reached
    behind a test for that equality."""
    import sympy as sp
    from .. import cfront
    from ..nf import CInterp, c_text, c_strip, c_callee, sym
    from ..ckernel import kids
    from ..report import AnalysisError
    out = []
    roots = [n for n in ("radius_effective", "form_volume", "shell_volume") if n in unit.functions and unit.body(unit.functions[n]) is not None]
    seen, todo = set(), list(roots)
    while todo:
        n = todo.pop()
        if n in seen:
            continue
        seen.add(n)
        for x in cfront.walk(unit.body(unit.functions[n])):
            if x.get("kind") == "CallExpr":
                c = c_callee(x)
                if c in unit.functions and unit.body(unit.functions[c]) is not None and c not in seen:
                    todo.append(c)

    def pair_of(cond, pnames):
        c = c_strip(cond)
        if c.get("kind") == "BinaryOperator" and c.get("opcode") in ("==", "!="):
            a, b = (c_strip(k) for k in kids(c))
            if a.get("kind") == b.get("kind") == "DeclRefExpr":
                na, nb = a["referencedDecl"]["name"], b["referencedDecl"]["name"]
                if na in pnames and nb in pnames and na != nb:
                    return c["opcode"], frozenset((na, nb))
        return None, None

    def returns(st):
        if st.get("kind") == "ReturnStmt":
            return True
        if st.get("kind") == "CompoundStmt":
            inner = st.get("inner", [])
            return bool(inner) and returns(inner[-1])
        return False

    for name in sorted(seen):
        f = unit.functions[name]
        pnames = [p["name"] for p in unit.params(f) if p["type"]["qualType"].replace("const ", "").strip() in ("double", "float")]
        if len(pnames) < 2:
            continue
        it = CInterp(unit.functions, opaque_loops=True)
        ndiv = [0]

        def check_expr(e, env, guards):
            for x in cfront.walk(e):
                if x.get("kind") in ("BinaryOperator", "CompoundAssignOperator") and x.get("opcode") in ("/", "/="):
                    den = kids(x)[1]
                    try:
                        d = it.expr(den, dict(env))
                    except (AnalysisError, Exception):
                        continue
                    if not hasattr(d, "free_symbols"):
                        continue
                    ndiv[0] += 1
                    names = {str(s) for s in d.free_symbols}
                    for i, p in enumerate(pnames):
                        for q in pnames[i + 1:]:
                            if p not in names and q not in names:
                                continue
                            sub = d.subs(sym(p), sym(q))
                            zero = False
                            for alt in _degen_alternatives(sub):
                                try:
                                    if sp.simplify(alt) == 0:
                                        zero = True
                                        break
                                except Exception:
                                    pass
                            if not zero:
                                continue
                            ok = frozenset((p, q)) in guards
                            ff, ll = unit.where(x)
                            out.append(("R-C14-degenerate", "ok" if ok else "violation", ff, "%s:%s" % (unit.name, name),
                                        "%s is zero when %s == %s" % (c_text(den)[:60], p, q), ll,
                                        "reached only behind a test for %s == %s" % (p, q) if ok else
                                        "the divisor vanishes identically at %s == %s (an admissible, and for equal-centred "
                                        "distributions common, parameter point) and no earlier test for that equality returns the "
                                        "limiting value: the function evaluates 0/0 there and the reported radius/volume is NaN" % (p, q)))

        def walk_block(stmts, env, guards):
            guards = set(guards)
            for st in stmts:
                k = st.get("kind")
                if k == "IfStmt":
                    inner = st["inner"]
                    cond, then = inner[0], inner[1]
                    els = inner[2] if len(inner) > 2 else None
                    check_expr(cond, env, guards)
                    op, pr = pair_of(cond, pnames)
                    g_then = guards | ({pr} if op == "!=" else set())
                    g_else = guards | ({pr} if op == "==" else set())
                    walk_block(then.get("inner", []) if then.get("kind") == "CompoundStmt" else [then], dict(env), g_then)
                    if els is not None:
                        walk_block(els.get("inner", []) if els.get("kind") == "CompoundStmt" else [els], dict(env), g_else)
                    if op == "==" and returns(then):
                        guards.add(pr)
                    if op == "!=" and els is not None and returns(els):
                        guards.add(pr)
                    it._havoc(st, env)
                elif k == "CompoundStmt":
                    walk_block(st.get("inner", []), env, guards)
                elif k in ("ForStmt", "WhileStmt", "DoStmt", "SwitchStmt"):
                    it._havoc(st, env)
                    for sub in st.get("inner", []):
                        if isinstance(sub, dict) and sub.get("kind"):
                            if sub.get("kind") == "CompoundStmt":
                                walk_block(sub.get("inner", []), dict(env), guards)
                            else:
                                walk_block([sub], dict(env), guards)
                elif k in ("CaseStmt", "DefaultStmt"):
                    walk_block([st["inner"][-1]], env, guards)
                else:
                    check_expr(st, env, guards)
                    try:
                        it.stmt(st, env)
                    except CInterp.Return:
                        pass
                    except (AnalysisError, Exception):
                        it._havoc(st, env)

        env = {p["name"]: sym(p["name"]) for p in unit.params(f)}
        walk_block(unit.body(f).get("inner", []), env, set())
        ff, ll = unit.where(f)
        out.append(("R-C14-degenerate", "ok", ff, "%s:%s" % (unit.name, name), "%d divisions examined for equal-parameter zeros" % ndiv[0], ll, ""))
    return out


_degen_cache = None


def rule_c14_degenerate(r):
    global _degen_cache
    if _degen_cache is None:
        from .. import cfront
        _degen_cache = cfront.map_units("sa.rules.extra3:degen_unit")
    for unit, rows in sorted(_degen_cache.items()):
        for row in rows:
            _, status, f, fn, construct, line, detail = row
            getattr(r, status)(f, fn, construct, line, detail)


# --------------------------------------------------------------------------------------------- C18: who may remove a published library
_RM_SINKS = {"os.remove": 0, "os.unlink": 0, "remove": 0, "unlink": 0, "os.rmdir": 0, "shutil.rmtree": 0, "rmtree": 0,
             "os.rename": None, "os.replace": None, "shutil.move": None, "os.truncate": 0}
_DLL_SOURCES = ("dll_path", "make_dll", "dll_name")


def rule_c18_owner(r):
    """A library published under its final cache name is shared by every process that looked it up; only make_dll (which
    publishes by rename, checked by R-C18-publish) may replace it and nothing in the library may remove it.  Every call in
    sasmodels/*.py that removes, renames or truncates a file is enumerated; its path argument must not be a cache path
    (a `.dllpath` attribute, or a value obtained from dll_path()/make_dll()), directly, through a local, or through a helper
    or a registered callback (atexit.register, weakref.finalize ...) that forwards its argument to such a call."""
    import glob
    files = sorted(glob.glob(os.path.join(pf.REPO, "sasmodels", "*.py")))
    mods = [pf.module("sasmodels/" + os.path.basename(f)) for f in files]

    def tainted_names(fn):
        names = set()
        changed = True
        assigns = [s for s in pf.walk_stmts(fn) if isinstance(s, (ast.Assign, ast.AnnAssign)) and getattr(s, "value", None) is not None]
        def is_tainted(e):
            for n in ast.walk(e):
                if isinstance(n, ast.Attribute) and n.attr == "dllpath":
                    return True
                if isinstance(n, ast.Call) and (pf.call_name(n) or "").split(".")[-1] in _DLL_SOURCES:
                    return True
                if isinstance(n, ast.Name) and n.id in names:
                    return True
            return False
        while changed:
            changed = False
            for a in assigns:
                if is_tainted(a.value):
                    for nm in pf.assigned_names(a):
                        if nm not in names:
                            names.add(nm)
                            changed = True
        return is_tainted

    def sink_args(c):
        nm = pf.call_name(c) or ""
        if nm.split(".")[-1] == "open" and nm in ("open", "io.open", "os.open", "codecs.open") and c.args:
            mode = c.args[1] if len(c.args) > 1 else next((k.value for k in c.keywords if k.arg == "mode"), None)
            mtxt = pf.unparse(mode) if mode is not None else "'r'"
            if any(ch in mtxt for ch in "wax+") or "O_WRONLY" in mtxt or "O_RDWR" in mtxt or "O_CREAT" in mtxt or "O_TRUNC" in mtxt:
                return [c.args[0]]
            return None
        if nm.split(".")[-1] in ("copy", "copy2", "copyfile", "copyfileobj") and nm.startswith("shutil") and len(c.args) > 1:
            return [c.args[1]]
        if nm.split(".")[-1] in ("write_bytes", "write_text") and isinstance(c.func, ast.Attribute):
            return [c.func.value]
        if nm in _RM_SINKS:
            idx = _RM_SINKS[nm]
            return list(c.args) if idx is None else list(c.args[idx:idx + 1])
        return None

    # helpers that forward a parameter into a sink: name -> set(param index)
    removers = {}
    for mod in mods:
        for qual, fn in mod.functions.items():
            ps = pf.positional_params(fn)
            for c in pf.calls_in(fn):
                args = sink_args(c)
                for a in args or []:
                    for n in ast.walk(a):
                        if isinstance(n, ast.Name) and n.id in ps:
                            removers.setdefault(qual.split(".")[-1], set()).add(ps.index(n.id))
    n_sites = 0
    for mod in mods:
        scopes = list(mod.functions.items()) + [("<module>", mod.tree)]
        for qual, fn in sorted(scopes, key=lambda kv: kv[0]):
            is_tainted = tainted_names(fn)
            own = fn.body if qual != "<module>" else [s for s in mod.tree.body if not isinstance(s, (ast.FunctionDef, ast.ClassDef))]
            for st in own:
                for c in (x for x in ast.walk(st) if isinstance(x, ast.Call)):
                    if qual != "<module>" and mod.parents.get(c) is not None:
                        # calls of nested functions are visited with their own scope as well; harmless duplicates are merged below
                        pass
                    args = sink_args(c)
                    how = None
                    if args is not None:
                        how = pf.call_name(c)
                    else:
                        # a remover helper called, or passed as a callback next to the value it will receive
                        cn = (pf.call_name(c) or "").split(".")[-1]
                        if cn in removers:
                            args = [c.args[i] for i in removers[cn] if i < len(c.args)]
                            how = "%s -> remove" % cn
                        else:
                            cb = [a for a in c.args if isinstance(a, (ast.Name, ast.Attribute)) and pf.unparse(a).split(".")[-1] in removers]
                            if cb:
                                args = [a for a in c.args if a not in cb] + [k.value for k in c.keywords]
                                how = "%s(%s, ...) -> remove" % (pf.call_name(c), pf.unparse(cb[0]))
                            lam = [a for a in c.args if isinstance(a, ast.Lambda) and any(sink_args(x) for x in ast.walk(a) if isinstance(x, ast.Call))]
                            if lam and args is None:
                                args = [x2 for a in lam for x in ast.walk(a) if isinstance(x, ast.Call) for x2 in (sink_args(x) or [])]
                                how = "%s(lambda: remove)" % pf.call_name(c)
                    if args is None:
                        continue
                    n_sites += 1
                    bad = [pf.unparse(a) for a in args if is_tainted(a)]
                    leaf = qual.split(".")[-1]
                    if qual in ("make_dll",) and mod.relpath.endswith("kerneldll.py"):
                        r.ok(mod.relpath, qual, "%s(%s)" % (how, ", ".join(pf.unparse(a) for a in args)[:70]), c.lineno,
                             "the publisher itself (ordering checked by R-C18-publish)")
                    elif leaf.startswith("test_") or leaf.startswith("_test"):
                        r.ok(mod.relpath, qual, "%s(%s)" % (how, ", ".join(pf.unparse(a) for a in args)[:70]), c.lineno,
                             "test function cleaning up the throw-away model it built itself; not reachable from the library API")
                    else:
                        r.check(not bad, mod.relpath, qual, "%s(%s)" % (how, ", ".join(pf.unparse(a) for a in args)[:70]), c.lineno,
                                "not a cache path" if not bad else
                                "removes, replaces or writes the published library %s outside make_dll's temporary-name-then-rename "
                                "protocol: another process that found it in the cache and has not yet opened it (loading is lazy) fails "
                                "to load or loads a partial file, and a killed writer leaves a truncated library under the final name" % bad)
    if n_sites < 4:
        raise AnalysisError("R-C18-owner: only %d file-removing call sites found (anchor moved?)" % n_sites)


# --------------------------------------------------------------------------------------------- C15: converted sources, token by token
_TOK = None


def c_lex(text):
    """C tokens of `text` (comments and white space dropped): [(kind, spelling)] with kind in str/num/id/punct.  `num` is a C
    preprocessing number."""
    global _TOK
    import re
    if _TOK is None:
        _TOK = re.compile(r"""
            (?P<ws>\s+)
          | (?P<comment>/\*.*?\*/|//[^\n]*)
          | (?P<str>"(?:\\.|[^"\\\n])*"|'(?:\\.|[^'\\\n])*')
          | (?P<num>\.?\d(?:[eEpP][+-]|[\w.])*)
          | (?P<id>[A-Za-z_]\w*)
          | (?P<punct>\#\#|<<=|>>=|\.\.\.|->|\+\+|--|<<|>>|<=|>=|==|!=|&&|\|\||[-+*/%&|^]=|.)
        """, re.X | re.S)
    return [(m.lastgroup, m.group()) for m in _TOK.finditer(text) if m.lastgroup not in ("ws", "comment")]


def rule_c15_tokens(r):
    """For every compiled model the generator's dll source is converted by generate.convert_type to single, double and long
    double precision (generator step, text only); each converted text is lexed as C and compared, token by token, with the
    token stream the property prescribes for the unconverted text: `#define FLOAT_SIZE n` in front; every decimal floating
    constant without suffix (C99 6.4.4.2) gets the suffix; identifiers double / doubleN / cdouble[N] become the type name;
    an integer constant that is the first argument of a type-generic math call becomes `<int>.<suffix>`; every other token
    is identical."""
    import re
    from .. import cfront
    DECFLOAT = re.compile(r"^(?:(?:\d+\.\d*|\.\d+)(?:[eE][+-]?\d+)?|\d+[eE][+-]?\d+)$")
    INT = re.compile(r"^(?:0|[1-9]\d*)$")
    TG = re.compile(r"^(a?(sin|cos|tan)h?|atan2|erfc?|tgamma|exp(2|10|m1)?|log(2|10|1p)?|pow[nr]?|sqrt|rsqrt|rootn|fabs|fmax|fmin)$")
    KW = re.compile(r"^c?double([248]|16)?$")
    idx = cfront.generate_units()
    TAGS = {"f32": ("float", "f", 4), "f64": (None, "", 8), "f128": ("long double", "L", 16)}
    totals = {"literals": 0, "keywords": 0, "promotions": 0}
    for name, meta in sorted(idx["models"].items()):
        if meta.get("kind") != "c":
            continue
        with open(meta["unit"]) as fd:
            raw = c_lex(fd.read())
        # `long double` written in the double-precision source: the keyword rewrite only knows `double`, so the pair becomes
        # `long float` (single) and `long long double` (long double), neither of which is a type
        for i_ in range(len(raw) - 1):
            if raw[i_] == ("id", "long") and raw[i_ + 1][0] == "id" and raw[i_ + 1][1] in ("double", "float"):
                ctx = " ".join(t for _, t in raw[max(0, i_ - 3):i_ + 5])
                r.violation("sasmodels/generate.py", "convert_type", "%s: `long %s` in the source" % (name, raw[i_ + 1][1]), 0,
                            "the source of %s declares a `long %s` (near: %s): the keyword rewrite turns it into `long float` for single and "
                            "`long long double` for long double precision, which no compiler accepts" % (name, raw[i_ + 1][1], ctx[:80]))
                break
        conv = meta.get("conv") or {}
        if "f32" not in conv or "f64" not in conv:
            raise AnalysisError("generator wrote no converted sources for %s" % name)
        for tag, (tn, flag, size) in sorted(TAGS.items()):
            if tag not in conv:
                continue        # long double is not available on every platform's numpy
            with open(conv[tag]) as fd:
                got = c_lex(fd.read())
            exp = [("punct", "#"), ("id", "define"), ("id", "FLOAT_SIZE"), ("num", str(size))]
            for i, (k, t) in enumerate(raw):
                if k == "num" and DECFLOAT.match(t):
                    exp.append((k, t + flag))
                    totals["literals"] += 1
                elif k == "num" and INT.match(t):
                    j = i - 1
                    if j >= 0 and raw[j] in (("punct", "+"), ("punct", "-")):
                        j -= 1
                    if j >= 1 and raw[j] == ("punct", "(") and raw[j - 1][0] == "id" and TG.match(raw[j - 1][1]) \
                            and i + 1 < len(raw) and raw[i + 1][1] in (",", ")"):
                        exp.append((k, t + "." + flag))
                        totals["promotions"] += 1
                    else:
                        exp.append((k, t))
                elif k == "id" and tn and KW.match(t):
                    exp.extend(c_lex(t.replace("double", tn)))
                    totals["keywords"] += 1
                else:
                    exp.append((k, t))
            diff = None
            if exp != got:
                for n_, (a, b) in enumerate(zip(exp, got)):
                    if a != b:
                        ctx = " ".join(t for _, t in got[max(0, n_ - 4):n_ + 3])
                        diff = "token %d: expected `%s`, converted source has `%s` (near: %s)" % (n_, a[1], b[1], ctx[:80])
                        break
                else:
                    diff = "token count differs: expected %d, converted source has %d" % (len(exp), len(got))
            r.check(diff is None, "sasmodels/generate.py", "convert_type", "%s -> %s: %d tokens" % (name, tag, len(got)), 0,
                    "only floating keywords and constants differ from the double-precision source" if diff is None else diff)
    if totals["literals"] < 1000 or totals["keywords"] < 1000:
        raise AnalysisError("token rule saw only %s conversions" % totals)


def f32_unit(unit, extra):
    """Worker: the single-precision OpenCL source of the unit parsed (by clang's OpenCL front end): every function of the
    double-precision unit is there."""
    return sorted(n for n, f in unit.functions.items() if unit.body(f) is not None)


def rule_c15_builds(r):
    """The single-precision OpenCL source of every model (the default GPU precision) is accepted by clang's OpenCL front end
    and defines the same functions as the double-precision source: a constant or keyword mangled by the conversion (`x1e3f`,
    `floatfoo`) is an undeclared identifier or a syntax error here."""
    from .. import cfront
    try:
        f32 = cfront.map_units("sa.rules.extra3:f32_unit", config="opencl-f32")
    except AnalysisError as exc:
        msg = str(exc)
        if "clang failed" in msg:
            import re
            from .. import cfront as _cf
            m = re.search(r"clang failed on (\S+): \[[\"'](.*?):(\d+):\d+: error: (.*?)[\"'],", msg)
            if m:
                r.violation(_cf.repo_path(m.group(2)), m.group(1), "single-precision OpenCL source of the model is accepted by the OpenCL C front end",
                            int(m.group(3)), "clang -x cl rejects the converted source: %s - a declaration that escapes the keyword rewrite "
                            "(SAS_DOUBLE) meets a converted signature, or a constant/keyword was mangled" % m.group(4))
            else:
                r.violation("sasmodels/generate.py", "convert_type", "single-precision OpenCL source parses", 0, msg[:300])
            return
        raise
    try:
        f64 = cfront.map_units("sa.rules.extra3:f32_unit", config="opencl")
    except AnalysisError as exc:
        import re
        from .. import cfront as _cf
        m = re.search(r"clang failed on (\S+): \[[\"'](.*?):(\d+):\d+: error: (.*?)[\"'],", str(exc))
        if not m:
            raise
        r.violation(_cf.repo_path(m.group(2)), m.group(1), "double-precision OpenCL source of the model is accepted by the OpenCL C front end",
                    int(m.group(3)), "clang -x cl rejects the source: %s" % m.group(4))
        return
    for name, fns in sorted(f32.items()):
        base = name.split("@")[0]
        ref = f64.get(base + "@opencl")
        # FLOAT_SIZE-conditional library code legitimately selects other helpers (cephes_j1 / cephes_j1f)
        missing = [f for f in (ref or []) if f not in fns and f + "f" not in fns]
        r.check(ref is not None and not missing, "sasmodels/generate.py", "convert_type", "%s: %d functions in the single-precision unit" % (base, len(fns)), 0,
                "same functions as the double-precision unit" if not missing else "missing after conversion: %s" % missing[:5])


# --------------------------------------------------------------------------------------------- C20: table rows through time
def rule_c20_rows(r):
    """The constant-folded conversion table against the confirmed reference (sa/reftable.json): the legacy model and parameter
    names are not recorded anywhere else in the repository, so a row that silently stops translating a legacy name (an
    overriding entry lost in a rewritten dict expression) can only be seen against what the table said before.  For every
    (version, model) row of the reference the current table has the same legacy model name and every (new name -> old name)
    pair of the reference row; new rows and new pairs are not differences."""
    import json
    from .. import tables
    p = os.path.join(os.path.dirname(os.path.dirname(os.path.abspath(__file__))), "reftable.json")
    try:
        with open(p) as fd:
            ref = json.load(fd)
    except (OSError, ValueError) as exc:
        raise AnalysisError("reference conversion table unreadable: %s" % exc)
    table, _ = tables.conversion_table()
    cur = {".".join(map(str, v)): rows for v, rows in table.items()}
    T = "sasmodels/conversion_table.py"
    n = 0
    for version, rows in sorted(ref.items()):
        if version not in cur:
            r.violation(T, "CONVERSION_TABLE", "version %s" % version, 0, "the reference table has conversions for this version")
            continue
        for model, (old_model, pairs) in sorted(rows.items()):
            fn = "CONVERSION_TABLE[(%s)][%s]" % (version.replace(".", ", "), model)
            e = cur[version].get(model)
            if e is None:
                r.violation(T, fn, "row for %s" % model, 0, "row removed: sets saved for %s are no longer translated" % old_model)
                continue
            n += 1
            lost = []
            for new, old in sorted(pairs.items()):
                if new not in e[1] or e[1][new] != old:
                    lost.append("%s: %r (now %r)" % (new, old, e[1].get(new, "<absent>")))
            ok = e[0] == old_model and not lost
            r.check(ok, T, fn, "legacy model %s, %d name pairs" % (old_model, len(pairs)), 0,
                    "every confirmed (new -> legacy) pair is still in the row" if ok else
                    ("legacy model name is now %r" % e[0] if e[0] != old_model else
                     "pairs lost or changed: %s - the legacy names on the right are no longer translated" % "; ".join(lost[:4])))
    if n < 60:
        raise AnalysisError("R-C20-rows: only %d rows compared" % n)


# --------------------------------------------------------------------------------------------- C07/C14: min/max effective-radius modes
def minmax_unit(unit, extra):
    """Worker: an effective-radius mode whose name says `min` (`max`) returns the smaller (larger) of its candidates.  The C
    function is interpreted symbolically for that mode; every selection `c ? A : B` in the result must be decided by a
    comparison whose sign agrees with the sign of A - B for all positive parameter values (the ratio (A-B)/(lhs-rhs) is
    sign-definite), with the polarity the mode name asks for.  A selection keyed on something else (a flag derived from
    one of several parameters) picks the wrong candidate for some shapes."""
    import re
    from ..nf import CInterp
    out = []
    modes = (extra or {}).get("modes", {}).get(unit.name)
    if not modes or "radius_effective" not in unit.functions or unit.body(unit.fn("radius_effective")) is None:
        return out
    f = unit.fn("radius_effective")
    ff, ll = unit.where(f)
    pn = [p["name"] for p in unit.params(f)]

    def fname(e):
        return getattr(getattr(e, "func", None), "__name__", "")

    def pos(e):
        return e.xreplace({s_: sp.Symbol(s_.name, positive=True) for s_ in e.free_symbols})

    def verify(e, kind, problems):
        """-> value expression with verified selections replaced by an opaque positive symbol"""
        if e.is_Mul:
            consts = [a for a in e.args if a.is_Number]
            rest = [a for a in e.args if not a.is_Number]
            if consts and all(c > 0 for c in consts) and len(rest) == 1 and fname(rest[0]) in ("where", "Min", "Max"):
                return sp.Mul(*consts) * verify(rest[0], kind, problems)
        if isinstance(e, (sp.Min, sp.Max)):
            want = sp.Min if kind == "min" else sp.Max
            if not isinstance(e, want):
                problems.append("%s used in a %s mode" % (type(e).__name__, kind))
            return sp.Symbol("sel_%d" % abs(hash(str(e))), positive=True)
        if fname(e) != "where":
            return e
        c, a, b = e.args
        cn = fname(c)
        if cn not in ("c_lt", "c_gt", "c_le", "c_ge"):
            problems.append("selection on `%s`, which is not an ordering comparison" % c)
            return sp.Symbol("sel_%d" % abs(hash(str(e))), positive=True)
        l, r_ = (verify(x, kind, problems) for x in c.args)
        av, bv = verify(a, kind, problems), verify(b, kind, problems)
        try:
            rho = sp.simplify(pos(sp.together(av - bv)) / pos(sp.together(l - r_)))
        except Exception:
            rho = None
        # picks A when l < r (lt/le) or when l > r (gt/ge); a min needs A <= B then
        want_positive = (cn in ("c_lt", "c_le")) == (kind == "min")
        ok = rho is not None and (rho.is_positive if want_positive else rho.is_negative)
        if not ok:
            problems.append("`%s ? %s : %s`: (A - B)/(lhs - rhs) = %s is not %s for all positive parameters" % (
                str(c).replace("c_lt", "lt").replace("c_gt", "gt"), a, b, rho, "positive" if want_positive else "negative"))
        return sp.Symbol("sel_%d" % abs(hash(str(e))), positive=True)

    for i, name in enumerate(modes, 1):
        m = re.search(r"\b(min|max)\b", name)
        if not m:
            continue
        kind = m.group(1)
        try:
            it = CInterp(unit.functions, facts={"mode": i})
            got = it.call("radius_effective", [sp.Integer(i)] + [sym(p) for p in pn[1:]])
        except AnalysisError as exc:
            out.append(("R-C14-minmax", "note", ff, "%s:radius_effective" % unit.name, "mode %d %r" % (i, name), ll, "cannot evaluate: %s" % exc))
            continue
        problems = []
        if got is None:
            problems.append("no value returned")
        else:
            sel = [t for t in sp.preorder_traversal(got) if fname(t) == "where" or isinstance(t, (sp.Min, sp.Max))]
            if not sel:
                problems.append("returns %s without selecting among candidates" % got)
            verify(got, kind, problems)
        out.append(("R-C14-minmax", "violation" if problems else "ok", ff, "%s:radius_effective" % unit.name, "mode %d %r" % (i, name), ll,
                    "; ".join(problems)[:400] if problems else "every selection is decided by the ordering of its own candidates"))
    return out


_minmax_cache = None


def rule_c14_minmax(r):
    global _minmax_cache
    if _minmax_cache is None:
        from .. import cfront
        from . import c14
        modes = c14._c_results().get("__modes__")
        if modes is None:
            raise AnalysisError("mode lists unavailable")
        _minmax_cache = cfront.map_units("sa.rules.extra3:minmax_unit", extra={"modes": modes})
    for unit, rows in sorted(_minmax_cache.items()):
        for row in rows:
            _, status, f, fn, construct, line, detail = row
            getattr(r, status)(f, fn, construct, line, detail)


# --------------------------------------------------------------------------------------------- C10: hidden() vs the C case analysis
def rule_c10_hidden(r):
    """`hidden(control)` of a model file tells the SasView wrapper which parameters do not exist for a multiplicity; the C
    source overwrites exactly those parameters by case.  Sibling agreement: the case boundaries `hidden` tests on its
    argument are the boundaries of the `if (icase <= ..) .. else if (icase <= ..)` chain that replaces parameters in the C
    function (both normalised to `case < k`)."""
    from .. import tables, cfront
    n = 0
    for mid, md in sorted(tables.models().items()):
        fn = md.functions.get("hidden")
        if fn is None:
            continue
        arg = fn.args.args[0].arg
        # python side: comparisons of the (rounded) argument with integer constants
        py = set()
        for c in ast.walk(fn):
            if isinstance(c, ast.Compare) and len(c.ops) == 1 and isinstance(c.left, ast.Name) and c.left.id == arg \
                    and isinstance(c.comparators[0], ast.Constant) and isinstance(c.comparators[0].value, int):
                k = c.comparators[0].value
                op = type(c.ops[0]).__name__
                if op == "Lt": py.add(k)
                elif op == "LtE": py.add(k + 1)
                elif op == "Gt": py.add(k + 1)
                elif op == "GtE": py.add(k)
                else: py.add(("?", op, k))
        idx = cfront.generate_units()
        meta = idx["models"].get(mid)
        if not meta or meta.get("kind") != "c":
            continue
        unit = cfront.load_unit(mid, meta["unit"], meta)
        from ..nf import c_text, c_strip
        from ..ckernel import kids, norm
        cs = set()
        f = unit.functions.get("Iq")
        if f is None or unit.body(f) is None:
            raise AnalysisError("%s: Iq not found" % mid)
        # the top-level if / else-if chain of Iq whose branches only assign parameters
        for st in kids(unit.body(f)):
            node = st
            while node is not None and node.get("kind") == "IfStmt":
                parts = kids(node)
                for x in cfront.walk(parts[0]):
                    if x.get("kind") == "BinaryOperator" and x.get("opcode") in ("<", "<=", ">", ">="):
                        a, b = (c_strip(y) for y in kids(x))
                        if b.get("kind") == "IntegerLiteral" and a.get("kind") == "DeclRefExpr":
                            k = int(b["value"])
                            cs.add({"<": k, "<=": k + 1, ">": k + 1, ">=": k}[x["opcode"]])
                node = parts[2] if len(parts) > 2 else None
        n += 1
        ff, ll = md.relpath, fn.lineno
        r.check(bool(py) and py == cs, ff, "hidden", "case boundaries %s vs %s in %s.c" % (sorted(py, key=str), sorted(cs), mid), ll,
                "the parameters hidden for a case are the ones the C source replaces for that case" if py == cs else
                "hidden() changes its answer at case %s but the C source at %s: for the cases in between the wrapper hides parameters the "
                "kernel reads (they cannot be set and keep their defaults) or shows parameters it ignores" % (sorted(py, key=str), sorted(cs)))
    if n < 1:
        raise AnalysisError("no model with a hidden() function found")


# --------------------------------------------------------------------------------------------- truncating integer constant division
def intdiv_unit(unit, extra):
    """Worker: `a / b` with two integer literals and a remainder is C integer division: `1/20160` is 0, `5/3` is 1.  In
    model code, whose arithmetic is floating point throughout, it is a dropped decimal point."""
    from .. import cfront
    from ..nf import c_text, c_strip
    from ..ckernel import kids
    out = []
    n_div = 0

    def lit(x):
        x = c_strip(x)
        while x.get("kind") == "ParenExpr":
            x = c_strip(kids(x)[0])
        if x.get("kind") == "UnaryOperator" and x.get("opcode") in ("-", "+"):
            v = lit(kids(x)[0])
            return None if v is None else (-v if x["opcode"] == "-" else v)
        if x.get("kind") == "IntegerLiteral":
            return int(x["value"])
        return None
    for fname, fn in sorted(unit.functions.items()):
        body = unit.body(fn)
        if body is None:
            continue
        for x in cfront.walk(body):
            if x.get("kind") == "BinaryOperator" and x.get("opcode") == "/":
                a, b = kids(x)
                va, vb = lit(a), lit(b)
                n_div += 1
                if va is not None and vb not in (None, 0) and va % vb != 0:
                    f, l = unit.where(x)
                    out.append(("R-intdiv", "violation", f, "%s:%s" % (unit.name, fname), "%s" % c_text(x)[:40], l,
                                "integer division of two literals: evaluates to %d, not %.6g - the term it scales is lost or mis-scaled "
                                "(write %s.0/%s)" % (int(va / vb) if va * vb > 0 else -(abs(va) // abs(vb)), va / vb, va, vb)))
    f0 = sorted(unit.functions.items())[0][1] if unit.functions else None
    out.append(("R-intdiv", "ok", "sasmodels/models/%s.c" % unit.name.split("@")[0], unit.name, "%d divisions examined" % n_div, 0, ""))
    return out


_intdiv_cache = {}


def make_intdiv_rule(configs=("dll",)):
    def run(r):
        from .. import cfront
        for cfg in configs:
            if cfg not in _intdiv_cache:
                try:
                    _intdiv_cache[cfg] = cfront.map_units("sa.rules.extra3:intdiv_unit", config=cfg)
                except AnalysisError as exc:
                    if cfg != "dll" and "clang failed" in str(exc):
                        # the front end's rejection of this configuration is reported by the gpu / builds rules
                        r.note("sasmodels/generate.py", cfg, "configuration not parsed", 0, str(exc)[:200])
                        _intdiv_cache[cfg] = {}
                    else:
                        raise
            seen = set()
            for unit, rows in sorted(_intdiv_cache[cfg].items()):
                for row in rows:
                    _, status, f, fn, construct, line, detail = row
                    key = (f, line, construct) if status != "ok" else (unit,)
                    if key in seen:
                        continue
                    seen.add(key)
                    getattr(r, status)(f, fn, construct, line, detail)
    return run


# --------------------------------------------------------------------------------------------- C14/C07: special-case branches agree with the general code
def _table_sums(unit):
    """Sum of the leading GAUSS_N-like entries of the constant weight tables of the unit: {('Gauss76Wt', 'GAUSS_N' value): sum}."""
    from ..ckernel import kids
    sums = {}
    for d in unit.ast.get("inner", []):
        if d.get("kind") == "VarDecl" and "[" in d.get("type", {}).get("qualType", ""):
            init = [x for x in kids(d) if x.get("kind") == "InitListExpr"]
            if not init:
                continue
            vals = []
            for x in kids(init[0]):
                x2 = x
                while x2.get("kind") in ("ImplicitCastExpr", "ParenExpr"):
                    x2 = kids(x2)[0]
                if x2.get("kind") in ("FloatingLiteral", "IntegerLiteral"):
                    vals.append(float(x2["value"]))
                elif x2.get("kind") == "UnaryOperator" and x2.get("opcode") == "-" and kids(x2)[0].get("kind") in ("FloatingLiteral", "IntegerLiteral"):
                    vals.append(-float(kids(x2)[0]["value"]))
                else:
                    vals = None
                    break
            if vals:
                sums[d["name"]] = vals
    return sums


def fastpath_unit(unit, extra):
    """Worker: `if (x == c) { special } else { general }` in model code: interpreting both branches symbolically under the
    branch's own equality (loops that sum weight[j] * term are summarised with the table's weight sum) must give the same
    values for every variable both assign.  An analytic special case that forgets the quadrature normalisation (the sum of
    the Gauss weights is 2, not 1) or any other factor differs from the general branch evaluated at the same point."""
    from .. import cfront, nf
    from ..nf import CInterp, c_text, c_strip
    from ..ckernel import kids
    out = []
    tables = _table_sums(unit)
    n_if = 0
    # special functions of the library (lib/*.c, kernel_header.c) stay symbolic: sas_2J1x_x(x) is a function of x here
    lib_funcs = {nm for nm, f_ in unit.functions.items() if unit.body(f_) is not None and "/models/lib/" in (unit.where(f_)[0] or "")
                 or "/models/" not in (unit.where(f_)[0] or "")}
    for fname, fn in sorted(unit.functions.items()):
        body = unit.body(fn)
        if body is None:
            continue
        f0, _ = unit.where(fn)
        if "/models/" not in (f0 or ""):
            continue        # the kernel template and kernel_header helpers are decided by their own rules
        for st in cfront.walk(body):
            if st.get("kind") != "IfStmt":
                continue
            parts = kids(st)
            if len(parts) < 3:
                continue
            cond = c_strip(parts[0])
            while cond.get("kind") == "ParenExpr":
                cond = c_strip(kids(cond)[0])
            if cond.get("kind") != "BinaryOperator" or cond.get("opcode") not in ("==", "!="):
                continue
            then, els = (parts[1], parts[2]) if cond["opcode"] == "==" else (parts[2], parts[1])
            n_if += 1
            a, b = kids(cond)
            results = []
            bad_shape = None
            # the branch's own equality, known before the branches are interpreted (so that terms that stop depending on
            # the loop index at the special point are seen as such)
            env0 = {}
            try:
                it0 = CInterp(unit.functions)
                va0, vb0 = it0.expr(a, {}), it0.expr(b, {})
                if getattr(va0, "is_Symbol", False) and not getattr(vb0, "free_symbols", {1}):
                    env0[str(va0)] = vb0
                elif getattr(vb0, "is_Symbol", False) and not getattr(va0, "free_symbols", {1}):
                    env0[str(vb0)] = va0
            except Exception:
                pass
            # initial values: the declarations that precede the `if` in its own block (accumulators start from their declared
            # value, usually 0.0); names defined further out stay symbols
            pre = {}
            for comp in cfront.walk(body):
                if comp.get("kind") == "CompoundStmt" and any(x is st for x in kids(comp)):
                    itp = CInterp(unit.functions, opaque=lib_funcs - {fname})
                    for sib in kids(comp):
                        if sib is st:
                            break
                        if sib.get("kind") == "DeclStmt":
                            try:
                                itp.stmt(sib, pre)
                            except Exception:
                                pass
                    break
            pre = {k_: v_ for k_, v_ in pre.items() if hasattr(v_, "free_symbols")}
            pre.update(env0)
            env0 = pre
            for br in (then, els):
                it = CInterp(unit.functions, opaque_loops=False, opaque=lib_funcs - {fname})
                it.sum_loops = True
                env = dict(env0)
                try:
                    it.stmt(br, env)
                except CInterp.Return:
                    bad_shape = "returns"
                except AnalysisError as exc:
                    bad_shape = str(exc)
                except Exception as exc:
                    bad_shape = "%s: %s" % (type(exc).__name__, exc)
                results.append(env)
            f, l = unit.where(st)
            if bad_shape:
                out.append(("R-C14-fastpath", "note", f, "%s:%s" % (unit.name, fname), "if (%s)" % c_text(parts[0])[:50], l, "not decided: %s" % bad_shape[:120]))
                continue
            try:
                it = CInterp(unit.functions)
                va, vb = it.expr(a, {}), it.expr(b, {})
            except Exception:
                continue
            subs = {}
            if getattr(va, "is_Symbol", False):
                subs[va] = vb
            elif getattr(vb, "is_Symbol", False):
                subs[vb] = va
            else:
                out.append(("R-C14-fastpath", "note", f, "%s:%s" % (unit.name, fname), "if (%s)" % c_text(parts[0])[:50], l, "condition is not `name == value`"))
                continue
            T, G = results
            common = sorted(k for k in set(T) & set(G) if hasattr(T[k], "free_symbols") and hasattr(G[k], "free_symbols")
                            and not (k in env0 and T[k] == env0[k] and G[k] == env0[k]))
            problems = []
            for v in common:
                tv, gv = sp.sympify(T[v]).subs(subs), sp.sympify(G[v]).subs(subs)
                # weight sums of constant tables
                for s_ in list(gv.free_symbols | tv.free_symbols):
                    nm = str(s_)
                    if nm.startswith("sum_"):
                        tab, bound = nm[4:].rsplit("_", 1)
                        if tab in tables:
                            nb = None
                            if bound.isdigit():
                                nb = int(bound)
                            elif bound in tables and False:
                                nb = None
                            total = sum(tables[tab][:nb]) if nb else sum(tables[tab])
                            # Gauss-Legendre tables on [-1, 1] sum to 2 (to rounding); padded entries are zero
                            gv, tv = gv.subs(s_, nf.num(round(total, 9))), tv.subs(s_, nf.num(round(total, 9)))
                if gv.has(sp.nan, sp.zoo, sp.oo) or tv.has(sp.nan, sp.zoo, sp.oo):
                    continue        # the general branch is singular at the special point: the special branch is its limit
                try:
                    same = sp.simplify(tv - gv) == 0
                except Exception:
                    continue
                if not same:
                    ratio = None
                    try:
                        ratio = sp.simplify(gv / tv)
                    except Exception:
                        pass
                    problems.append("%s: special branch gives %s, the general branch at the same point gives %s%s" % (
                        v, str(tv)[:80], str(gv)[:80], (" (ratio %s)" % ratio) if ratio is not None and ratio.is_Number else ""))
            if problems:
                out.append(("R-C14-fastpath", "violation", f, "%s:%s" % (unit.name, fname), "if (%s)" % c_text(parts[0])[:50], l,
                            "; ".join(problems)[:400]))
            elif common:
                out.append(("R-C14-fastpath", "ok", f, "%s:%s" % (unit.name, fname), "if (%s): %s" % (c_text(parts[0])[:40], ", ".join(common)[:60]), l,
                            "special and general branch agree under the branch's own equality (or the general branch is singular there)"))
    out.append(("R-C14-fastpath", "ok", "sasmodels/models/%s.c" % unit.name, unit.name, "%d equality-guarded if/else examined" % n_if, 0, ""))
    return out


_fastpath_cache = None


def rule_c14_fastpath(r):
    global _fastpath_cache
    if _fastpath_cache is None:
        from .. import cfront
        _fastpath_cache = cfront.map_units("sa.rules.extra3:fastpath_unit")
    for unit, rows in sorted(_fastpath_cache.items()):
        for row in rows:
            _, status, f, fn, construct, line, detail = row
            getattr(r, status)(f, fn, construct, line, detail)


# --------------------------------------------------------------------------------------------- quadrature tables
def gausstab_unit(unit, extra):
    """Worker: the constant quadrature tables compiled into the unit, folded: {name: [values]}."""
    tabs = _table_sums(unit)
    out = {}
    for name, vals in tabs.items():
        if name.lower().startswith("gauss") and (name.endswith("Wt") or name.endswith("Z")):
            f = [d for d in unit.ast.get("inner", []) if d.get("kind") == "VarDecl" and d.get("name") == name]
            ff, ll = unit.where(f[0]) if f else ("?", 0)
            out[name] = (vals, ff, ll)
    return out


def rule_gauss_tables(r):
    """Every model that integrates numerically assumes a Gauss-Legendre rule on [-1, 1]: the orientation averages divide by
    the interval, i.e. by the weight sum 2, and <F>^2 <= <F^2> at q -> 0 holds with equality only if the weights the two sums
    share add up exactly.  The literal tables are folded and checked as data: weights positive, summing to 2, mirror
    symmetric; nodes strictly increasing inside (-1, 1) and mirror antisymmetric; as many nodes as weights (padding zeros
    after the rule's length are allowed)."""
    from .. import cfront
    res = cfront.map_units("sa.rules.extra3:gausstab_unit")
    tabs = {}
    for unit, d in sorted(res.items()):
        for name, (vals, f, l) in d.items():
            tabs.setdefault(name, (vals, f, l))
    pairs = {}
    for name in tabs:
        base = name[:-2] if name.endswith("Wt") else name[:-1]
        pairs.setdefault(base, {})["W" if name.endswith("Wt") else "Z"] = name
    if len(pairs) < 3:
        raise AnalysisError("quadrature tables not found (%s)" % sorted(tabs))
    for base, pz in sorted(pairs.items()):
        if "W" not in pz or "Z" not in pz:
            r.violation("sasmodels/models/lib", base, "weights and nodes tables", 0, "one of the two tables is missing: %s" % pz)
            continue
        w, fw, lw = tabs[pz["W"]]
        z, fz, lz = tabs[pz["Z"]]
        m = re_digits(base)
        n = m if m and m <= len(w) else len(w)
        w0, z0 = w[:n], z[:n]
        pad_ok = all(v == 0.0 for v in w[n:])
        s = sum(w0)
        r.check(abs(s - 2.0) < 1e-9 and all(v > 0 for v in w0) and pad_ok, fw, pz["W"], "%d weights, sum %.15g" % (n, s), lw,
                "positive weights of a rule on [-1, 1] sum to 2 (to the 1e-9 the tables are printed to)" if abs(s - 2.0) < 1e-9 else
                "the weights sum to %.12g, not 2: every orientation average built on this table is off by that factor in <F> and in "
                "<F^2> alike, so <F>^2/<F^2> at q -> 0 is %.3g instead of 1" % (s, s / 2.0))
        asym = [i for i in range(n // 2) if abs(w0[i] - w0[n - 1 - i]) > 1e-15 * max(1.0, abs(w0[i]))]
        r.check(not asym, fw, pz["W"], "mirror symmetry w[i] == w[n-1-i]", lw,
                "symmetric" if not asym else "entries %s differ from their mirror entries (e.g. w[%d] = %.16g, w[%d] = %.16g): a mistyped digit"
                % (asym[:4], asym[0], w0[asym[0]], n - 1 - asym[0], w0[n - 1 - asym[0]]))
        mono = all(z0[i] < z0[i + 1] for i in range(n - 1)) and all(-1.0 < v < 1.0 for v in z0)
        anti = [i for i in range(n // 2) if abs(z0[i] + z0[n - 1 - i]) > 1e-15]
        r.check(mono and not anti, fz, pz["Z"], "%d nodes increasing in (-1, 1), z[i] == -z[n-1-i]" % n, lz,
                "antisymmetric" if mono and not anti else "nodes not increasing / not antisymmetric at %s" % anti[:4])


def re_digits(s):
    import re
    m = re.search(r"(\d+)$", s)
    return int(m.group(1)) if m else None


# --------------------------------------------------------------------------------------------- C14: <F>^2 = <F^2> at q -> 0
Q0_VALUES = {"sas_3j1x_x": 1, "sas_sinx_x": 1, "sas_2J1x_x": 1, "sas_J0": 1, "sas_J1": 0, "sas_JN": None, "sas_Si": 0,
             "sinc": 1, "sas_j0": 1, "expm1": 0, "sas_erf": 0}


def q0_unit(unit, extra):
    """Worker: for a model that reports the amplitude, Fq is interpreted symbolically at q = 0 (special functions take their
    value at zero, quadrature loops are summed with the folded weight sums): the two outputs must satisfy F1^2 = F2, the
    property's `equality as q tends to zero for monodisperse particles`.  Both outputs share the quadrature, so a missing or
    doubled interval factor on one of them, a special branch that forgets the weight sum, or a weight table that does not sum
    to 2 breaks the identity."""
    from .. import nf
    from ..nf import CInterp
    out = []
    if not unit.meta.get("have_Fq") or "Fq" not in unit.functions or unit.body(unit.fn("Fq")) is None:
        return out
    fq = unit.fn("Fq")
    ff, ll = unit.where(fq)
    tables = _table_sums(unit)
    lib_funcs = {nm for nm, f_ in unit.functions.items() if unit.body(f_) is not None and
                 ("/models/lib/" in (unit.where(f_)[0] or "") or "/models/" not in (unit.where(f_)[0] or ""))}
    it = CInterp({k_: v_ for k_, v_ in unit.functions.items() if k_ not in nf._FUNCS}, opaque=lib_funcs - set(nf._FUNCS))
    it.sum_loops = True
    it.nested_sums = True
    it.numeric_decide = True
    it.tables = tables
    it.zero_values = {k: v for k, v in Q0_VALUES.items() if v is not None}
    outs = {}
    argv = []
    for i, p in enumerate(unit.params(fq)):
        qt = p["type"]["qualType"]
        if i == 0:
            argv.append(sp.Integer(0))
        elif i in (1, 2):
            argv.append(nf.Ref(outs, "F1" if i == 1 else "F2"))
        elif "*" in qt or "[" in qt:
            argv.append(sym("vec_" + p["name"]))
        else:
            argv.append(sp.Symbol(p["name"], positive=True))
    try:
        it.call("Fq", argv)
    except AnalysisError as exc:
        out.append(("R-C14-q0", "note", ff, "%s:Fq" % unit.name, "Fq at q = 0", ll, "not decided: %s" % str(exc)[:140]))
        return out
    except Exception as exc:
        out.append(("R-C14-q0", "note", ff, "%s:Fq" % unit.name, "Fq at q = 0", ll, "not decided: %s: %s" % (type(exc).__name__, str(exc)[:120])))
        return out
    f1, f2 = outs.get("F1"), outs.get("F2")
    if f1 is None or f2 is None:
        out.append(("R-C14-q0", "note", ff, "%s:Fq" % unit.name, "Fq at q = 0", ll, "outputs not written on this path"))
        return out

    def fold(e):
        e = sp.sympify(e)
        for s_ in list(e.free_symbols):
            nm = str(s_)
            if nm.startswith("sum_"):
                tab, bound = nm[4:].rsplit("_", 1)
                if tab in tables:
                    nb = int(bound) if bound.isdigit() else None
                    total = sum(tables[tab][:nb]) if nb else sum(tables[tab])
                    e = e.subs(s_, nf.num(round(total, 9)))
        return e
    f1, f2 = fold(f1), fold(f2)
    if f1.has(sp.nan, sp.zoo) or f2.has(sp.nan, sp.zoo):
        out.append(("R-C14-q0", "note", ff, "%s:Fq" % unit.name, "Fq at q = 0", ll, "singular at q = 0 (the kernel never calls it there)"))
        return out
    opaque_left = [str(a.func) for a in sp.preorder_traversal(f1 * f2) if isinstance(a, sp.Function) and type(a).__name__ in lib_funcs]
    try:
        same = nf.equal(f1 ** 2, f2, trig=True)
    except Exception:
        same = None
    if same:
        out.append(("R-C14-q0", "ok", ff, "%s:Fq" % unit.name, "F1(0)^2 == F2(0)", ll, "F1(0) = %s" % str(sp.simplify(f1))[:100]))
    elif same is False and not opaque_left:
        ratio = sp.simplify(f2 / f1 ** 2)
        out.append(("R-C14-q0", "violation", ff, "%s:Fq" % unit.name, "F1(0)^2 == F2(0)", ll,
                    "at q = 0 the model returns F1 = %s and F2 = %s: F2/F1^2 = %s, not 1 - the two quadratures are normalised differently, "
                    "so <F>^2 <= <F^2> (with equality for monodisperse particles at q -> 0) fails" % (str(sp.simplify(f1))[:80], str(sp.simplify(f2))[:80], ratio))
                   )
    else:
        out.append(("R-C14-q0", "note", ff, "%s:Fq" % unit.name, "F1(0)^2 == F2(0)", ll, "not decided: symbolic residue %s" % str(sp.simplify(f1 ** 2 - f2))[:120]))
    return out


_q0_cache = None


def rule_c14_q0(r):
    global _q0_cache
    if _q0_cache is None:
        from .. import cfront
        _q0_cache = cfront.map_units("sa.rules.extra3:q0_unit")
    for unit, rows in sorted(_q0_cache.items()):
        for row in rows:
            _, status, f, fn, construct, line, detail = row
            getattr(r, status)(f, fn, construct, line, detail)


# --------------------------------------------------------------------------------------------- loops over constant tables stay inside them
def tablebounds_unit(unit, extra):
    """Worker: a `for` loop of model code whose body reads a constant table at the loop index runs `i = 0; i < B; i++`
    with B no larger than the table (B is a literal after macro expansion: GAUSS_N).  `i <= GAUSS_N` reads one entry past the
    weights and nodes; `i--` never terminates inside the table."""
    from .. import cfront
    from ..nf import c_text, c_strip
    from ..ckernel import kids
    import re
    out = []
    tables = {k: len(v) for k, v in _table_sums(unit).items()}
    n = 0
    for fname, fn in sorted(unit.functions.items()):
        body = unit.body(fn)
        if body is None:
            continue
        for st in cfront.walk(body):
            if st.get("kind") != "ForStmt":
                continue
            parts = st.get("inner", [])
            if len(parts) < 5:
                continue
            init, cond, inc, lbody = parts[0], parts[2], parts[3], parts[4]
            var = None
            ini = None
            if init and init.get("kind") == "DeclStmt":
                vd = [x for x in kids(init) if x.get("kind") == "VarDecl"]
                if len(vd) == 1:
                    var = vd[0]["name"]
                    iv = kids(vd[0])
                    ini = re.sub(r"\s+", "", c_text(iv[0])) if iv else None
            elif init and init.get("kind") == "BinaryOperator" and init.get("opcode") == "=":
                var = re.sub(r"\s+", "", c_text(kids(init)[0]))
                ini = re.sub(r"\s+", "", c_text(kids(init)[1]))
            if not var:
                continue
            used = set()
            for x in cfront.walk(lbody):
                if x.get("kind") == "ArraySubscriptExpr":
                    b, i = kids(x)
                    b0 = c_strip(b)
                    if b0.get("kind") == "DeclRefExpr" and b0["referencedDecl"]["name"] in tables and re.sub(r"\s+", "", c_text(i)) == var:
                        used.add(b0["referencedDecl"]["name"])
            if not used:
                continue
            n += 1
            ctxt = re.sub(r"\s+", "", c_text(cond)) if cond and cond.get("kind") else ""
            itxt = re.sub(r"\s+", "", c_text(inc)) if inc and inc.get("kind") else ""
            m = re.match(r"^%s<(\d+)$" % re.escape(var), ctxt)
            size = min(tables[t] for t in used)
            ok = ini == "0" and bool(m) and int(m.group(1)) <= size and itxt in (var + "++", "++" + var, var + "+=1")
            f, l = unit.where(st)
            out.append(("R-tablebounds", "ok" if ok else "violation", f, "%s:%s" % (unit.name, fname),
                        "for (%s = %s; %s; %s) over %s[%d]" % (var, ini, ctxt, itxt, "/".join(sorted(used)), size), l,
                        "index stays inside the table" if ok else
                        "the loop must run %s = 0; %s < N; %s++ with N <= %d: as written it reads outside the constant table (or never ends)"
                        % (var, var, var, size)))
    return out


_tb_cache = None


def rule_tablebounds(r):
    global _tb_cache
    if _tb_cache is None:
        from .. import cfront
        _tb_cache = cfront.map_units("sa.rules.extra3:tablebounds_unit")
    seen = set()
    for unit, rows in sorted(_tb_cache.items()):
        for row in rows:
            _, status, f, fn, construct, line, detail = row
            key = (f, line, construct)
            if key in seen and status == "ok":
                continue
            seen.add(key)
            getattr(r, status)(f, fn, construct, line, detail)


# --------------------------------------------------------------------------------------------- C18/C11: builds happen under the module lock
def rule_c18_lock(r):
    """The SasView wrapper builds its class-level kernel lazily; `calculation_lock` is what makes that build (and the
    shared temporary library name `<dll>.<pid>.tmp`, unique per process only) happen once per process.  Lock discipline:
    every call of build_model and every store to a class-level `_model` in sasview_model.py is lexically inside
    `with calculation_lock:` or inside a function all of whose call sites in the module are (a fixpoint over the module's
    own call graph); test functions are exempt."""
    mod = pf.lib("sasview_model")
    F = mod.relpath
    LOCK = "calculation_lock"
    parents = mod.parents

    def under_lock(node):
        p = parents.get(node)
        while p is not None:
            if isinstance(p, ast.With) and any(pf.unparse(i.context_expr) == LOCK for i in p.items):
                return True
            if isinstance(p, (ast.FunctionDef, ast.AsyncFunctionDef)):
                return False
            p = parents.get(p)
        return False

    def enclosing(node):
        p = parents.get(node)
        while p is not None and not isinstance(p, (ast.FunctionDef, ast.AsyncFunctionDef)):
            p = parents.get(p)
        return p
    funcs = {q: f for q, f in mod.functions.items()}
    by_leaf = {}
    for q, f in funcs.items():
        by_leaf.setdefault(q.split(".")[-1], []).append(f)
    # call sites of each function inside the module
    sites = {}
    for c in ast.walk(mod.tree):
        if isinstance(c, ast.Call):
            nm = (pf.call_name(c) or "").split(".")[-1]
            for f in by_leaf.get(nm, []):
                sites.setdefault(f, []).append(c)
    held = set()
    changed = True
    while changed:
        changed = False
        for f, cs in sites.items():
            if f in held or not cs:
                continue
            if all(under_lock(c) or enclosing(c) in held for c in cs):
                held.add(f)
                changed = True
    n = 0
    for node in ast.walk(mod.tree):
        what = None
        if isinstance(node, ast.Call) and (pf.call_name(node) or "").split(".")[-1] == "build_model":
            what = pf.unparse(node)[:60]
        elif isinstance(node, ast.Assign) and any(isinstance(t, ast.Attribute) and t.attr == "_model" and "__class__" in pf.unparse(t) for t in node.targets):
            what = pf.unparse(node)[:60]
        if not what:
            continue
        fn = enclosing(node)
        name = fn.name if fn is not None else "<module>"
        if name.startswith("test") or name.startswith("_test") or name == "magnetic_demo":
            continue
        n += 1
        ok = under_lock(node) or (fn in held)
        r.check(ok, F, name, what, node.lineno,
                "under calculation_lock (directly, or every call site of %s is)" % name if ok else
                "the kernel is built outside calculation_lock: two threads making the first use of a model compile at the same time "
                "into the same `<dll>.<pid>.tmp`, and one renames the other's half-written output onto the cache name")
    if n < 1:
        raise AnalysisError("sasview_model: lazy build site not found")
    # the lock is one object for the life of the process: bound once at module level, never rebound
    binds = []
    for node in ast.walk(mod.tree):
        tg = []
        if isinstance(node, ast.Assign):
            tg = node.targets
        elif isinstance(node, (ast.AugAssign, ast.AnnAssign)):
            tg = [node.target]
        for t in tg:
            for nm in ast.walk(t):
                if isinstance(nm, ast.Name) and nm.id == LOCK:
                    binds.append(node)
        if isinstance(node, ast.Global) and LOCK in node.names:
            binds.append(node)
        if isinstance(node, ast.Delete) and any(isinstance(t, ast.Name) and t.id == LOCK for t in node.targets):
            binds.append(node)
    top = [b for b in binds if parents.get(b) is mod.tree]
    other = [b for b in binds if parents.get(b) is not mod.tree]
    r.check(len(top) == 1 and not other, F, "<module>", "%s bound once, at module level" % LOCK, top[0].lineno if top else 0,
            "one lock object for the life of the process" if len(top) == 1 and not other else
            "%s is rebound at line(s) %s: a calculation that holds the old lock and one that takes the new lock run (and build) "
            "at the same time" % (LOCK, sorted(b.lineno for b in other) or sorted(b.lineno for b in top)))


# --------------------------------------------------------------------------------------------- C20: SLD rescale through chained renames
def rule_c20_sld_chain(r):
    """3.x SLDs are rescaled by 1e6 right after the 3.1.2 renaming, by looking the *intermediate* name up in the current
    model (`_is_sld`).  When a later table renames that parameter again, the intermediate name is no longer a parameter of the
    current model and the value would pass through unscaled.  For every 3.1.2 row: a name whose final target (after the later
    tables) is an SLD of the current model must itself be an SLD of the current model."""
    from .. import tables
    table, _ = tables.conversion_table()
    mods = tables.models()
    versions = sorted(table)
    if len(versions) < 2:
        raise AnalysisError("conversion table has %d versions" % len(versions))
    first = versions[0]
    T = "sasmodels/conversion_table.py"
    n = 0
    for model, entry in sorted(table[first].items()):
        mid = model.split(":")[0]
        if mid not in mods:
            continue
        # the model the old set ends up as (later tables may rename the model too)
        final_model = mid
        renames = []
        for v in versions[1:]:
            for new_model, e2 in table[v].items():
                if e2[0] == final_model:
                    renames.append(e2[1])
                    final_model = new_model.split(":")[0]
        md = mods.get(final_model)
        if md is None:
            continue
        slds = set(md.sld_names())
        for new, old in sorted(entry[1].items()):
            if old is None or ":" in new:
                continue
            final = new
            for row in renames:
                back = {o: n_ for n_, o in row.items() if o is not None}
                final = back.get(final, final)
            if final in slds:
                n += 1
                ok = new in slds
                r.check(ok, T, "CONVERSION_TABLE[(%s)][%s]" % (", ".join(map(str, first)), model), "%s <- %s (ends as %s)" % (new, old, final), 0,
                        "the name the rescale step sees is an SLD of the current model" if ok else
                        "`%s` is renamed again to `%s` by a later table: when the 3.x rescale runs, `%s` is not a parameter of the current "
                        "model, _is_sld answers False and the SLD keeps its 3.x magnitude (1e-6 of the intended value)" % (new, final, new))
    if n < 50:
        raise AnalysisError("only %d SLD rows followed through the tables" % n)


# --------------------------------------------------------------------------------------------- implicit double -> int conversions
def f2i_unit(unit, extra):
    """Worker: implicit floating-to-integral conversions (clang: ImplicitCastExpr FloatingToIntegral) in the functions of a
    unit.  Model code that wants an integer from a fitted (floating) parameter says how it rounds: `(int)(x + 0.5)`.  An
    implicit conversion - a double argument passed to an `int` parameter, a double assigned to an `int` - truncates, and
    disagrees with the sibling functions that round."""
    from .. import cfront
    from ..nf import c_text
    out = []
    n = 0
    for fname, fn in sorted(unit.functions.items()):
        body = unit.body(fn)
        if body is None:
            continue
        for x in cfront.walk(body):
            if x.get("kind") == "ImplicitCastExpr" and x.get("castKind") == "FloatingToIntegral":
                # a parameter that is integral at every call site (a loop counter handed down as a double) converts exactly
                from ..ckernel import kids as _kids
                from ..nf import c_callee as _callee, c_strip as _strip
                pnames = [p_["name"] for p_ in unit.params(fn)]
                refs = {y["referencedDecl"]["name"] for y in cfront.walk(x) if y.get("kind") == "DeclRefExpr"
                        and "double" in y.get("type", {}).get("qualType", "") + y.get("referencedDecl", {}).get("type", {}).get("qualType", "")}
                exact = bool(refs) and refs <= set(pnames)
                if exact:
                    sites = [c_ for g_ in unit.functions.values() if unit.body(g_) is not None for c_ in cfront.walk(unit.body(g_))
                             if c_.get("kind") == "CallExpr" and _callee(c_) == fname]
                    exact = bool(sites)
                    for c_ in sites:
                        args = _kids(c_)[1:]
                        for nm_ in refs:
                            a_ = args[pnames.index(nm_)] if pnames.index(nm_) < len(args) else None
                            inner_ = a_
                            while inner_ is not None and inner_.get("kind") in ("ImplicitCastExpr", "ParenExpr"):
                                if inner_.get("castKind") == "IntegralToFloating":
                                    break
                                inner_ = _kids(inner_)[0] if _kids(inner_) else None
                            if not (inner_ is not None and (inner_.get("castKind") == "IntegralToFloating" or inner_.get("kind") == "IntegerLiteral")):
                                exact = False
                if exact:
                    continue
                f, l = unit.where(x)
                out.append(("R-f2i", "violation", f, "%s:%s" % (unit.name, fname), "implicit (%s) of `%s`" % (x.get("type", {}).get("qualType"), c_text(x)[:50]), l,
                            "a floating value is converted to an integer implicitly (truncation toward zero): the functions of this model "
                            "that take the same parameter round it explicitly, so they disagree for fractional parts >= 0.5"))
        n += 1
    out.append(("R-f2i", "ok", "sasmodels/models/%s.c" % unit.name, unit.name, "%d functions: no implicit floating-to-integral conversion" % n, 0, ""))
    return out


_f2i_cache = None


def rule_f2i(r):
    global _f2i_cache
    if _f2i_cache is None:
        from .. import cfront
        _f2i_cache = cfront.map_units("sa.rules.extra3:f2i_unit")
    seen = set()
    for unit, rows in sorted(_f2i_cache.items()):
        for row in rows:
            _, status, f, fn, construct, line, detail = row
            key = (f, line, construct)
            if status != "ok" and key in seen:
                continue
            seen.add(key)
            getattr(r, status)(f, fn, construct, line, detail)


# --------------------------------------------------------------------------------------------- C07/C14: ordering between radius modes
def modeorder_unit(unit, extra):
    """Worker: the effective-radius modes of one model are related by their names: a half diagonal is at least as long as
    every half side / radius it is the diagonal of.  Each mode is interpreted symbolically and D^2 - M^2 must be
    non-negative for all positive parameters (decided by sympy on the expanded polynomial)."""
    import re
    from ..nf import CInterp
    out = []
    modes = (extra or {}).get("modes", {}).get(unit.name)
    if not modes or "radius_effective" not in unit.functions or unit.body(unit.fn("radius_effective")) is None:
        return out
    f = unit.fn("radius_effective")
    ff, ll = unit.where(f)
    pn = [p["name"] for p in unit.params(f)]
    vals = {}
    for i, name in enumerate(modes, 1):
        try:
            it = CInterp(unit.functions, facts={"mode": i})
            v = it.call("radius_effective", [sp.Integer(i)] + [sp.Symbol(p, positive=True) for p in pn[1:]])
        except Exception:
            v = None
        if v is not None:
            vals[name] = (i, v)

    def cases(exprs):
        """resolve every where(c, a, b) in the expressions by case distinction on the distinct conditions (at most 4)"""
        conds = []
        for e in exprs:
            for t in sp.preorder_traversal(e):
                if getattr(getattr(t, "func", None), "__name__", "") == "where" and t.args[0] not in conds:
                    conds.append(t.args[0])
        if len(conds) > 4:
            return None
        out_ = []
        for mask in range(1 << len(conds)):
            choice = {c: bool(mask >> k & 1) for k, c in enumerate(conds)}
            def res(e):
                if getattr(getattr(e, "func", None), "__name__", "") == "where":
                    return res(e.args[1] if choice[e.args[0]] else e.args[2])
                if getattr(e, "args", None):
                    return e.func(*[res(a) for a in e.args])
                return e
            out_.append([res(e) for e in exprs])
        return out_
    DIAG = re.compile(r"^half (outer )?diagonal$")
    SIDE = re.compile(r"^half (outer )?(total )?length(_[abc])?$|^(outer )?radius$|^half (outer )?thickness$|^half (outer )?ab diagonal$")
    for dname, (di, dv) in sorted(vals.items()):
        md = DIAG.match(dname)
        if not md:
            continue
        outer = "outer" in dname
        for sname, (si, sv) in sorted(vals.items()):
            if not SIDE.match(sname) or ("outer" in sname) != outer:
                continue
            diff, ok = None, True
            try:
                cs = cases([dv, sv])
                if cs is None:
                    ok = None
                else:
                    for d1, s1 in cs:
                        df = sp.expand(sp.simplify(d1 ** 2 - s1 ** 2))
                        o1 = df.is_nonnegative
                        if o1 is not True:
                            diff = df
                            ok = o1
                            break
                    else:
                        diff = sp.expand(sp.simplify(cs[0][0] ** 2 - cs[0][1] ** 2))
            except Exception:
                ok = None
            if ok is None:
                out.append(("R-C14-mode-order", "note", ff, "%s:radius_effective" % unit.name, "mode %d %r >= mode %d %r" % (di, dname, si, sname), ll,
                            "not decided: D^2 - M^2 = %s" % str(diff)[:100]))
                # an expression with both signs is a definite failure when it is a polynomial whose terms are not all of one sign
                terms = sp.Add.make_args(diff)
                if all(t.is_positive or t.is_negative for t in terms) and any(t.is_negative for t in terms):
                    out[-1] = ("R-C14-mode-order", "violation", ff, "%s:radius_effective" % unit.name, "mode %d %r >= mode %d %r" % (di, dname, si, sname), ll,
                               "the %s is shorter than the %s for some shapes: D^2 - M^2 = %s changes sign (a half/full length mix-up in "
                               "one of the two modes)" % (dname, sname, str(diff)[:100]))
            else:
                out.append(("R-C14-mode-order", "ok" if ok else "violation", ff, "%s:radius_effective" % unit.name,
                            "mode %d %r >= mode %d %r" % (di, dname, si, sname), ll,
                            "D^2 - M^2 = %s >= 0" % str(diff)[:80] if ok else "D^2 - M^2 = %s" % str(diff)[:100]))
    return out


_modeorder_cache = None


def rule_c14_modeorder(r):
    global _modeorder_cache
    if _modeorder_cache is None:
        from .. import cfront
        from . import c14
        modes = c14._c_results().get("__modes__")
        _modeorder_cache = cfront.map_units("sa.rules.extra3:modeorder_unit", extra={"modes": modes})
    for unit, rows in sorted(_modeorder_cache.items()):
        for row in rows:
            _, status, f, fn, construct, line, detail = row
            getattr(r, status)(f, fn, construct, line, detail)


# --------------------------------------------------------------------------------------------- C14: zero guards test what is divided by
def zeroguard_unit(unit, extra):
    """Worker: `if (V == 0) limit; else ... / W` where W is a local defined as a product with the factor V (qr = q*r): the
    divisor is zero whenever *any* factor is, so the guard has to test W itself.  A guard on one factor leaves the other
    factor's zero (a radius at its inclusive lower limit 0) dividing by zero."""
    from .. import cfront
    from ..nf import c_text, c_strip
    from ..ckernel import kids, product_factors
    out = []
    n = 0
    for fname, fn in sorted(unit.functions.items()):
        body = unit.body(fn)
        if body is None:
            continue
        f0, _ = unit.where(fn)
        if "/models/" not in (f0 or ""):
            continue
        prods = {}
        for x in cfront.walk(body):
            if x.get("kind") == "VarDecl" and kids(x):
                fs = product_factors(kids(x)[0])
                if len(fs) >= 2:
                    prods[x["name"]] = {f_["referencedDecl"]["name"] for f_ in fs if f_.get("kind") == "DeclRefExpr"}
        for st in cfront.walk(body):
            if st.get("kind") != "IfStmt":
                continue
            parts = kids(st)
            c = c_strip(parts[0])
            while c.get("kind") == "ParenExpr":
                c = c_strip(kids(c)[0])
            if c.get("kind") != "BinaryOperator" or c.get("opcode") != "==":
                continue
            a, b = (c_strip(k_) for k_ in kids(c))
            if a.get("kind") != "DeclRefExpr" or b.get("kind") not in ("FloatingLiteral", "IntegerLiteral") or float(b["value"]) != 0:
                continue
            V = a["referencedDecl"]["name"]
            n += 1
            rest = parts[2] if len(parts) > 2 else None
            if rest is None:
                # `if (V == 0) return limit;` - the other branch is what follows in the enclosing block
                def ends_ret(s_):
                    return s_.get("kind") == "ReturnStmt" or (s_.get("kind") == "CompoundStmt" and kids(s_) and ends_ret(kids(s_)[-1]))
                if not ends_ret(parts[1]):
                    continue
                for comp in cfront.walk(body):
                    if comp.get("kind") == "CompoundStmt" and any(x_ is st for x_ in kids(comp)):
                        sib = kids(comp)
                        rest = {"kind": "CompoundStmt", "inner": sib[[i_ for i_, x_ in enumerate(sib) if x_ is st][0] + 1:]}
                        break
                if rest is None:
                    continue
            bad = None
            for x in cfront.walk(rest):
                if x.get("kind") in ("BinaryOperator", "CompoundAssignOperator") and x.get("opcode") in ("/", "/="):
                    den = kids(x)[1]
                    for y in cfront.walk(den):
                        if y.get("kind") == "DeclRefExpr":
                            W = y["referencedDecl"]["name"]
                            if W != V and V in prods.get(W, set()) and len(prods[W]) >= 2:
                                bad = (x, W)
            f, l = unit.where(st)
            if bad:
                out.append(("R-C14-zero-guard", "violation", f, "%s:%s" % (unit.name, fname), "if (%s == 0) ... else ... / %s" % (V, bad[1]), l,
                            "the branch divides by `%s`, a product of %s, but only `%s` is tested: when another factor is zero (a size at "
                            "its inclusive lower limit) the limit branch is skipped and the result is 0/0" % (bad[1], sorted(prods[bad[1]]), V)))
            else:
                out.append(("R-C14-zero-guard", "ok", f, "%s:%s" % (unit.name, fname), "if (%s == 0)" % V, l, "no divisor in the other branch is a product with further factors"))
    return out


_zg_cache = None


def rule_c14_zeroguard(r):
    global _zg_cache
    if _zg_cache is None:
        from .. import cfront
        _zg_cache = cfront.map_units("sa.rules.extra3:zeroguard_unit")
    seen = set()
    for unit, rows in sorted(_zg_cache.items()):
        for row in rows:
            _, status, f, fn, construct, line, detail = row
            key = (f, line, construct)
            if key in seen:
                continue
            seen.add(key)
            getattr(r, status)(f, fn, construct, line, detail)


# ---------------------------------------------------------------------------------------------------------------------
# exported symbol names: what the generator defines is what the loaders look up (writer's and reader's tables agree)
def _str_parts(node, env):
    """A string-building expression as a list of ('lit', text) / ('expr', text) parts; None when the form is unknown."""
    if isinstance(node, ast.Constant) and isinstance(node.value, str):
        return [("lit", node.value)]
    if isinstance(node, ast.Name) and node.id in env:
        return env[node.id]
    if isinstance(node, (ast.Name, ast.Attribute)):
        return [("expr", pf.unparse(node))]
    if isinstance(node, ast.BinOp) and isinstance(node.op, ast.Add):
        a, b = _str_parts(node.left, env), _str_parts(node.right, env)
        return None if a is None or b is None else a + b
    if isinstance(node, ast.BinOp) and isinstance(node.op, ast.Mod) and isinstance(node.left, ast.Constant) and isinstance(node.left.value, str):
        args = list(node.right.elts) if isinstance(node.right, ast.Tuple) else [node.right]
        pieces = re.split(r"(%[sd])", node.left.value)
        out = []
        for pc in pieces:
            if pc in ("%s", "%d"):
                if not args:
                    return None
                sub = _str_parts(args.pop(0), env)
                if sub is None:
                    return None
                out += sub
            elif pc:
                out.append(("lit", pc))
        return None if args else out
    if isinstance(node, ast.JoinedStr):
        out = []
        for v in node.values:
            sub = _str_parts(v.value if isinstance(v, ast.FormattedValue) else v, env)
            if sub is None:
                return None
            out += sub
        return out
    if isinstance(node, ast.Call) and isinstance(node.func, ast.Attribute) and node.func.attr == "join" and \
            isinstance(node.func.value, ast.Constant) and len(node.args) == 1 and isinstance(node.args[0], (ast.Tuple, ast.List)):
        out = []
        for i, e in enumerate(node.args[0].elts):
            sub = _str_parts(e, env)
            if sub is None:
                return None
            if i:
                out.append(("lit", node.func.value.value))
            out += sub
        return out
    return None


def _merge_parts(parts):
    out = []
    for k, t in parts:
        if out and k == "lit" and out[-1][0] == "lit":
            out[-1] = ("lit", out[-1][1] + t)
        else:
            out.append((k, t))
    return out


def rule_c18_symbols(r):
    """generate._kernels writes `#define KERNEL_NAME <x>_<variant>` into the unit; the loaders (dll, OpenCL, CUDA) look the
    entry points up under generate.kernel_name(info, variant).  Both names are string-building expressions over one
    ModelInfo: they are reduced to part lists and compared variant by variant, with the generator's <x> resolved at the
    _kernels call site in make_source and the loaders' variants read from their call sites."""
    gen = pf.lib("generate")
    F = gen.relpath
    kn = gen.func("kernel_name")
    kfn = gen.func("_kernels")
    ms = gen.func("make_source")
    # 1. the generator's names, per variant
    kparams = [a.arg for a in kfn.args.args]
    defined = {}
    for n in ast.walk(kfn):
        if isinstance(n, ast.BinOp) and isinstance(n.op, ast.Mod):
            parts = _str_parts(n, {})
            if parts and parts[0][0] == "lit" and parts[0][1].startswith("#define KERNEL_NAME "):
                parts = _merge_parts([("lit", parts[0][1][len("#define KERNEL_NAME "):])] + parts[1:])
                parts = [p for p in parts if p != ("lit", "")]
                tail = parts[-1][1] if parts and parts[-1][0] == "lit" else ""
                defined[tail.rsplit("_", 1)[-1]] = (parts, n.lineno)
    if len(defined) < 3:
        raise AnalysisError("_kernels: fewer than three `#define KERNEL_NAME` lines found (%s)" % sorted(defined))
    calls = [c for c in ast.walk(ms) if isinstance(c, ast.Call) and (pf.call_name(c) or "") == "_kernels"]
    if len(calls) != 1:
        raise AnalysisError("make_source: expected one call of _kernels, found %d" % len(calls))
    bound = {}
    for i, a in enumerate(calls[0].args):
        bound[kparams[i]] = a
    for k in calls[0].keywords:
        bound[k.arg] = k.value
    info_param = ms.args.args[0].arg
    kn_info, kn_var = kn.args.args[0].arg, kn.args.args[1].arg
    rets = [s for s in ast.walk(kn) if isinstance(s, ast.Return)]
    if len(rets) != 1:
        raise AnalysisError("kernel_name: expected a single return")
    # 2. the loaders' variants
    wanted = {}
    for modname in ("kerneldll", "kernelcl", "kernelcuda"):
        mod = pf.lib(modname)
        n_sites = 0
        for c in ast.walk(mod.tree):
            if isinstance(c, ast.Call) and (pf.call_name(c) or "").endswith("kernel_name") and len(c.args) == 2:
                n_sites += 1
                comp = mod.parents.get(c)
                variants = None
                while comp is not None and not isinstance(comp, ast.stmt):
                    if isinstance(comp, (ast.ListComp, ast.GeneratorExp)) and isinstance(c.args[1], ast.Name):
                        for g in comp.generators:
                            if isinstance(g.target, ast.Name) and g.target.id == c.args[1].id:
                                it = g.iter
                                if isinstance(it, ast.Name):
                                    it_name = it.id
                                    fn_ = mod.parents.get(comp)
                                    while fn_ is not None and not isinstance(fn_, ast.FunctionDef):
                                        fn_ = mod.parents.get(fn_)
                                    for st in ast.walk(fn_):
                                        if isinstance(st, ast.Assign) and any(isinstance(t, ast.Name) and t.id == it_name for t in st.targets):
                                            it = st.value
                                if isinstance(it, (ast.Tuple, ast.List)) and all(isinstance(e, ast.Constant) for e in it.elts):
                                    variants = [e.value for e in it.elts]
                    comp = mod.parents.get(comp)
                if isinstance(c.args[1], ast.Constant):
                    variants = [c.args[1].value]
                if variants is None:
                    raise AnalysisError("%s:%d variants passed to kernel_name not literal" % (mod.relpath, c.lineno))
                for v in variants:
                    wanted.setdefault(v, []).append((mod.relpath, c.lineno))
        if not n_sites:
            raise AnalysisError("%s: no call of generate.kernel_name" % mod.relpath)
    # 3. compare
    for v, sites in sorted(wanted.items()):
        looked = _str_parts(rets[0].value, {kn_var: [("lit", v)]})
        if looked is None:
            raise AnalysisError("kernel_name: return expression is not a string-building form")
        looked = _merge_parts([(k, re.sub(r"^%s\b" % re.escape(kn_info), "<info>", t) if k == "expr" else t) for k, t in looked])
        if v not in defined:
            r.violation(sites[0][0], "load", "kernel_name(info, %r)" % v, sites[0][1], "the generator defines no `%s` entry point (it defines %s)"
                        % (v, sorted(defined)))
            continue
        parts, line = defined[v]
        made = []
        for k, t in parts:
            if k == "expr" and t in bound:
                sub = _str_parts(bound[t], {})
                if sub is None:
                    raise AnalysisError("make_source: argument %s of _kernels is not a name/attribute/string form" % t)
                made += [(k2, re.sub(r"^%s\b" % re.escape(info_param), "<info>", t2) if k2 == "expr" else t2) for k2, t2 in sub]
            else:
                made.append((k, t))
        made = _merge_parts(made)
        r.check(made == looked, F, "_kernels/kernel_name", "entry point %s" % v, line,
                "generator defines %s ; loaders (%s) look up %s -- the names must be built the same way from the same ModelInfo field"
                % (made, ", ".join("%s:%d" % s for s in sites), looked))


# --------------------------------------------------------------------------------------------- order selection is symmetric
def ordersel_unit(unit, extra):
    """Worker: a helper that puts its inputs into an array and selects smallest / middle / largest by comparisons must give
    the same value whichever input holds which rank.  The array elements are abstracted to symbols X0..Xn-1 and the helper
    is interpreted once per strict ordering of them (n! orderings; comparisons between elements and their Max/Min decide
    themselves from the ordering, loops with a literal bound are unrolled, any other branch is enumerated both ways); after
    renaming each element to its rank the set of (branch conditions -> result) must be the same for every ordering.
    Ties are not covered (the abstraction is strict orderings)."""
    import itertools
    from ..nf import CInterp, enumerate_paths
    from ..cfront import walk
    out = []
    for fname, fn in sorted(unit.functions.items()):
        body = unit.body(fn)
        if body is None:
            continue
        ff, ll = unit.where(fn)
        if "/models/" not in (ff or "") or "/lib/" in (ff or ""):
            continue
        arrs = []
        for n in walk(body):
            if n.get("kind") == "VarDecl" and "[" in n.get("type", {}).get("qualType", ""):
                init = [x for x in n.get("inner", []) if x.get("kind") == "InitListExpr"]
                if init and 3 <= len(init[0].get("inner", [])) <= 4:
                    arrs.append((n["name"], len(init[0]["inner"])))
        if len(arrs) != 1:
            continue
        arr, n_el = arrs[0]
        compares = [n for n in walk(body) if n.get("kind") == "IfStmt" and (arr + "[") in c_text_(n["inner"][0])]
        if not compares:
            continue
        params = [p["name"] for p in unit.params(fn)]
        X = [sp.Symbol("X%d" % i, positive=True) for i in range(n_el)]
        S = [sp.Symbol("S%d" % i, positive=True) for i in range(n_el)]
        tables = {}
        failed = None
        for perm in itertools.permutations(range(n_el)):
            order = {X[i]: perm[i] for i in range(n_el)}
            ren = {X[i]: S[perm[i]] for i in range(n_el)}

            def canon(e):
                e = e.xreplace(ren)
                def fix(t):
                    if isinstance(t, (sp.Max, sp.Min)) and all(a in S for a in t.args):
                        ranks = sorted(S.index(a) for a in t.args)
                        return S[ranks[-1] if isinstance(t, sp.Max) else ranks[0]]
                    return t
                for _ in range(3):
                    e = e.replace(lambda t: isinstance(t, (sp.Max, sp.Min)), fix)
                return e

            def run(script):
                it = CInterp(unit.functions)
                it.unroll = 8
                it.abstract_arrays = {arr: X}
                it.order = order
                it.script = list(script)
                v = it.call(fname, [sp.Symbol(p, positive=True) for p in params])
                return it.trace, v
            try:
                paths = enumerate_paths(run, limit=16)
            except Exception as exc:
                failed = str(exc)[:120]
                break
            tab = {}
            for trace, v in paths:
                key = tuple((str(canon(val)), ch) for _, val, ch in trace)
                tab[key] = str(sp.simplify(canon(v))) if v is not None else None
            tables[perm] = tab
        if failed:
            out.append(("R-C14-order-select", "note", ff, "%s:%s" % (unit.name, fname), "selection over %s[%d]" % (arr, n_el), ll,
                        "not decided: outside the interpreted fragment (%s)" % failed))
            continue
        ref_perm = tuple(range(n_el))
        ref = tables[ref_perm]
        bad = [(perm, tab) for perm, tab in sorted(tables.items()) if tab != ref]
        if bad:
            perm, tab = bad[0]
            k_ = sorted(set(ref) | set(tab), key=str)
            diff = [(k, ref.get(k), tab.get(k)) for k in k_ if ref.get(k) != tab.get(k)][0]
            out.append(("R-C14-order-select", "violation", ff, "%s:%s" % (unit.name, fname), "selection over %s[%d]" % (arr, n_el), ll,
                        "with the inputs ranked %s the result is %s (branch %s), with them ranked %s it is %s: the value depends on "
                        "which argument holds which rank (%d of %d orderings differ)"
                        % (list(ref_perm), str(diff[1])[:80], str(diff[0])[:80], list(perm), str(diff[2])[:80], len(bad), len(tables))))
        else:
            out.append(("R-C14-order-select", "ok", ff, "%s:%s" % (unit.name, fname), "selection over %s[%d]" % (arr, n_el), ll,
                        "%d strict orderings x %d paths give one table of results in the ranked inputs" % (len(tables), len(ref))))
    return out


def c_text_(n):
    from ..nf import c_text
    return c_text(n)


_ordersel_cache = None


def rule_c14_ordersel(r):
    global _ordersel_cache
    if _ordersel_cache is None:
        from .. import cfront
        _ordersel_cache = cfront.map_units("sa.rules.extra3:ordersel_unit")
    for unit, rows in sorted(_ordersel_cache.items()):
        for row in rows:
            _, status, f, fn, construct, line, detail = row
            getattr(r, status)(f, fn, construct, line, detail)


# --------------------------------------------------------------------------------------------- python path: q buffer layout
def rule_py_qlayout(r):
    """Writer and reader of the Python path's q buffer agree.  PyInput.__init__ stores a 2-D request as an (nq, 2) array with
    q_vectors[k] in column k; PyKernel.__init__ must hand the model (column 0, column 1) of that array as (qx, qy), and
    the default Iqxy built from Iq evaluates Iq at sqrt(qx^2 + qy^2).  Folds (E-val) are used, so any spelling of a
    column read (q[:, 0], q.T[0], q[..., 0]) that folds to the same value is accepted."""
    kp = pf.lib("kernelpy")
    F = kp.relpath
    # writer
    pin = kp.func("PyInput.__init__")
    cols = {}
    shape = None
    for st in pf.walk_stmts(pin):
        if isinstance(st, ast.Assign) and len(st.targets) == 1:
            t = pf.unparse(st.targets[0])
            if t == "self.q" and isinstance(st.value, ast.Call) and st.value.args and isinstance(st.value.args[0], ast.Tuple):
                shape = pf.unparse(st.value.args[0])
            m = re.fullmatch(r"self\.q\[:, (\d)\]", t)
            if m:
                cols[int(m.group(1))] = pf.unparse(st.value)
    if shape is None or len(cols) != 2:
        raise AnalysisError("PyInput.__init__: (nq, 2) allocation and the two column stores not found")
    r.check(shape.replace(" ", "") == "(self.nq,2)" and cols == {0: "q_vectors[0]", 1: "q_vectors[1]"}, F, "PyInput.__init__",
            "self.q = empty(%s); column 0 <- %s, column 1 <- %s" % (shape, cols.get(0), cols.get(1)), pin.lineno,
            "2-D request stored as (nq, 2) with qx in column 0 and qy in column 1")
    # reader
    pk = kp.func("PyKernel.__init__")
    got = None
    for st in pf.walk_stmts(pk):
        if isinstance(st, ast.Assign) and len(st.targets) == 1 and isinstance(st.targets[0], ast.Tuple) and \
                [pf.unparse(e) for e in st.targets[0].elts] == ["qx", "qy"]:
            got = st
    if got is None:
        raise AnalysisError("PyKernel.__init__: `qx, qy = ...` not found")
    v = got.value
    ok = False
    if isinstance(v, ast.Tuple) and len(v.elts) == 2:
        texts = [pf.unparse(e).replace(" ", "") for e in v.elts]
        forms = [("q_input.q[:,%d]" % k, "q_input.q.T[%d]" % k, "q_input.q[...,%d]" % k) for k in (0, 1)]
        ok = texts[0] in forms[0] and texts[1] in forms[1]
    elif pf.unparse(v).replace(" ", "") in ("q_input.q.T", "q_input.q.transpose()"):
        ok = True
    r.check(ok, F, "PyKernel.__init__", "qx, qy = %s" % pf.unparse(v), got.lineno,
            "the model receives column 0 and column 1 of the (nq, 2) buffer; a reshape of the interleaved buffer pairs the wrong numbers")
    lam = [n for n in ast.walk(pk) if isinstance(n, ast.Lambda) and isinstance(n.body, ast.Call) and pf.unparse(n.body.func) == "form"
           and [pf.unparse(a) for a in n.body.args[:2]] == ["qx", "qy"]]
    r.check(bool(lam), F, "PyKernel.__init__", "self._form = lambda: form(qx, qy, *kernel_args)", pk.lineno, "Iqxy is called with (qx, qy) in that order")
    # default Iqxy from Iq
    cv = kp.func("_create_vector_Iqxy")
    default = [n for n in ast.walk(cv) if isinstance(n, ast.FunctionDef) and n is not cv and [a.arg for a in n.args.args[:2]] == ["qx", "qy"]
               and any(isinstance(c, ast.Call) and re.sub(r"\s", "", pf.unparse(c.args[0]) if c.args else "") in
                       ("np.sqrt(qx**2+qy**2)", "sqrt(qx**2+qy**2)", "np.hypot(qx,qy)", "np.sqrt(qx*qx+qy*qy)") for c in ast.walk(n))]
    r.check(bool(default), F, "_create_vector_Iqxy", "default Iqxy(qx, qy) = Iq(sqrt(qx**2 + qy**2))", cv.lineno,
            "a model without its own Iqxy depends on |q| only")


# --------------------------------------------------------------------------------------------- restored objects are complete
def rule_c18_restore(r):
    """A compiled model reaches a worker process by pickling: __setstate__ runs instead of __init__.  For every model class
    of the three back ends that defines both, each attribute that __init__ sets from a constructor argument and that some
    other method reads must also be set by __setstate__ (directly or in a method it calls) from the pickled state, and
    __getstate__ must hand over as many values as __setstate__ unpacks.  A class-level default does not count: the
    restored object would silently run with the default instead of what the model was built with."""
    n_cls = 0
    for modname in ("kerneldll", "kernelcl", "kernelcuda"):
        mod = pf.lib(modname)
        F = mod.relpath
        for cls in [n for n in mod.tree.body if isinstance(n, ast.ClassDef)]:
            meths = {m.name: m for m in cls.body if isinstance(m, ast.FunctionDef)}
            if "__init__" not in meths or "__setstate__" not in meths:
                continue
            n_cls += 1
            init, sets = meths["__init__"], meths["__setstate__"]
            params = {a.arg for a in init.args.args[1:]} | {a.arg for a in init.args.kwonlyargs}

            def self_targets(fn, seen=()):
                out = {}
                for st in ast.walk(fn):
                    tg = []
                    if isinstance(st, ast.Assign):
                        tg = [(t, st.value) for t in st.targets]
                    elif isinstance(st, ast.AnnAssign) and st.value is not None:
                        tg = [(st.target, st.value)]
                    for t, v in tg:
                        for e in (t.elts if isinstance(t, (ast.Tuple, ast.List)) else [t]):
                            if isinstance(e, ast.Attribute) and isinstance(e.value, ast.Name) and e.value.id == "self":
                                out[e.attr] = v
                    if isinstance(st, ast.Call) and isinstance(st.func, ast.Attribute) and isinstance(st.func.value, ast.Name) \
                            and st.func.value.id == "self" and st.func.attr in meths and st.func.attr not in seen:
                        out.update(self_targets(meths[st.func.attr], seen + (st.func.attr,)))
                return out
            from_args = {a: v for a, v in self_targets(init).items()
                         if any(isinstance(x, ast.Name) and x.id in params for x in ast.walk(v))}
            restored = self_targets(sets)
            read = {}
            for name, m in meths.items():
                if name in ("__init__", "__setstate__"):
                    continue
                for x in ast.walk(m):
                    if isinstance(x, ast.Attribute) and isinstance(x.value, ast.Name) and x.value.id == "self" and isinstance(x.ctx, ast.Load):
                        read.setdefault(x.attr, (name, x.lineno))
            for a in sorted(from_args):
                if a not in read:
                    r.ok(F, "%s.__setstate__" % cls.name, "self.%s" % a, sets.lineno, "set by __init__ from its arguments, read by no method")
                    continue
                r.check(a in restored, F, "%s.__setstate__" % cls.name, "self.%s restored from the pickled state" % a, sets.lineno,
                        "__init__ sets self.%s = %s and %s reads it (line %d); an unpickled model that does not carry it runs with the "
                        "class default instead of what it was built with" % (a, pf.unparse(from_args[a])[:60], read[a][0], read[a][1]))
            # __getstate__ / __setstate__ arity
            if "__getstate__" in meths:
                rets = [s for s in ast.walk(meths["__getstate__"]) if isinstance(s, ast.Return) and s.value is not None]
                unpack = [st for st in ast.walk(sets) if isinstance(st, ast.Assign) and isinstance(st.value, ast.Name)
                          and st.value.id == sets.args.args[1].arg and isinstance(st.targets[0], ast.Tuple)]
                if rets and unpack and isinstance(rets[0].value, ast.Tuple):
                    got = [pf.unparse(e) for e in rets[0].value.elts]
                    want = [pf.unparse(e) for e in unpack[0].targets[0].elts]
                    r.check(got == want, F, "%s.__getstate__" % cls.name, "state = (%s)" % ", ".join(got), rets[0].lineno,
                            "__setstate__ unpacks (%s): same attributes in the same order" % ", ".join(want))
    if n_cls < 3:
        raise AnalysisError("fewer than three model classes with __init__ and __setstate__ found (%d)" % n_cls)


# --------------------------------------------------------------------------------------------- model code: locals are assigned before they are read
def definit_unit(unit, extra):
    """Worker: definite assignment for scalar locals of model code (functions defined in models/*.c and their lib files).
    A local declared without initialiser must be assigned on every path before it is read.  Structured analysis over the
    clang AST: `if` = intersection of the branches (a branch that returns does not count), `switch` = intersection of the
    case groups that do not return when there is a default, loops = their body does not count (it may run zero times)
    unless the loop has the literal form `for (i = 0; i < N; ...)` with N a positive literal, `&x` passed to a call and
    x as the pointer target of an out-parameter count as assignments.  Arrays and structs are not tracked."""
    from .. import cfront
    from ..nf import c_strip
    from ..ckernel import kids
    import re
    out = []

    def lname(n):
        n = c_strip(n)
        return n["referencedDecl"]["name"] if n.get("kind") == "DeclRefExpr" else None

    for fname, fn in sorted(unit.functions.items()):
        body = unit.body(fn)
        if body is None:
            continue
        ff, ll = unit.where(fn)
        if "/models/" not in (ff or ""):
            continue
        tracked = {}
        for n in cfront.walk(body):
            if n.get("kind") == "VarDecl" and not [x for x in kids(n) if x.get("kind")]:
                qt = n.get("type", {}).get("qualType", "")
                if "[" not in qt and "*" not in qt and qt.split()[-1] in ("double", "int", "float", "long", "unsigned", "int32_t"):
                    tracked[n["name"]] = n
        if not tracked:
            continue
        reported = set()

        def reads(e, assigned):
            """walk an expression in evaluation order; report reads of unassigned tracked names; return names assigned"""
            k = e.get("kind")
            if k == "BinaryOperator" and e.get("opcode") == "=":
                a, b = kids(e)
                new = reads(b, assigned)
                nm = lname(a)
                if nm in tracked:
                    return new | {nm}
                return new | reads(a, assigned | new)
            if k == "CompoundAssignOperator" or (k == "UnaryOperator" and e.get("opcode") in ("++", "--")):
                new = set()
                for x in kids(e):
                    new |= reads(x, assigned | new)
                return new
            if k == "UnaryOperator" and e.get("opcode") == "&":
                nm = lname(kids(e)[0])
                if nm in tracked:
                    return {nm}            # address taken: handed to a callee as an out slot
            if k == "BinaryOperator" and e.get("opcode") in ("&&", "||"):
                a, b = kids(e)
                new = reads(a, assigned)
                reads(b, assigned | new)   # right operand may not run: its assignments do not count
                return new
            if k == "ConditionalOperator":
                c, a, b = kids(e)
                new = reads(c, assigned)
                na, nb = reads(a, assigned | new), reads(b, assigned | new)
                return new | (na & nb)
            if k == "DeclRefExpr":
                nm = e["referencedDecl"]["name"]
                if nm in tracked and nm not in assigned and nm not in reported:
                    reported.add(nm)
                    f2, l2 = unit.where(e)
                    out.append(("R-C14-definite-init", "violation", f2 or ff, "%s:%s" % (unit.name, fname), "read of `%s`" % nm, l2 or ll,
                                "declared without a value at line %s and not assigned on every path that reaches this read: the value "
                                "is whatever the stack held" % tracked[nm].get("_line", "?")))
                return set()
            new = set()
            for x in kids(e):
                if isinstance(x, dict) and x.get("kind"):
                    new |= reads(x, assigned | new)
            return new

        def run(st, assigned):
            """-> (assigned after st, falls_through)"""
            k = st.get("kind")
            if k == "CompoundStmt":
                for s in kids(st):
                    assigned, ft = run(s, assigned)
                    if not ft:
                        return assigned, False
                return assigned, True
            if k == "DeclStmt":
                for d in kids(st):
                    if d.get("kind") == "VarDecl":
                        for x in kids(d):
                            if x.get("kind"):
                                assigned = assigned | reads(x, assigned)
                        if d["name"] not in tracked:
                            assigned = assigned | {d["name"]}
                return assigned, True
            if k == "ReturnStmt":
                for x in kids(st):
                    reads(x, assigned)
                return assigned, False
            if k in ("BreakStmt", "ContinueStmt"):
                return assigned, False
            if k == "IfStmt":
                parts = kids(st)
                a0 = assigned | reads(parts[0], assigned)
                a1, f1 = run(parts[1], a0)
                if len(parts) > 2:
                    a2, f2 = run(parts[2], a0)
                else:
                    a2, f2 = a0, True
                if f1 and f2:
                    return a1 & a2, True
                if f1:
                    return a1, True
                if f2:
                    return a2, True
                return a0, False
            if k == "ForStmt":
                parts = st.get("inner", [])
                init, cond, inc, lbody = parts[0], parts[2], parts[3], parts[4]
                a0 = assigned
                if init and init.get("kind"):
                    a0, _ = run(init, a0) if init.get("kind") == "DeclStmt" else (a0 | reads(init, a0), True)
                if cond and cond.get("kind"):
                    a0 = a0 | reads(cond, a0)
                ab, _ = run(lbody, a0)
                if inc and inc.get("kind"):
                    reads(inc, ab)
                # a counted loop `i = 0; i < N` with a positive literal N runs its body at least once
                ctxt = re.sub(r"\s+", "", c_text_(cond)) if cond and cond.get("kind") else ""
                itxt = re.sub(r"\s+", "", c_text_(init)) if init and init.get("kind") else ""
                m = re.match(r"^(\w+)<(\d+)$", ctxt)
                if m and int(m.group(2)) > 0 and re.search(r"\b%s=0;?$" % re.escape(m.group(1)), itxt) and \
                        not any(x.get("kind") in ("BreakStmt", "ContinueStmt") for x in cfront.walk(lbody)):
                    return ab, True
                return a0, True
            if k in ("WhileStmt",):
                c, lbody = kids(st)[0], kids(st)[-1]
                a0 = assigned | reads(c, assigned)
                run(lbody, a0)
                return a0, True
            if k == "DoStmt":
                lbody, c = kids(st)[0], kids(st)[-1]
                ab, _ = run(lbody, assigned)
                ab = ab | reads(c, ab)
                return ab, True
            if k == "SwitchStmt":
                parts = kids(st)
                a0 = assigned | reads(parts[0], assigned)
                sbody = parts[-1]
                groups, cur, has_default = [], None, False
                for s in kids(sbody):
                    s2 = s
                    is_label = False
                    while s2.get("kind") in ("CaseStmt", "DefaultStmt"):
                        is_label = True
                        if s2["kind"] == "DefaultStmt":
                            has_default = True
                        s2 = kids(s2)[-1]
                    if is_label:
                        # fall-through from the previous group keeps its assignments only if it did not end
                        if cur is None or not cur[1]:
                            cur = [a0, True]
                            groups.append(cur)
                    if cur is None:
                        continue
                    if cur[1]:
                        a, ft = run(s2, cur[0])
                        if s2.get("kind") == "BreakStmt":
                            cur[1] = False
                            cur.append("break")
                        else:
                            cur[0], cur[1] = a, ft
                            if not ft and any(x.get("kind") == "BreakStmt" for x in cfront.walk(s2)) and s2.get("kind") != "ReturnStmt":
                                cur.append("break")
                exits = [g[0] for g in groups if g[1] or "break" in g[2:]]
                if not has_default:
                    exits.append(a0)
                if not exits:
                    return a0, False
                res = exits[0]
                for e_ in exits[1:]:
                    res = res & e_
                return res, True
            # expression statement and anything else
            if k and (k.endswith("Operator") or k.endswith("Expr") or k.endswith("Literal")):
                return assigned | reads(st, assigned), True
            new = set()
            for x in kids(st):
                if isinstance(x, dict) and x.get("kind"):
                    new |= reads(x, assigned | new)
            return assigned | new, True

        params = {p["name"] for p in unit.params(fn)}
        try:
            run(body, set(params))
        except RecursionError:
            out.append(("R-C14-definite-init", "note", ff, "%s:%s" % (unit.name, fname), "not analysed", ll, "nesting too deep"))
            continue
        if not reported:
            out.append(("R-C14-definite-init", "ok", ff, "%s:%s" % (unit.name, fname), "locals without initialiser: %s" % ", ".join(sorted(tracked)), ll,
                        "each is assigned on every path before it is read"))
    return out


_definit_cache = None


def rule_definit(r):
    global _definit_cache
    if _definit_cache is None:
        from .. import cfront
        _definit_cache = cfront.map_units("sa.rules.extra3:definit_unit")
    seen = set()
    for unit, rows in sorted(_definit_cache.items()):
        for row in rows:
            _, status, f, fn, construct, line, detail = row
            key = (f, line, construct, fn.split(":")[-1])
            if key in seen:
                continue
            seen.add(key)
            getattr(r, status)(f, fn, construct, line, detail)
