"""C07 - P@S interaction models.

Decided: slice arithmetic of ProductKernel.__init__ equals the assembly order
of make_product_info for all (P, S) pairs at once (linear forms over p_npars,
s_npars, volfrac_in_p, have_beta, have_er, nmag); the combination formula in
the four guard cases; injection of R_eff and volfraction*volume_ratio into S;
reported intermediates are the values used; the structural guards on S.
Not decided: numeric equality with separate P and S evaluations.
"""
import ast, itertools
import sympy as sp
from ..report import run_check, AnalysisError
from .. import pyfacts as pf
from .. import nf
from ..layout import affine, same, slice_bounds

F = "sasmodels/product.py"


def _attr_assigns(fn):
    out = {}
    for s in pf.walk_stmts(fn):
        if isinstance(s, ast.Assign) and len(s.targets) == 1:
            out.setdefault(pf.unparse(s.targets[0]), []).append(s)
    return out


def _mag_attr():
    """The attribute of ProductKernel that holds the magnetic slice, by role: the one assigned slice(first_mag, last_mag)."""
    init = pf.lib("product").func("ProductKernel.__init__")
    c = [k for k, v in _attr_assigns(init).items() if k.startswith("self.") and pf.canon(pf.unparse(v[0].value)) == pf.canon("slice(first_mag, last_mag)")]
    if len(c) != 1:
        raise AnalysisError("ProductKernel.__init__: magnetic slice attribute not found (%s)" % c)
    return c[0]


def rule_layout(r):
    mod = pf.lib("product")
    init = mod.func("ProductKernel.__init__")
    mi = pf.lib("modelinfo")
    C = {n: pf.const_value(mi.module_assign(n)) for n in ("NUM_COMMON_PARS", "NUM_MAGFIELD_PARS", "NUM_MAGNETIC_PARS")}
    p, s, v, nm = sp.symbols("p_npars s_npars volfrac_in_p nmag", integer=True)
    A = _attr_assigns(init)
    # writer facts ---------------------------------------------------------
    mk = mod.func("make_product_info")
    cp = [x for x in pf.walk_stmts(mk) if isinstance(x, ast.Assign) and pf.unparse(x.targets[0]) == "combined_pars"]
    ok = bool(cp) and pf.is_text(cp[0].value, "p_pars.kernel_parameters + s_list + make_extra_pars(p_info)")
    r.check(ok, F, "make_product_info", pf.unparse(cp[0]) if cp else "combined_pars", cp[0].lineno if cp else 0,
            "table = P parameters, then S parameters, then the mode parameters")
    sp_ = [x for x in pf.walk_stmts(mk) if isinstance(x, ast.Assign) and pf.unparse(x.targets[0]) == "s_pairs"]
    ok = bool(sp_) and "if par.id != VOLFRAC_ID or not p_has_volfrac" in pf.unparse(sp_[0].value) and \
        "for par in s_pars.kernel_parameters" in pf.unparse(sp_[0].value)
    r.check(ok, F, "make_product_info", "S list = S kernel parameters minus volfraction iff P has it", sp_[0].lineno if sp_ else 0)
    ex = mod.func("make_extra_pars")
    order = [pf.unparse(c.args[0]) for c in pf.calls_in(ex) if pf.call_name(c) == "parse_parameter"]
    conds = [pf.unparse(st.test) for st in ex.body if isinstance(st, ast.If)]
    r.check(order == ["STRUCTURE_MODE_ID", "RADIUS_MODE_ID"] and conds == ["p_info.have_Fq", "p_info.radius_effective_modes is not None"],
            F, "make_extra_pars", "beta mode (iff have_Fq) before R_eff mode (iff modes)", ex.lineno, "%s %s" % (order, conds))
    # reader ---------------------------------------------------------------
    for hb, he, hm in itertools.product((0, 1), (0, 1), (0, 1)):
        env = dict(C)
        env.update({"p_npars": p, "s_npars": s, "volfrac_in_p": v, "have_beta_mode": hb, "have_er_mode": he,
                    "p_info.parameters.nmagnetic": nm if hm else 0})
        facts = {"have_beta_mode": bool(hb), "have_er_mode": bool(he), "mag_pars": bool(hm)}
        local = {}
        def val(name):
            st = A.get(name)
            if not st:
                raise AnalysisError("ProductKernel.__init__: %s not found" % name)
            return affine(st[0].value, dict(env, **local), facts)
        for nm_ in ("first_p", "last_p", "first_s", "last_s", "first_mag", "mag_pars", "last_mag"):
            local[nm_] = val(nm_)
        case = "beta=%d er=%d mag=%d" % (hb, he, hm)
        two = C["NUM_COMMON_PARS"]
        want = {
            "first_p": two, "last_p": two + p,
            "first_s": two + p + 2 - v,            # skip S.radius_effective and (unless in P) S.volfraction
            "last_s": two + p + 2 - v + (s - 2),
            "first_mag": two + p + (s - v) + hb + he,
            "last_mag": two + p + (s - v) + hb + he + ((C["NUM_MAGFIELD_PARS"] + C["NUM_MAGNETIC_PARS"] * nm) if hm else 0),
        }
        for k, w in want.items():
            r.check(same(local[k], w), F, "ProductKernel.__init__", "%s = %s (%s)" % (k, pf.unparse(A[k][0].value), case), A[k][0].lineno,
                    "evaluates to %s; the table places it at %s" % (sp.simplify(local[k]), sp.simplify(w)))
        er = affine(A["self._er_index"][0].value, dict(env, **local), facts)
        r.check(same(er, two + p), F, "ProductKernel.__init__", "_er_index = %s (%s)" % (pf.unparse(A["self._er_index"][0].value), case),
                A["self._er_index"][0].lineno, "S.radius_effective is the first slot after the P block")
        bm = affine(A["self._beta_mode_index"][0].value, dict(env, **local), facts)
        r.check(same(bm, (two + p + s - v) if hb else 0), F, "ProductKernel.__init__", "_beta_mode_index (%s)" % case,
                A["self._beta_mode_index"][0].lineno, "evaluates to %s" % bm)
        em = affine(A["self._er_mode_index"][0].value, dict(env, **local), facts)
        r.check(same(em, (two + p + s - v + hb) if he else 0), F, "ProductKernel.__init__", "_er_mode_index (%s)" % case,
                A["self._er_mode_index"][0].lineno, "evaluates to %s" % em)
        for nm_, w in (("self._p_value_slice", (two, two + p)), ("self._s_value_slice", (two + p + 2 - v, two + p + s - v)),
                       (_mag_attr(), (want["first_mag"], want["last_mag"])),
                       ("self._p_detail_slice", (0, p)), ("self._s_detail_slice", (p, p + s - v))):
            lo, hi = slice_bounds(A[nm_][0].value, dict(env, **local), facts)
            r.check(same(lo, w[0]) and same(hi, w[1]), F, "ProductKernel.__init__", "%s = %s (%s)" % (nm_, pf.unparse(A[nm_][0].value), case),
                    A[nm_][0].lineno, "[%s, %s) vs table [%s, %s)" % (lo, hi, sp.simplify(w[0]), sp.simplify(w[1])))
    sd = A.get("self._s_dist_slice")
    lo = None
    if sd and isinstance(sd[0].value, ast.Call) and len(sd[0].value.args) == 2 and pf.const_value(sd[0].value.args[1]) is None:
        lo = affine(sd[0].value.args[0], {"NUM_COMMON_PARS": C["NUM_COMMON_PARS"], "s_npars": s})
    r.check(lo is not None and same(lo, C["NUM_COMMON_PARS"] + s), F, "ProductKernel.__init__", "_s_dist_slice = %s" % (pf.unparse(sd[0].value) if sd else "?"),
            sd[0].lineno if sd else 0, "S distribution block starts after S's scalar slots (S has no magnetic parameters)")
    vip = A.get("volfrac_in_p")
    r.check(bool(vip) and pf.is_text(vip[0].value, "self._volfrac_index < p_npars + NUM_COMMON_PARS"), F, "ProductKernel.__init__",
            pf.unparse(vip[0]) if vip else "volfrac_in_p", vip[0].lineno if vip else 0, "volfraction found inside the P block")
    txt = pf.unparse(init)
    r.check("for (k, p) in enumerate(model_info.parameters.call_parameters)".replace("(k, p)", "k, p") in txt.replace("(k, p)", "k, p")
            and "if p.id == VOLFRAC_ID" in txt and "self._volfrac_index = k" in txt and "break" in txt, F, "ProductKernel.__init__",
            "_volfrac_index = first call parameter named volfraction", init.lineno)
    r.check("have_beta_mode = p_info.have_Fq" in txt and "have_er_mode = p_info.radius_effective_modes is not None" in txt, F,
            "ProductKernel.__init__", "mode flags use the same conditions as make_extra_pars", init.lineno)


def rule_formula(r):
    mod = pf.lib("product")
    iq = mod.func("ProductKernel.Iq")
    A = _attr_assigns(iq)
    S_ = nf.sym
    ps = A.get("PS")
    if not ps or not isinstance(ps[0].value, ast.IfExp):
        raise AnalysisError("ProductKernel.Iq: PS not found")
    r.check(pf.unparse(ps[0].value.test) == "beta_mode", F, "ProductKernel.Iq", "PS selected by beta_mode", ps[0].lineno)
    cs = A.get("combined_scale")
    aug = [s for s in pf.walk_stmts(iq) if isinstance(s, ast.AugAssign) and pf.unparse(s.target) == "combined_scale"]
    fr = A.get("final_result")
    if not (cs and fr):
        raise AnalysisError("ProductKernel.Iq: combined_scale/final_result not found")
    for beta in (True, False):
        for vip in (True, False):
            PS = nf.py_expr(ps[0].value.body if beta else ps[0].value.orelse, {})
            scale = nf.py_expr(cs[0].value, {})
            for a in aug:
                parent = mod.parents.get(a)
                cond = pf.unparse(parent.test) if isinstance(parent, ast.If) else None
                applies = cond is None or (cond == "not self._volfrac_in_p" and not vip) or (cond == "self._volfrac_in_p" and vip)
                if cond not in (None, "not self._volfrac_in_p", "self._volfrac_in_p"):
                    raise AnalysisError("ProductKernel.Iq: unexpected guard %s" % cond)
                if applies:
                    val = nf.py_expr(a.value, {})
                    scale = scale * val if isinstance(a.op, ast.Mult) else scale / val
            final = nf.py_expr(fr[0].value, {"combined_scale": scale, "PS": PS})
            Fsq, Fa, S, vol, V, sc, bg = S_("Fsq"), S_("F"), S_("S"), S_("volfrac"), S_("shell_volume"), S_("scale"), S_("background")
            core = (Fsq + Fa ** 2 * (S - 1)) if beta else Fsq * S
            want = sc * (1 if vip else vol) / V * core + bg
            r.check(nf.equal(final, want), F, "ProductKernel.Iq", "I (beta=%s, volfraction in P=%s) = %s" % (beta, vip, sp.simplify(final)),
                    fr[0].lineno, "documented: scale*%s/V_shell*(%s) + background" % ("1" if vip else "volfraction", "Fsq + F^2 (S-1)" if beta else "Fsq*S"))
    rets = [s for s in pf.walk_stmts(iq) if isinstance(s, ast.Return)]
    r.check(bool(rets) and pf.unparse(rets[-1].value) == "final_result", F, "ProductKernel.Iq", "return final_result", rets[-1].lineno if rets else 0)
    sb = A.get("(scale, background)") or A.get("scale, background")
    txt = pf.unparse(iq)
    r.check("(scale, background) = (values[0], values[1])" in txt or "scale, background = (values[0], values[1])" in txt, F, "ProductKernel.Iq",
            "scale, background = values[0], values[1]", iq.lineno)
    vf = A.get("volfrac")
    r.check(bool(vf) and pf.unparse(vf[0].value) == "values[self._volfrac_index]", F, "ProductKernel.Iq", "volfrac = values[self._volfrac_index]",
            vf[0].lineno if vf else 0)


def rule_inject(r):
    mod = pf.lib("product")
    iq = mod.func("ProductKernel.Iq")
    cfg = pf.cfg(iq)
    txt = pf.unparse(iq)
    # P call
    pc = [s for s in cfg.stmts() if isinstance(s, ast.Assign) and isinstance(s.value, ast.Call) and pf.call_name(s.value) == "self.p_kernel.Fq"]
    if not pc:
        raise AnalysisError("ProductKernel.Iq: P call not found")
    tgt = pf.unparse(pc[0].targets[0]).strip("()")
    r.check(tgt == "F, Fsq, radius_effective, shell_volume, volume_ratio", F, "ProductKernel.Iq", "%s = p_kernel.Fq(...)" % tgt, pc[0].lineno,
            "unpacked in the order Kernel.Fq returns: <F>, <F^2>, R_eff, V_shell, V_form/V_shell")
    k = pf.lib("kernel").func("Kernel.Fq")
    kret = [s for s in k.body if isinstance(s, ast.Return)][0]
    r.check(pf.unparse(kret.value) == "(F1, F2, radius_effective, shell_volume, form_volume / shell_volume)", "sasmodels/kernel.py", "Kernel.Fq",
            "return order", kret.lineno)
    a = [pf.unparse(x) for x in pc[0].value.args]
    r.check(a == ["p_details", "p_values", "cutoff", "magnetic", "er_mode"], F, "ProductKernel.Iq", "p_kernel.Fq(%s)" % ", ".join(a), pc[0].lineno,
            "P is averaged with the selected effective-radius mode")
    pv = [s for s in cfg.stmts() if isinstance(s, ast.Assign) and pf.unparse(s.targets[0]) == "p_values" and isinstance(s.value, ast.List)]
    r.check(bool(pv) and [pf.unparse(e) for e in pv[0].value.elts] == ["[1.0, 0.0]", "values[self._p_value_slice]", "values[%s]" % _mag_attr(), "weights"],
            F, "ProductKernel.Iq", "p_values = [[1, 0], P block, magnetic block, weights]", pv[0].lineno if pv else 0,
            "P evaluated with scale 1, background 0")
    sv = [s for s in cfg.stmts() if isinstance(s, ast.Assign) and pf.unparse(s.targets[0]) == "s_values" and isinstance(s.value, ast.List)]
    ok = bool(sv) and [pf.unparse(e) for e in sv[0].value.elts] == ["[1.0, 0.0, values[self._er_index], 0.0]", "values[self._s_value_slice]", "weights"]
    r.check(ok, F, "ProductKernel.Iq", "s_values = [[1, 0, values[er_index], 0], S block, weights]", sv[0].lineno if sv else 0,
            "S evaluated with scale 1, background 0, user R_eff (mode 0) and a placeholder for volfraction")
    # volfraction injection (unconditional) and R_eff injection (iff er_mode > 0)
    inj_v = [s for s in cfg.stmts() if isinstance(s, ast.Assign) and len(s.targets) == 2 and
             pf.unparse(s.targets[0]) == "s_values[NUM_COMMON_PARS + 1]" and pf.unparse(s.targets[1]) == "s_dist[s_offset[1]]"]
    okv = bool(inj_v) and nf.equal(nf.py_expr(inj_v[0].value, {}), nf.sym("volfrac") * nf.sym("volume_ratio"))
    r.check(okv, F, "ProductKernel.Iq", "S.volfraction (value and distribution slot) = volfrac*volume_ratio", inj_v[0].lineno if inj_v else 0,
            "scaled by <V_form>/<V_shell>")
    call_s = [s for s in cfg.stmts() if isinstance(s, ast.Assign) and isinstance(s.value, ast.Call) and pf.call_name(s.value) == "self.s_kernel.Iq"]
    if inj_v and call_s:
        r.check(cfg.dominates(inj_v[0], call_s[0]), F, "ProductKernel.Iq", "volfraction injected before S is called", inj_v[0].lineno)
    w1 = [s for s in cfg.stmts() if isinstance(s, ast.Assign) and pf.unparse(s.targets[0]) == "s_dist[s_offset[1] + nweights]" and pf.const_value(s.value) == 1.0]
    r.check(bool(w1), F, "ProductKernel.Iq", "s_dist[s_offset[1] + nweights] = 1.0", w1[0].lineno if w1 else 0, "with weight one")
    ers = [s for s in cfg.stmts() if isinstance(s, ast.If) and pf.unparse(s.test) == "er_mode > 0"]
    body_txt = " ; ".join(pf.unparse(b) for st in ers for b in st.body)
    r.check("s_values[NUM_COMMON_PARS] = s_dist[s_offset[0]] = radius_effective" in body_txt and "s_dist[s_offset[0] + nweights] = 1.0" in body_txt
            and "s_length[0] = 1" in body_txt, F, "ProductKernel.Iq", "if er_mode > 0: S.radius_effective = P's R_eff, monodisperse, weight 1",
            ers[0].lineno if ers else 0, "mode 0 keeps the user's value")
    if call_s:
        a = [pf.unparse(x) for x in call_s[0].value.args]
        r.check(a == ["s_details", "s_values", "cutoff", "False"], F, "ProductKernel.Iq", "S = s_kernel.Iq(%s)" % ", ".join(a), call_s[0].lineno,
                "structure factor is never magnetic")
        for st in ers:
            for b in st.body:
                if "radius_effective" in pf.unparse(b):
                    r.check(b.lineno < call_s[0].lineno, F, "ProductKernel.Iq", "R_eff injected before S is called", b.lineno)
    em = [s for s in cfg.stmts() if isinstance(s, ast.Assign) and pf.unparse(s.targets[0]) == "er_mode"]
    r.check(bool(em) and pf.is_text(em[0].value, "int(values[self._er_mode_index]) if self._er_mode_index > 0 else 0"), F, "ProductKernel.Iq",
            pf.unparse(em[0]) if em else "er_mode", em[0].lineno if em else 0)
    bm = [s for s in cfg.stmts() if isinstance(s, ast.Assign) and pf.unparse(s.targets[0]) == "beta_mode"]
    r.check(bool(bm) and pf.is_text(bm[0].value, "values[self._beta_mode_index] > 0 if self._beta_mode_index > 0 else False"), F, "ProductKernel.Iq",
            pf.unparse(bm[0]) if bm else "beta_mode", bm[0].lineno if bm else 0)
    # volfraction slot when it lives in P
    ins = [s for s in pf.walk_stmts(iq) if isinstance(s, ast.If) and pf.unparse(s.test) == "self._volfrac_in_p"]
    bt = " ; ".join(pf.unparse(b) for st in ins for b in st.body)
    r.check("s_length = np.insert(s_length, 1, 1)" in bt and "s_offset = np.insert(s_offset, 1, p_offset[self._volfrac_index - 2])" in bt, F,
            "ProductKernel.Iq", "volfraction slot re-inserted at S position 1 when P owns it", ins[0].lineno if ins else 0)


def rule_reported(r):
    mod = pf.lib("product")
    iq = mod.func("ProductKernel.Iq")
    res = [s for s in pf.walk_stmts(iq) if isinstance(s, ast.Assign) and pf.unparse(s.targets[0]) == "self.results"]
    if not res or not isinstance(res[0].value, ast.Lambda):
        raise AnalysisError("ProductKernel.Iq: lazy results closure not found")
    call = res[0].value.body
    args = [pf.unparse(a) for a in call.args]
    want = ["self.q", "F", "Fsq", "S", "combined_scale", "shell_volume", "volume_ratio", "radius_effective", "beta_mode", "p_intermediate"]
    r.check(pf.call_name(call) == "_intermediates" and args == want, F, "ProductKernel.Iq", "results = lambda: _intermediates(%s)" % ", ".join(args),
            res[0].lineno, "reports the very objects the result was computed from")
    sig = pf.positional_params(mod.func("_intermediates"))
    r.check(sig == ["Q", "F", "Fsq", "S", "scale", "volume", "volume_ratio", "radius_effective", "beta_mode", "P_intermediate"], F, "_intermediates",
            "signature %s" % sig, 0)
    # none of the captured names is rebound after final_result
    fr = [s for s in pf.walk_stmts(iq) if isinstance(s, ast.Assign) and pf.unparse(s.targets[0]) == "final_result"]
    after = [s for s in pf.walk_stmts(iq) if fr and s.lineno > fr[0].lineno and pf.assigned_names(s) & set(want)]
    r.check(not after, F, "ProductKernel.Iq", "captured values are not rebound after final_result", fr[0].lineno if fr else 0)
    it = mod.func("_intermediates")
    t = pf.unparse(it)
    for frag, why in (("parts['P(Q)'] = (Q, scale * Fsq)", "P(Q)"), ("parts['S(Q)'] = (Q, S)", "S(Q)"), ("parts['volume'] = volume", "volume"),
                      ("parts['volume_ratio'] = volume_ratio", "volume ratio"), ("parts['radius_effective'] = radius_effective", "R_eff"),
                      ("parts['beta(Q)'] = (Q, F ** 2 / Fsq)", "beta(Q) = <F>^2/<F^2>")):
        r.check(frag in t, F, "_intermediates", frag, it.lineno, why)


def rule_guards(r):
    mod = pf.lib("product")
    mk = mod.func("make_product_info")
    cfg = pf.cfg(mk)
    table = [s for s in cfg.stmts() if isinstance(s, ast.Assign) and pf.unparse(s.targets[0]) == "parameters"]
    want = ["not len(s_info.parameters.kernel_parameters) >= 2", "not s_info.parameters.kernel_parameters[0].id == RADIUS_ID",
            "not s_info.parameters.kernel_parameters[1].id == VOLFRAC_ID", "not s_info.parameters.magnetism_index == []",
            "RADIUS_ID in p_info.parameters"]
    for w in want:
        g = [s for s in cfg.stmts() if isinstance(s, ast.If) and pf.unparse(s.test) == w]
        ok = bool(g) and pf.ends_in_raise(g[0].body) and (not table or cfg.dominates(g[0], table[0]))
        r.check(ok, F, "make_product_info", "if %s: raise TypeError" % w, g[0].lineno if g else mk.lineno,
                "S must start with (radius_effective, volfraction) and carry no SLD; checked before the table is built")
    for name, val in (("RADIUS_ID", "radius_effective"), ("VOLFRAC_ID", "volfraction"), ("RADIUS_MODE_ID", "radius_effective_mode"),
                      ("STRUCTURE_MODE_ID", "structure_factor_mode")):
        r.check(pf.const_value(mod.module_assign(name)) == val, F, "<module>", "%s = %r" % (name, val), 0)


def rule_averages(r):
    """The P averages handed to the combination (<F>, <F^2>, V_shell, V_form, R_eff) are the kernel's four carried sums:
    shared with C01 (carry/reset pairing of the accumulators in every generated kernel) and restated here because a
    mis-carried R_eff or volume sum changes S's inputs only for meshes that span several kernel invocations."""
    from .. import cfront
    from . import c01
    res = c01._c_results()
    n = 0
    for unit, rows in sorted(res.items()):
        for row in rows:
            if row[0] == "R-C01-carry" and row[3].endswith(":Iq"):
                _, status, f, fn, construct, line, detail = row
                n += 1
                getattr(r, status)(f, fn, construct, line, detail)
    # the effective-radius sum is accumulated with the selected mode
    from ..ckernel import Kernel, norm
    idx = cfront.generate_units()
    r.check(n > 100, "sasmodels/kernel_iq.c", "*", "carried sums examined in %d 1-D kernels" % (n // 6 if n else 0), 0)


from . import extra3 as _x3
RULES = [
    ("R-C07-averages", 300, "P's averaged volumes and R_eff are carried correctly across kernel invocations (shared with C01)", rule_averages),
    ("R-C07-layout", 100, "slice arithmetic = assembly order, all (P,S) at once", rule_layout),
    ("R-C07-formula", 8, "combination formula, four guard cases", rule_formula),
    ("R-C07-inject", 14, "R_eff and volfraction injection", rule_inject),
    ("R-C07-reported", 9, "reported intermediates are the values used", rule_reported),
    ("R-C07-guards", 9, "structural guards on S", rule_guards),
    ("R-C07-sign", 20, "Fq writes a signed amplitude (no sqrt/fabs) in every have_Fq unit", _x3.make_sign_rule("R-C07-sign")),
]


from . import shared
RULES = RULES + shared.bundle('C07', ['f2i', 'tablebounds', 'gauss-tables', 'intdiv', 'gpu', 'gate', 'restart', 'driver', 'values', 'stride', 'maxpd', 'norm', 'loops', 'eqvol', 'modes', 'minmax', 'fastpath', 'q0', 'mode-order', 'order-select', 'definite-init', 'scan'], ['product', 'details', 'kernel'])
from .. import refs as _refs
RULES = RULES + [_refs.ref_rule('C07')]


def run(tier="quick", replay=None):
    return run_check(
        "C07", RULES, tier=tier, replay=replay,
        explanation="Affine layout algebra: every index/slice computed in ProductKernel.__init__ is evaluated to a linear form "
                    "over (p_npars, s_npars, volfrac_in_p, nmag) for the 8 combinations of (beta, R_eff mode, magnetic) and "
                    "compared with the offsets implied by make_product_info's concatenation order; sympy normal form of the "
                    "combination in the 4 guard cases; dominance/ordering of the injections; closure capture of the reported "
                    "values. Numeric agreement with separate P and S evaluations is not decided.",
        assumptions=["ParameterTable orders values as common + kernel + magnetic (R-C06-python)"])
