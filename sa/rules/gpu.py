"""Kernel rules for the OpenCL configuration of the generated units.

The DLL configuration (`#if !defined(USE_GPU)`) loops over the q points inside the kernel and accumulates straight into
`result[...]`; the GPU configuration runs one work item per q point, carries the q-point sums in the private locals
`this_F2` / `this_F1` and stores them back on exit.  Those lines exist only under `USE_GPU`, so the rules that read the DLL
units never see them.  Here every model's OpenCL source (`make_source(...)['opencl']`, what kernelcl hands to the device
compiler) is parsed with clang's OpenCL front end and the GPU-only constructs of the three kernels are decided:

  bound    q_index = get_global_id(0) and `if (q_index >= nq) return;` come before anything else (a work item of the padded
           global range neither reads q nor writes result beyond nq)
  carry    the q-point accumulators are restored from their own result slot when pd_start != 0 (zero otherwise) and stored
           back to the same slot on exit; the four scalar sums keep their slots after the q range
  gate     every accumulation into them is a `+=` of `weight * <model result>` inside `if (VALID) { if (weight > cutoff)`
           and there is no loop over q inside the kernel; q is fetched at q_index
"""
import re
from ..report import AnalysisError
from .. import cfront
from ..ckernel import Kernel, VARIANTS, kids, norm, if_parts
from ..nf import c_text, c_strip, c_callee

KI = "sasmodels/kernel_iq.c"


def gpu_unit(unit, extra):
    out = []

    def inst(rule, ok, fn, construct, line, detail=""):
        out.append((rule, "ok" if ok else "violation", KI, fn, construct, line, detail))

    if unit.meta.get("config") != "opencl":
        raise AnalysisError("gpu rules given a unit of configuration %r" % unit.meta.get("config"))
    for variant in VARIANTS:
        try:
            k = Kernel(unit, variant)
        except AnalysisError:
            if variant == "Imagnetic":
                continue
            raise
        fn = "%s:%s" % (unit.name, variant)
        line = k.fn.get("_line", 0)
        top = kids(k.body)
        # ---- bound ---------------------------------------------------------------------------------------------------
        qi = None
        for j, st in enumerate(top):
            if st["kind"] == "DeclStmt":
                for d in kids(st):
                    if d.get("kind") == "VarDecl" and kids(d):
                        e = c_strip(kids(d)[0])
                        if e.get("kind") == "CallExpr" and c_callee(e) == "get_global_id":
                            qi = (d["name"], j, norm(c_text(e)), d)
        if qi is None:
            inst("R-C01-gpu", False, fn, "q_index = get_global_id(0)", line, "the work item's q index is not taken from the global id")
            continue
        qname, j, call, d = qi
        inst("R-C01-gpu", call == "get_global_id(0)" and j == 0, fn, "%s = %s (first statement)" % (qname, call), d.get("_line", 0),
             "one work item per q point, first dimension")
        nxt = top[j + 1] if j + 1 < len(top) else None
        okb = False
        if nxt is not None and nxt["kind"] == "IfStmt":
            c, then, els = if_parts(nxt)
            okb = norm(c_text(c)) in ("%s>=%s" % (qname, k.p_nq), "%s<=%s" % (k.p_nq, qname)) and els is None and \
                (then["kind"] == "ReturnStmt" or (then["kind"] == "CompoundStmt" and [x["kind"] for x in kids(then)] == ["ReturnStmt"]))
        inst("R-C01-gpu", okb, fn, "if (%s >= %s) return;" % (qname, k.p_nq), nxt.get("_line", 0) if nxt else line,
             "padding work items leave before touching q or result" if okb else
             "the global range is padded to a multiple of the work-group size: without this exit, work items beyond nq read past "
             "the q vector and overwrite the four sums stored after the q slots")
        # ---- carry ---------------------------------------------------------------------------------------------------
        accs = k.accumulators()
        acc_by_name = {n: e for n, e, d_, z in accs}
        fq = any(e.startswith("2*") for e in acc_by_name.values())
        want_q = sorted(["2*%s+0" % qname, "2*%s+1" % qname] if fq else [qname])
        want_b = "2*%s" % k.p_nq if fq else k.p_nq
        want_s = sorted([want_b] + ["%s+%d" % (want_b, i) for i in (1, 2, 3)])
        have = sorted(acc_by_name.values())
        inst("R-C01-gpu", have == sorted(want_q + want_s), fn, "carried accumulators %s" % have, line,
             "q-point sums at %s, scalar sums at %s" % (want_q, want_s))
        have_fq = bool(unit.meta.get("have_Fq"))
        # stores on exit: top level, or inside the `if (q_index == 0)` block
        stores = []
        def scan(comp):
            for st in kids(comp):
                kk = st["kind"]
                if kk == "CompoundStmt":
                    scan(st)
                elif kk == "IfStmt":
                    c, then, els = if_parts(st)
                    if norm(c_text(c)) == "%s==0" % qname and els is None:
                        scan(then if then["kind"] == "CompoundStmt" else {"inner": [then]})
                elif kk == "BinaryOperator" and st.get("opcode") == "=":
                    lhs = c_strip(kids(st)[0])
                    if lhs.get("kind") == "ArraySubscriptExpr" and c_text(kids(lhs)[0]).strip() == k.p_result:
                        stores.append((norm(c_text(kids(lhs)[1])), norm(c_text(kids(st)[1])), st))
        scan(k.body)
        store_by_val = {}
        for e, v, st in stores:
            store_by_val.setdefault(v, []).append(e)
        for n, e, d_, z in accs:
            ok = store_by_val.get(n) == [e] and z
            inst("R-C01-gpu", ok, fn, "%s <-> result[%s]" % (n, e), d_.get("_line", 0),
                 "restored from result[%s] when pd_start != 0, zero otherwise, stored back to %s on exit" % (e, store_by_val.get(n)))
        for e, v, st in stores:
            if v not in acc_by_name:
                inst("R-C01-gpu", False, fn, "result[%s] = %s" % (e, v), st.get("_line", 0), "value stored on exit is not a carried accumulator")
        # ---- gate ----------------------------------------------------------------------------------------------------
        vif, cif = k.valid_if(), k.cutoff_if()
        if vif is None or cif is None:
            inst("R-C01-gpu", False, fn, "if (VALID(...)) { ... if (weight > cutoff) { ... } }", line, "gating structure not found")
            continue
        m = re.match(r"^(\w+)>%s$" % re.escape(k.p_cutoff), norm(c_text(if_parts(cif)[0])))
        wvar = m.group(1) if m else "weight"
        qaccs = {n for n, e in acc_by_name.items() if qname in e}
        # the model results: locals written by the model call (by address for Fq, by value for Iq), in argument order
        seen = {n: 0 for n in qaccs}
        for n in cfront.walk(k.body):
            if n.get("kind") == "CompoundAssignOperator":
                lhs = norm(c_text(kids(n)[0]))
                if lhs in qaccs:
                    seen[lhs] += 1
                    rhs = norm(c_text(kids(n)[1]))
                    anc_ok = any(n is x for x in cfront.walk(cif)) and any(cif is x for x in cfront.walk(vif))
                    mm = re.match(r"^%s\*(\w+)$" % re.escape(wvar), rhs)
                    want_res = None
                    if fq:
                        want_res = "F2" if acc_by_name[lhs].endswith("+0") else "F1"
                    ok = n.get("opcode") == "+=" and anc_ok and bool(mm) and (want_res is None or mm.group(1) == want_res)
                    inst("R-C01-gpu", ok, fn, "%s %s %s" % (lhs, n.get("opcode"), rhs[:50]), n.get("_line", 0),
                         "sum of weight * model result over valid points above the cutoff" if ok else
                         "the q-point sum must be `+= %s * %s` inside the VALID and cutoff tests (gated=%s)" % (wvar, want_res or "<result>", anc_ok))
            if n.get("kind") == "BinaryOperator" and n.get("opcode") == "=" and norm(c_text(kids(n)[0])) in qaccs:
                inst("R-C01-gpu", False, fn, c_text(n)[:60], n.get("_line", 0), "the carried q-point sum is overwritten")
        for n, cnt in sorted(seen.items()):
            inst("R-C01-gpu", cnt >= 1, fn, "%s accumulated %d time(s)" % (n, cnt), line, "every carried q-point sum is accumulated")
        # no loop over q in this configuration; q fetched at the work item's index
        qloops = [n for n in cfront.walk(k.body) if n.get("kind") == "ForStmt" and qname in norm(c_text((n.get("inner") or [None, None, None])[2] or {}))]
        inst("R-C01-gpu", not qloops, fn, "no loop over %s inside the kernel" % qname, qloops[0].get("_line", 0) if qloops else line,
             "one q point per work item")
        fetch = []
        for n in cfront.walk(cif):
            if n.get("kind") == "BinaryOperator" and n.get("opcode") == "=":
                lhs, rhs = kids(n)
                r0 = c_strip(rhs)
                if r0.get("kind") == "ArraySubscriptExpr" and norm(c_text(kids(r0)[0])) == k.p_q:
                    fetch.append((norm(c_text(lhs)), norm(c_text(kids(r0)[1])), n))
        if variant == "Iq":
            okf = len(fetch) == 1 and fetch[0][1] == qname
        else:
            okf = sorted(f[1] for f in fetch) == ["2*%s" % qname, "2*%s+1" % qname] and \
                [f[0] for f in sorted(fetch, key=lambda f: f[1])] == ["qx", "qy"]
        inst("R-C01-gpu", okf, fn, "q fetch: %s" % ["%s = q[%s]" % (a, b) for a, b, _ in fetch], fetch[0][2].get("_line", 0) if fetch else line,
             "each work item reads its own q point")
    return out


_G = None


def _results():
    global _G
    if _G is None:
        _G = cfront.map_units("sa.rules.gpu:gpu_unit", config="opencl")
    return _G


def make_gpu_rule():
    def run(r):
        try:
            res = _results()
        except AnalysisError as exc:
            msg = str(exc)
            m = re.search(r"clang failed on (\S+): \[[\"'](.*?):(\d+):\d+: error: (.*?)[\"'],", msg)
            if not m:
                raise
            # compile-fail witness: the OpenCL C front end rejects the generated source of this model
            unit, pfile, line, err = m.group(1), m.group(2), int(m.group(3)), m.group(4)
            f = cfront.repo_path(pfile)
            r.violation(f, unit, "OpenCL source of the model is accepted by the OpenCL C front end", line,
                        "clang -x cl rejects the generated kernel: %s - the model cannot be built for a GPU at all (the dll build, "
                        "plain C, may still accept the same text)" % err)
            return
        for unit, rows in sorted(res.items()):
            for row in rows:
                _, status, f, fn, construct, line, detail = row
                getattr(r, status)(f, fn, construct, line, detail)
    return run


# ---------------------------------------------------------------------------------------------------------------------------
# Python drivers of the three back ends (kerneldll.DllKernel, kernelcl.GpuKernel, kernelcuda.GpuKernel): sibling agreement
# ---------------------------------------------------------------------------------------------------------------------------
def _fname(e):
    return getattr(getattr(e, "func", None), "__name__", "")


def _subterms(e):
    stack = [e]
    while stack:
        x = stack.pop()
        yield x
        stack.extend(getattr(x, "args", ()) or ())


def rule_drivers(r):
    """The three drivers implement one interface (Kernel._call_kernel + the input/result buffers the C kernel indexes).
    Decided on the folded values (E-val) of each, by role:
      args     the 9 kernel arguments are, in order: nq, start, stop, details buffer, value vector, q buffer, result buffer,
               cutoff converted to the kernel precision, effective-radius mode
      result   the result vector has nq * (2 where the model has Fq [and the data is 1-D], else 1) + 4 slots
      readback the GPU drivers copy the device result into self.result after the last chunk, on every path
      select   the kernel is chosen by dimension and magnetism: 1-D -> Iq, 2-D -> Imagnetic if magnetic else Iqxy
      q        2-D input interleaves qx (column 0) and qy (column 1) in rows [0, nq); 1-D fills [0, nq); the padded length is
               a multiple-of-k round-up of nq (>= nq); the OpenCL and CUDA input classes are identical folds"""
    import ast
    import sympy as sp
    from .. import pyfacts as pf, pyval
    DRIVERS = (("kerneldll", "DllKernel", "kernelpy", "PyInput"), ("kernelcl", "GpuKernel", "kernelcl", "GpuInput"),
               ("kernelcuda", "GpuKernel", "kernelcuda", "GpuInput"))
    input_folds = {}
    for modname, cls, imod, icls in DRIVERS:
        mod = pf.lib(modname)
        f = mod.relpath
        # ---- args ----------------------------------------------------------------------------------------------------
        ck = mod.func(cls + "._call_kernel")
        lists = [s for s in ck.body if isinstance(s, ast.Assign) and isinstance(s.value, ast.List) and len(s.value.elts) >= 5]
        if len(lists) != 1:
            raise AnalysisError("%s.%s._call_kernel: kernel argument list not found" % (modname, cls))
        al = lists[0]
        res = pyval.fold_function(ck)
        txt = [str(pyval.PyVal().value(e, {})) if False else pf.inlined_text(ck, e) for e in al.value.elts]
        r.check(len(txt) == 9, f, cls + "._call_kernel", "%d kernel arguments" % len(txt), al.lineno, "the C kernels take 9 arguments")
        if len(txt) == 9:
            roles = [
                ("nq", "self.q_input.nq" in txt[0]),
                ("pd_start placeholder", txt[1] == "None"), ("pd_stop placeholder", txt[2] == "None"),
                ("details buffer", "call_details.buffer" in txt[3] and "values" not in txt[3]),
                ("value vector", "values" in txt[4] and "call_details" not in txt[4]),
                ("q buffer", "self.q_input.q" in txt[5]),
                ("result buffer", ("self.result" in txt[6] or "self._result_b" in txt[6]) and "q_input" not in txt[6]),
                ("cutoff in kernel precision", pf.canon(txt[7]) == pf.canon("self._as_dtype(cutoff)")),
                ("effective-radius mode", "radius_effective_mode" in txt[8]),
            ]
            for i, (what, ok) in enumerate(roles):
                r.check(ok, f, cls + "._call_kernel", "argument %d: %s = %s" % (i, what, txt[i][:60]), al.value.elts[i].lineno,
                        "matches the C signature (nq, pd_start, pd_stop, details, values, q, result, cutoff, mode)")
        # ---- the caller's request is used as given -------------------------------------------------------------------
        ps_ = [a.arg for a in ck.args.args if a.arg != "self"]
        rebound = sorted({n_.id for n_ in ast.walk(ck) if isinstance(n_, ast.Name) and isinstance(n_.ctx, ast.Store) and n_.id in ps_})
        r.check(not rebound, f, cls + "._call_kernel", "arguments %s are not rebound" % ps_, ck.lineno,
                "kernel selection, cutoff and mode are the caller's" if not rebound else
                "%s rebound inside the driver: the kernel variant / cutoff / mode used is no longer the one Kernel.Iq/Fq decided "
                "(e.g. a magnetic request evaluated by the non-magnetic kernel)" % rebound)
        # ---- result size ---------------------------------------------------------------------------------------------
        init = mod.func(cls + ".__init__")
        ri = pyval.fold_function(init)
        rv = ri.get("self.result")
        size = rv.args[0] if rv is not None and _fname(rv) in ("np_empty", "np_zeros") and rv.args else None
        ok = False
        detail = "self.result = %s" % str(rv)[:120]
        if size is not None:
            const = [a for a in sp.Add.make_args(size) if a.is_Number]
            rest = size - sum(const)
            whs = [t for t in _subterms(rest) if _fname(t) == "where" and len(t.args) == 3 and t.args[1].is_Number]
            nqs = [t for t in _subterms(rest) if "nq" in str(t) and _fname(t) == "attr"]
            if sum(const) == 4 and len(whs) == 1 and nqs:
                c, a, b = whs[0].args
                cs = str(c)
                def ev(e, fq, two_d):
                    fn_ = _fname(e)
                    s_ = str(e)
                    if fn_ == "band":
                        vs = [ev(x, fq, two_d) for x in e.args]
                        return None if None in vs else all(vs)
                    if fn_ == "bor":
                        vs = [ev(x, fq, two_d) for x in e.args]
                        return None if None in vs else any(vs)
                    if fn_ == "bnot":
                        v = ev(e.args[0], fq, two_d)
                        return None if v is None else (not v)
                    if fn_ == "where":
                        cv = ev(e.args[0], fq, two_d)
                        return None if cv is None else ev(e.args[1] if cv else e.args[2], fq, two_d)
                    if fn_ in ("cmp_Eq", "cmp_NotEq"):
                        l, r_ = ev(e.args[0], fq, two_d), ev(e.args[1], fq, two_d)
                        if l is None or r_ is None:
                            return None
                        return (l == r_) if fn_ == "cmp_Eq" else (l != r_)
                    if s_.endswith(".have_Fq)"):
                        return fq
                    if s_.endswith(".is_2d)"):
                        return two_d
                    if s_ in ("'1d'", "'2d'"):
                        return s_
                    if s_ == "self.dim":
                        return "'2d'" if two_d else "'1d'"
                    return None
                ok = a == 2 and b == 1 and sp.simplify(rest - nqs[0] * whs[0]) == 0 and ev(c, True, False) is True \
                    and ev(c, False, False) is False and ev(c, False, True) is False and ev(c, True, True) in (True, False)
        r.check(ok, f, cls + ".__init__", "result vector: nq * (2 if have_Fq [and 1-D] else 1) + 4", init.lineno, detail)
        # ---- readback (GPU) ------------------------------------------------------------------------------------------
        loops = [s for s in ck.body if isinstance(s, ast.For)]
        if modname != "kerneldll":
            if not loops:
                raise AnalysisError("%s: chunk loop not a top-level statement of _call_kernel" % modname)
            after = ck.body[ck.body.index(loops[0]) + 1:]
            copies = [s for s in after if isinstance(s, ast.Expr) and isinstance(s.value, ast.Call)
                      and (pf.call_name(s.value) or "").split(".")[-1] in ("enqueue_copy", "memcpy_dtoh")]
            okc = False
            if copies:
                a = [pf.unparse(x) for x in copies[0].value.args]
                okc = "self.result" in a and "self._result_b" in a and a.index("self.result") < a.index("self._result_b")
            r.check(okc, f, cls + "._call_kernel", pf.unparse(copies[0])[:80] if copies else "copy device result -> self.result",
                    copies[0].lineno if copies else ck.lineno,
                    "after the last chunk the device buffer is copied into self.result (destination first)" if okc else
                    "the host never sees what the kernels accumulated: self.result keeps its previous contents")
        # ---- kernel selection ----------------------------------------------------------------------------------------
        if modname == "kerneldll":
            kv = [s for s in ck.body if isinstance(s, ast.Assign) and pf.unparse(s.targets[0]) == "kernel"]
            okk = bool(kv) and pf.canon(pf.unparse(kv[0].value)) == pf.canon("self.kernel[1 if magnetic else 0]")
            r.check(okk, f, cls + "._call_kernel", pf.unparse(kv[0])[:70] if kv else "kernel = ...", kv[0].lineno if kv else ck.lineno,
                    "second entry of the kernel pair is the magnetic one")
            mk = pf.lib("kerneldll").func("DllModel.make_kernel")
            rm = pyval.fold_function(mk)
            kv2 = rm.get("kernel")
            okm = False
            if kv2 is not None and _fname(kv2) == "where":
                c, two, one = kv2.args
                okm = str(c) == "cmp_Eq(2, len(q_vectors))" and "slice(1, 3, _)" in str(two) and "_kernels" in str(two) \
                    and "slice" not in str(one) and ", 0)" in str(one) and "_kernels" in str(one)
            r.check(okm, f, "DllModel.make_kernel", "kernel pair: 2-D -> _kernels[1:3], 1-D -> _kernels[0] twice", mk.lineno, str(kv2)[:140])
            ld = pf.lib("kerneldll").func("DllModel._load_dll")
            variants = [pf.unparse(n) for n in ast.walk(ld) if isinstance(n, ast.Tuple) and all(isinstance(e, ast.Constant) and isinstance(e.value, str) for e in n.elts) and len(n.elts) == 3]
            r.check(variants == ["('Iq', 'Iqxy', 'Imagnetic')"], f, "DllModel._load_dll", "kernel table order %s" % variants, ld.lineno,
                    "index 0 = Iq, 1 = Iqxy, 2 = Imagnetic")
            at = [s2 for s2 in ld.body if isinstance(s2, ast.Assign) and pf.unparse(s2.targets[0]) == "argtypes"]
            def elems(e):
                if isinstance(e, ast.List):
                    return [pf.unparse(x) for x in e.elts]
                if isinstance(e, ast.BinOp) and isinstance(e.op, ast.Add):
                    return elems(e.left) + elems(e.right)
                if isinstance(e, ast.BinOp) and isinstance(e.op, ast.Mult) and isinstance(e.right, ast.Constant):
                    return elems(e.left) * e.right.value
                raise AnalysisError("argtypes expression not understood: %s" % pf.unparse(e))
            if not at:
                raise AnalysisError("DllModel._load_dll: argtypes not found")
            el = elems(at[0].value)
            want_t = ["ct.c_int32"] * 3 + ["ct.c_void_p"] * 4 + ["float_type", "ct.c_int32"]
            r.check(el == want_t, f, "DllModel._load_dll", "argtypes = %s" % el, at[0].lineno,
                    "int32 nq, start, stop; four pointers; cutoff in the kernel's floating type; int32 mode")
        else:
            nm = res.get("name")
            def pick(e, facts):
                while _fname(e) == "where":
                    c, a, b = e.args
                    cs = str(c)
                    neg = False
                    if _fname(c) == "bnot":
                        cs, neg = str(c.args[0]), True
                    if cs not in facts:
                        return None
                    t = facts[cs] != neg
                    e = a if t else b
                return str(e)
            oks = nm is not None and \
                pick(nm, {"cmp_Eq('1d', self.dim)": True, "magnetic": True}) == "'Iq'" and \
                pick(nm, {"cmp_Eq('1d', self.dim)": True, "magnetic": False}) == "'Iq'" and \
                pick(nm, {"cmp_Eq('1d', self.dim)": False, "magnetic": True}) == "'Imagnetic'" and \
                pick(nm, {"cmp_Eq('1d', self.dim)": False, "magnetic": False}) == "'Iqxy'"
            r.check(oks, f, cls + "._call_kernel", "name = %s" % str(nm)[:90], ck.lineno,
                    "1-D -> Iq; 2-D -> Imagnetic when magnetic, else Iqxy")
            gf = [c for c in pf.calls_in(ck) if (pf.call_name(c) or "").endswith("get_function")]
            r.check(len(gf) == 1 and pf.unparse(gf[0].args[0]) == "name", f, cls + "._call_kernel", pf.unparse(gf[0]) if gf else "get_function(name)",
                    gf[0].lineno if gf else ck.lineno, "the selected name is the function fetched")
        # ---- q layout ------------------------------------------------------------------------------------------------
        im = pf.lib(imod)
        ii = im.func(icls + ".__init__")
        rq = pyval.fold_function(ii)
        qv = rq.get("self.q")
        input_folds[modname] = {k: str(rq.get(k)) for k in ("self.q", "self.nq", "self.is_2d", "self.global_size")}
        okq = False
        if qv is not None and _fname(qv) == "where":
            c, two, one = qv.args
            stores2 = [t for t in _subterms(two) if _fname(t) == "store"]
            stores1 = [t for t in _subterms(one) if _fname(t) == "store"]
            cols = {}
            for t in stores2:
                idx, val = t.args[1], t.args[2]
                if _fname(idx) == "seq" and len(idx.args) == 2:
                    cols[str(idx.args[1])] = str(val)
            ok2 = "len(q_vectors)" in str(c) and cols == {"0": "idx(q_vectors, 0)", "1": "idx(q_vectors, 1)"}
            ok1 = len(stores1) == 1 and str(stores1[0].args[2]) == "idx(q_vectors, 0)"
            # allocated length: nq itself or k*floor((nq + k-1)/k)
            def alloc_ok(e):
                em = [t for t in _subterms(e) if _fname(t) in ("np_empty", "np_zeros")]
                if not em:
                    return False
                n = em[0].args[0]
                if _fname(n) == "seq":
                    n = n.args[0]
                s = str(n)
                if s == "attr(idx(q_vectors, 0), .size)":
                    return True
                m = re.match(r"^(\d+)\*op_FloorDiv\(attr\(idx\(q_vectors, 0\), \.size\) \+ (\d+), (\d+)\)$", s)
                return bool(m) and int(m.group(1)) == int(m.group(3)) and int(m.group(2)) == int(m.group(1)) - 1
            okq = ok2 and ok1 and alloc_ok(two) and alloc_ok(one)
        r.check(okq, im.relpath, icls + ".__init__", "q buffer: 2-D rows (qx, qy) in [0, nq), 1-D [0, nq); length = nq rounded up", ii.lineno,
                str(qv)[:160])
    a, b = input_folds.get("kernelcl"), input_folds.get("kernelcuda")
    for k in sorted(a or {}):
        r.check(a[k] == b[k], "sasmodels/kernelcuda.py", "GpuInput.__init__", "%s: same fold as the OpenCL input class" % k, 0,
                "sibling agreement" if a[k] == b[k] else "OpenCL: %s ; CUDA: %s" % (a[k][:100], b[k][:100]))
