"""C09 - pure-Python and compiled-C executions of one model definition agree.

Decided: the result layout agrees three ways (C writer, Python _loops, reader
Kernel.Fq); the (shell, form) order of the volume tuple; both paths gate on
weight > cutoff; call arguments are built from iq_parameters /
form_volume_parameters in table order on both paths (every compiled unit's
actual call sites are compared with its table); every definition validation
ends in raise and is reachable from make_model_info / make_source.
Not decided: equality of generated-plugin evaluations.
"""
import ast, re
from ..report import run_check, AnalysisError
from .. import pyfacts as pf
from .. import cfront, effects
from ..ckernel import Kernel, norm, kids
from ..nf import c_text, c_callee

KP = "sasmodels/kernelpy.py"
KI = "sasmodels/kernel_iq.c"
MI = "sasmodels/modelinfo.py"


def analyse_unit(unit, extra):
    out = []
    def inst(rule, ok, fn, construct, line, detail="", file=KI):
        out.append((rule, "ok" if ok else "violation", file, fn, construct, line, detail))
    meta = unit.meta
    types, lengths = meta["types"], meta["lengths"]
    kp = meta["kernel_parameters"]
    iq_pars = [p for p in kp if types[p] not in ("orientation", "magnetic")]
    vol_pars = [p for p in kp if types[p] == "volume"]
    ori_pars = [p for p in kp if types[p] == "orientation"]
    k = Kernel(unit, "Iq")
    # scalar slot order (writer): weight_norm, weighted_form, weighted_shell, weighted_radius at B, B+1, B+2, B+3
    accs = {n: e for n, e, d, z in k.accumulators()}
    B = "2*%s" % k.p_nq if meta.get("have_Fq") else k.p_nq
    want = {"weight_norm": B, "weighted_form": B + "+1", "weighted_shell": B + "+2", "weighted_radius": B + "+3"}
    inst("R-C09-result-layout", accs == want, "%s:Iq" % unit.name, "scalar slots %s" % sorted(accs.items()), k.fn.get("_line", 0),
         "total weight, form volume, shell volume, effective radius at nq_out + 0..3")
    # what feeds the sums
    acc = {l: r_ for l, r_, n, anc in k.accumulations()}
    ok = norm(acc.get("weight_norm", "")) == "weight" and norm(acc.get("weighted_form", "")) == "weight*form" \
        and norm(acc.get("weighted_shell", "")) == "weight*shell"
    inst("R-C09-result-layout", ok, "%s:Iq" % unit.name, "weight_norm += weight; weighted_form += weight*form; weighted_shell += weight*shell",
         k.fn.get("_line", 0))
    # CALL_VOLUME: form from form_volume, shell from shell_volume (or form)
    stores = {}
    for n in cfront.walk(k.body):
        if n.get("kind") == "BinaryOperator" and n.get("opcode") == "=":
            lhs = norm(c_text(kids(n)[0]))
            if lhs in ("form", "shell"):
                stores[lhs] = norm(c_text(kids(n)[1]))
    f, s = stores.get("form", ""), stores.get("shell", "")
    if vol_pars:
        okv = (f.startswith("form_volume(") or f.startswith("shell=form_volume(")) and \
            (s.startswith("shell_volume(") or s.startswith("form_volume(") or f.startswith("shell=form_volume("))
    else:
        okv = f in ("shell=1", "shell=1.0", "1", "1.0")
    inst("R-C09-volume-order", okv, "%s:Iq" % unit.name, "form = %s ; shell = %s" % (f[:50], s[:50]), k.fn.get("_line", 0),
         "form volume from form_volume, shell volume from shell_volume (or the same value for solid shapes)")
    has_shell = "shell_volume" in unit.functions and unit.body(unit.functions["shell_volume"]) is not None
    if vol_pars:
        uses_shell = s.startswith("shell_volume(")
        inst("R-C09-volume-order", uses_shell == has_shell, "%s:Iq" % unit.name,
             "model %s shell_volume; kernel %s it" % ("defines" if has_shell else "does not define", "calls" if uses_shell else "does not call"),
             k.fn.get("_line", 0), "hollow shapes are detected from the source (contains_shell_volume) and normalised by the shell volume")
    # the 2-D function the model defines is the one the 2-D kernel calls
    kx = Kernel(unit, "Iqxy")
    called = {c_callee(c) for c in kx.model_calls(("Iq", "Fq", "Iqac", "Iqabc", "Iqxy"))}
    defined = [fn_ for fn_ in ("Iqabc", "Iqac", "Iqxy") if fn_ in unit.functions and unit.body(unit.functions[fn_]) is not None]
    want = set(defined[:1]) if defined else ({"Fq"} if meta.get("have_Fq") else {"Iq"})
    inst("R-C09-args", called == want, "%s:Iqxy" % unit.name, "2-D kernel calls %s; model defines %s" % (sorted(called), defined or "no 2-D function"),
         kx.fn.get("_line", 0), "find_xy_mode selects the model's own 2-D function")
    # argument marshalling at every model call site, all three kernels
    for variant in ("Iq", "Iqxy", "Imagnetic"):
        try:
            kv = Kernel(unit, variant)
        except AnalysisError:
            continue
        for c in kv.model_calls():
            name = c_callee(c)
            a = [norm(c_text(x)) for x in kids(c)[1:]]
            lead = {"Iq": 1, "Fq": 3, "Iqac": 2, "Iqabc": 3, "Iqxy": 2, "form_volume": 0, "shell_volume": 0, "radius_effective": 1}[name]
            rest = a[lead:]
            base = vol_pars if name in ("form_volume", "shell_volume", "radius_effective") else iq_pars + (ori_pars if name == "Iqxy" else [])
            wantargs = ["local_values.table.%s" % p for p in base]
            inst("R-C09-args", rest == wantargs, "%s:%s" % (unit.name, variant), "%s(%s%s)" % (name, ", ".join(a[:lead]) + (", " if lead else ""), ", ".join(
                x.replace("local_values.table.", ".") for x in rest))[:150], c.get("_line", 0),
                "arguments are the table's %s parameters in table order" % ("volume" if base is vol_pars else "non-orientation")
                if rest == wantargs else "expected %s" % [p for p in base])
            # C signature has the same arity
            fdecl = unit.functions.get(name)
            if fdecl is not None:
                np_ = len(unit.params(fdecl))
                inst("R-C09-args", np_ == len(a), "%s:%s" % (unit.name, name), "%s takes %d parameters, called with %d" % (name, np_, len(a)),
                     fdecl.get("_line", 0), file=unit.where(fdecl)[0])
    # struct member order = kernel parameter order
    for rec in unit.records.values():
        if rec.get("kind") == "RecordDecl":
            names = [fd["name"] for fd in kids(rec) if fd.get("kind") == "FieldDecl"]
            if names == kp:
                inst("R-C09-args", True, "%s:ParameterTable" % unit.name, "struct members in table order (%d)" % len(names), rec.get("_line", 0))
                break
    else:
        inst("R-C09-args", False, "%s:ParameterTable" % unit.name, "struct members in table order", 0, "no struct with members %s" % kp)
    return out


_C = None


def _c_results():
    global _C
    if _C is None:
        _C = cfront.map_units("sa.rules.c09:analyse_unit")
    return _C


def make_c_rule(rule_id, py=None):
    def run(r):
        for unit, rows in sorted(_c_results().items()):
            for row in rows:
                if row[0] == rule_id:
                    _, status, f, fn, construct, line, detail = row
                    getattr(r, status)(f, fn, construct, line, detail)
        if py:
            py(r)
    return run


def py_layout(r):
    mod = pf.lib("kernelpy")
    lp = mod.func("_loops")
    hs = [s for s in pf.walk_stmts(lp) if isinstance(s, ast.Assign) and pf.unparse(s.targets[0]) == "result"]
    ok = bool(hs) and pf.is_text(hs[0].value, "np.hstack((total, weight_norm, weighted_form, weighted_shell, weighted_radius))")
    r.check(ok, KP, "_loops", pf.unparse(hs[0]) if hs else "result = hstack(...)", hs[0].lineno if hs else 0,
            "same slot order as the C kernel: q values, total weight, form, shell, radius")
    from ..pyroles import kernel_fq
    from .. import nf
    k = kernel_fq()
    R = lambda i: nf.sym("R%d" % i)
    ret = k["ret"]
    used = set()
    for e in ret:
        used |= {str(x) for x in e.free_symbols if str(x).startswith("R")}
    r.check({"R0", "R1", "R2", "R3"} <= used | {str(x) for g, pre, st in k["guards"] if pre is not None for x in pre.free_symbols},
            "sasmodels/kernel.py", "Kernel.Fq", "reader consumes slots nq_out + 0..3", k["fn"].lineno,
            "total weight, form volume, shell volume, effective radius (formula in R-C01-norm)")
    # which slot feeds which returned quantity (numerator slot of each return element)
    def numerator_slot(e):
        syms = [str(x) for x in e.free_symbols if str(x).startswith("R")]
        return sorted(syms)
    r.check(numerator_slot(ret[2]) == ["R3"], "sasmodels/kernel.py", "Kernel.Fq", "R_eff read from slot nq_out + 3", k["return"].lineno)
    r.check("R1" in numerator_slot(ret[4]), "sasmodels/kernel.py", "Kernel.Fq", "V_form read from slot nq_out + 1", k["return"].lineno)
    gshell = [pre for g, pre, st in k["guards"] if pre is not None and "R2" in {str(x) for x in pre.free_symbols}]
    r.check(bool(gshell), "sasmodels/kernel.py", "Kernel.Fq", "V_shell read from slot nq_out + 2", k["return"].lineno)
    # python accumulation statements
    t = pf.unparse(lp)
    for frag in ("total += weight * Iq", "weight_norm += weight", "weighted_shell += weight * unweighted_shell",
                 "weighted_form += weight * unweighted_form", "weighted_radius += weight * form_radius()"):
        r.check(frag in t, KP, "_loops", frag, lp.lineno, "python accumulates the same weighted quantities")


def py_volume(r):
    mod = pf.lib("kernelpy")
    init = mod.func("PyKernel.__init__")
    vol = [s for s in pf.walk_stmts(init) if isinstance(s, ast.Assign) and pf.unparse(s.targets[0]) == "self._volume"]
    if not vol:
        raise AnalysisError("PyKernel.__init__: self._volume not found")
    lams = [n for n in ast.walk(vol[0].value) if isinstance(n, ast.Lambda)]
    texts = [pf.unparse(l.body) for l in lams]
    r.check(texts[:1] == ["(shell(*volume_args), volume(*volume_args))"], KP, "PyKernel.__init__", "volume tuple %s" % texts[:1], vol[0].lineno,
            "(shell volume, form volume)")
    r.check(texts[1:2] == ["[volume(*volume_args)] * 2"], KP, "PyKernel.__init__", "solid shapes: %s" % texts[1:2], vol[0].lineno)
    r.check(texts[2:3] == ["(1.0, 1.0)"], KP, "PyKernel.__init__", "no volume: %s" % texts[2:3], vol[0].lineno)
    lp = mod.func("_loops")
    un = [pf.unparse(s.targets[0]) for s in pf.walk_stmts(lp) if isinstance(s, ast.Assign) and isinstance(s.value, ast.Call)
          and pf.call_name(s.value) == "form_volume"]
    r.check(len(un) == 2 and all(u.replace("(", "").replace(")", "").split(", ")[0].endswith("shell") and
                                 u.replace("(", "").replace(")", "").split(", ")[1].endswith("form") for u in un), KP, "_loops",
            "unpack sites %s" % un, lp.lineno, "both unpack (shell, form) in the order the closure returns")
    call = mod.func("PyKernel._call_kernel")
    c = [x for x in pf.calls_in(call) if pf.call_name(x) == "_loops"]
    a = [pf.unparse(x) for x in c[0].args] if c else []
    r.check(a[:4] == ["self._parameter_vector", "self._form", "self._volume", "radius"], KP, "PyKernel._call_kernel",
            "_loops(%s)" % ", ".join(a), call.lineno, "closures in the order (form, volume, radius) of _loops' signature")
    sig = pf.positional_params(lp)
    r.check(sig == ["parameters", "form", "form_volume", "form_radius", "nq", "call_details", "values", "cutoff"], KP, "_loops",
            "signature %s" % sig, lp.lineno)


def rule_gate(r):
    mod = pf.lib("kernelpy")
    lp = mod.func("_loops")
    cfg = pf.cfg(lp)
    gate = [s for s in cfg.stmts() if isinstance(s, ast.If) and pf.unparse(s.test) in ("weight > cutoff",)]
    r.check(bool(gate), KP, "_loops", "if weight > cutoff", gate[0].lineno if gate else lp.lineno, "strict, as in the C kernel")
    if not gate:
        return
    nan = [s for s in gate[0].body if isinstance(s, ast.If) and "isnan" in pf.unparse(s.test) and isinstance(s.body[0], ast.Continue)]
    r.check(bool(nan), KP, "_loops", "if np.isnan(Iq).any(): continue", nan[0].lineno if nan else gate[0].lineno,
            "an invalid point contributes to none of the sums")
    augs = [s for s in pf.walk_stmts(lp) if isinstance(s, ast.AugAssign)
            and pf.unparse(s.target) in ("total", "weight_norm", "weighted_shell", "weighted_form", "weighted_radius")]
    for s in augs:
        inside = any(s is x for x in ast.walk(gate[0]))
        after = (not nan) or s.lineno > nan[0].lineno
        r.check(inside and after, KP, "_loops", pf.unparse(s), s.lineno, "inside the cutoff gate and after the NaN test")
    if len(augs) < 5:
        raise AnalysisError("_loops: only %d accumulations found" % len(augs))
    # the mesh-position bookkeeping runs on every iteration, whatever the gate decides (the C kernel's ++i0 / ++step)
    loops = [s for s in cfg.stmts() if isinstance(s, ast.For) and "num_eval" in pf.unparse(s.iter)]
    if not loops:
        raise AnalysisError("_loops: mesh loop not found")
    L = loops[0]
    steps = [s for s in pf.walk_stmts(ast.Module(body=L.body, type_ignores=[])) if isinstance(s, ast.AugAssign)
             and isinstance(s.op, ast.Add) and pf.const_value(s.value) == 1]
    if not steps:
        raise AnalysisError("_loops: index increment not found")
    for s in steps:
        every = not cfg.reachable_without(L.body[0], L, [s]) if L.body[0] is not s else True
        r.check(every, KP, "_loops", "%s on every iteration" % pf.unparse(s), s.lineno,
                "the position in the innermost distribution advances for skipped points too (below the cutoff or invalid), "
                "as ++i0 does in kernel_iq.c" if every else
                "a path through the loop body (cutoff miss or the NaN `continue`) skips the increment: later mesh points are "
                "evaluated at the wrong distribution value")


def py_args(r):
    mod = pf.lib("kernelpy")
    init = mod.func("PyKernel.__init__")
    t = pf.unparse(init)
    r.check("kernel_parameters = partable.iq_parameters" in t and "volume_parameters = partable.form_volume_parameters" in t, KP,
            "PyKernel.__init__", "argument lists from iq_parameters / form_volume_parameters", init.lineno, "same lists the C macros use")
    loop = [s for s in pf.walk_stmts(init) if isinstance(s, ast.For) and pf.unparse(s.iter) == "partable.kernel_parameters"]
    r.check(bool(loop), KP, "PyKernel.__init__", "views created in one pass over partable.kernel_parameters", loop[0].lineno if loop else 0,
            "table order")
    if loop:
        lt = pf.unparse(loop[0])
        r.check("if p in kernel_parameters: kernel_args.append(v)" in lt and "if p in volume_parameters: volume_args.append(v)" in lt, KP,
                "PyKernel.__init__", "membership filter keeps table order", loop[0].lineno)
        r.check("offset += p.length" in lt and "v = parameter_vector[offset:offset + p.length]" in lt, KP, "PyKernel.__init__",
                "vector parameters occupy p.length consecutive slots", loop[0].lineno)
    r.check("self._form = lambda: form(q, *kernel_args)" in t and "self._form = lambda: form(qx, qy, *kernel_args)" in t, KP,
            "PyKernel.__init__", "form(q | qx, qy, *kernel_args)", init.lineno)
    g = pf.lib("generate")
    ms = g.func("make_source")
    mt = pf.unparse(ms)
    lists = {pf.unparse(c.args[0]) for c in pf.calls_in(ms) if pf.call_name(c) == "_call_pars" and c.args}
    r.check({"base_table.iq_parameters", "base_table.form_volume_parameters"} <= lists,
            "sasmodels/generate.py", "make_source", "C macros from iq_parameters / form_volume_parameters", ms.lineno, "%s" % sorted(lists))
    dx = mod.func("_create_vector_Iqxy")
    r.check("return Iq(np.sqrt(qx ** 2 + qy ** 2), *args)" in pf.unparse(dx), KP, "_create_vector_Iqxy", "default Iqxy = Iq(|q|)", dx.lineno,
            "as CALL_IQ_A does in C")


def rule_codegen(r):
    """Generated C declarations: scalars by value, vector parameters as arrays/pointers; python functions are vectorised
    element by element."""
    mi = pf.lib("modelinfo")
    ad = mi.func("Parameter.as_definition")
    t = pf.unparse(ad)
    r.check("if self.length == 1: return 'double %s;' % self.id else: return 'double %s[%d];' % (self.id, self.length)" in t.replace("\n", " "),
            MI, "Parameter.as_definition", "double id; | double id[length];", ad.lineno, "struct member sized by the vector length")
    af = mi.func("Parameter.as_function_argument")
    t = pf.unparse(af)
    r.check("if self.length == 1: return 'double %s' % self.id else: return 'double *%s' % self.id" in t, MI, "Parameter.as_function_argument",
            "double id | double *id", af.lineno)
    g = pf.lib("generate")
    gf = g.func("_gen_fn")
    t = pf.unparse(gf)
    r.check("par_decl = ', '.join((p.as_function_argument() for p in pars)) if pars else 'void'" in t and "body = getattr(model_info, name)" in t,
            "sasmodels/generate.py", "_gen_fn", "declaration from the given parameter list in order; body from the model attribute", gf.lineno)
    ms = g.func("make_source")
    t = pf.unparse(ms)
    for fn_, pars in (("form_volume", "call_table.form_volume_parameters"), ("shell_volume", "call_table.form_volume_parameters"),
                      ("Iq", "[q] + call_table.iq_parameters"), ("Iqxy", "[qx, qy] + call_table.iq_parameters + call_table.orientation_parameters"),
                      ("Iqac", "[qab, qc] + call_table.iq_parameters"), ("Iqabc", "[qa, qb, qc] + call_table.iq_parameters")):
        blk = "if isinstance(model_info.%s, str): pars = %s source.append(_gen_fn(model_info, '%s', pars))" % (fn_, pars, fn_)
        r.check(blk in t, "sasmodels/generate.py", "make_source", "inline %s(...) declared with %s" % (fn_, pars), ms.lineno,
                "same lists, same order as the CALL_* macros")
    kp = pf.lib("kernelpy")
    vi = kp.func("_create_vector_Iq")
    r.check("return np.array([Iq(qi, *args) for qi in q])" in pf.unparse(vi), KP, "_create_vector_Iq", "vector_Iq = [Iq(qi, *args) for qi in q]", vi.lineno)
    vx = kp.func("_create_vector_Iqxy")
    r.check("return np.array([Iqxy(qxi, qyi, *args) for (qxi, qyi) in zip(qx, qy)])".replace("(qxi, qyi) in", "qxi, qyi in") in
            pf.unparse(vx).replace("(qxi, qyi) in", "qxi, qyi in"), KP, "_create_vector_Iqxy", "vector_Iqxy pairs qx[i] with qy[i]", vx.lineno)
    cd = kp.func("_create_default_functions")
    order = [pf.call_name(c) for c in pf.calls_in(cd)]
    r.check(order == ["_create_vector_Iq", "_create_vector_Iqxy"], KP, "_create_default_functions", "Iq vectorised before Iqxy is defaulted from it", cd.lineno)
    init = kp.func("PyKernel.__init__")
    t = pf.unparse(init)
    r.check("(qx, qy) = (q_input.q[:, 0], q_input.q[:, 1])" in t or "qx, qy = (q_input.q[:, 0], q_input.q[:, 1])" in t, KP, "PyKernel.__init__",
            "qx, qy = q[:, 0], q[:, 1]", init.lineno)
    r.check("lambda mode: cbrt(0.75 / pi * volume(*volume_args))" in t, KP, "PyKernel.__init__", "default R_eff = cbrt(3V/4pi)", init.lineno,
            "equivalent volume sphere when the definition gives no radius_effective")


VALIDATIONS = [
    # (module, function, [acceptable test texts], what)
    ("modelinfo", "parse_parameter", ["low >= high", "not low < high", "high <= low"], "lower limit must be below upper limit"),
    ("modelinfo", "parse_parameter", ["default < limits[0] or default > limits[1]", "not limits[0] <= default <= limits[1]"],
     "default inside limits"),
    ("modelinfo", "parse_parameter", ["ptype not in ('volume', 'orientation', 'sld', 'magnetic', '')"], "known parameter type"),
    ("modelinfo", "parse_parameter", ["not isinstance(user_limits, (tuple, list))"], "limits are a pair"),
    ("modelinfo", "parse_parameter", ["not isinstance(default, (int, float))"], "numeric default"),
    ("modelinfo", "make_parameter_table", ["not isinstance(p, (list, tuple)) or len(p) != 6"], "six fields per parameter"),
    ("modelinfo", "ParameterTable.check_duplicates", ["dups"], "duplicate parameter names"),
    ("modelinfo", "ParameterTable.check_angles", ["phi != theta + 1"], "phi follows theta"),
    ("modelinfo", "ParameterTable.check_angles", ["psi >= 0 and psi != phi + 1"], "psi follows phi"),
    ("modelinfo", "ParameterTable.check_angles", ["theta >= 0 or phi >= 0 or psi >= 0"], "theta and phi come together"),
    ("modelinfo", "ParameterTable.check_angles", ["strict and p.type == 'orientation'"], "only theta, phi, psi are orientation parameters"),
    ("modelinfo", "ParameterTable.check_angles", ["strict and phi != last_par and (psi != last_par)"], "orientation parameters last"),
    ("modelinfo", "ParameterTable._set_vector_lengths", ["int(low) != low or int(high) != high or low < 0 or (high > 20)"],
     "control parameter limits"),
    ("generate", "make_source", ["xy_mode == 'qabc' and (not base_table.is_asymmetric)"], "Iqabc needs psi"),
    ("generate", "make_source", ["xy_mode == 'qac' and base_table.is_asymmetric"], "Iqac must not have psi"),
    ("generate", "make_source", ["not base_table.orientation_parameters and xy_mode in ('qac', 'qabc')"], "oriented function without orientation parameters"),
    ("generate", "make_source", ["callable(model_info.Iq)"], "python model cannot be compiled"),
]


def rule_validate(r):
    ix = effects.index()
    for modname, qual, tests, what in VALIDATIONS:
        mod = pf.lib(modname)
        fn = mod.func(qual)
        f = "sasmodels/%s.py" % modname
        found = None
        for st in ast.walk(fn):
            if isinstance(st, ast.If) and any(pf.unparse(st.test) == pf.canon(t) for t in tests):
                found = st
                break
        if found is None:
            r.violation(f, qual, "if %s: raise" % tests[0], fn.lineno, "validation missing: %s" % what)
            continue
        r.check(pf.ends_in_raise(found.body), f, qual, "if %s: raise" % pf.unparse(found.test), found.lineno,
                "%s: the definition is rejected" % what if pf.ends_in_raise(found.body) else
                "%s: the test no longer ends in raise, the ill-formed definition is accepted" % what)
    # type tests on the three angles
    ca = pf.lib("modelinfo").func("ParameterTable.check_angles")
    n = sum(1 for st in ast.walk(ca) if isinstance(st, ast.If) and pf.unparse(st.test) == "p.type != 'orientation'" and pf.ends_in_raise(st.body))
    r.check(n == 3, MI, "ParameterTable.check_angles", "theta/phi/psi must be orientation parameters (%d tests)" % n, ca.lineno)
    # orientation without Iqac/Iqabc
    ms = pf.lib("generate").func("make_source")
    last = [st for st in ast.walk(ms) if isinstance(st, ast.If) and pf.unparse(st.test) == "base_table.orientation_parameters and xy_mode not in ('qac', 'qabc')"]
    ok = bool(last) and any(isinstance(n, ast.Raise) for n in ast.walk(last[0]))
    r.check(ok, "sasmodels/generate.py", "make_source", "oriented shape without Iqac/Iqabc raises (Iqxy: warning)", last[0].lineno if last else 0)
    # reachability from make_model_info
    reach = set()
    work = [("modelinfo", "make_model_info")]
    while work:
        m, q = work.pop()
        if (m, q) in reach:
            continue
        reach.add((m, q))
        fn = ix.find(m, q)
        if fn is None:
            continue
        cls = q.rsplit(".", 1)[0] if "." in q and q.rsplit(".", 1)[0] in ix.mods[m].classes else None
        for c in pf.calls_in(fn):
            for cm, cq, _ in ix.resolve(c, m, cls):
                work.append((cm, cq))
    for q in ("make_parameter_table", "parse_parameter", "ParameterTable.__init__", "ParameterTable.check_duplicates",
              "ParameterTable.check_angles", "ParameterTable._set_vector_lengths"):
        r.check(("modelinfo", q) in reach, MI, q, "reachable from make_model_info", 0,
                "the validation runs when a definition is loaded")
    pt = pf.lib("modelinfo").func("make_parameter_table")
    r.check("partable.check_angles(strict=True)" in pf.unparse(pt), MI, "make_parameter_table", "check_angles(strict=True) on model tables", pt.lineno)


def rule_driver(r):
    """The compiled path walks the same mesh as the Python loop `for loop_index in range(num_eval)`: the driver's
    chunks tile [0, num_eval) exactly (shared with C01 R-C01-chunk)."""
    from .c01 import rule_chunk
    rule_chunk(r)
    lp = pf.lib("kernelpy").func("_loops")
    loops = [s_ for s_ in pf.walk_stmts(lp) if isinstance(s_, ast.For) and pf.unparse(s_.iter) == "range(call_details.num_eval)"]
    r.check(bool(loops), KP, "_loops", "for loop_index in range(call_details.num_eval)", loops[0].lineno if loops else lp.lineno,
            "python visits every mesh point exactly once")


from . import extra3 as _x3
RULES = [
    ("R-C09-driver", 13, "both paths visit every mesh point exactly once", rule_driver),
    ("R-C09-result-layout", 125, "result layout three ways", make_c_rule("R-C09-result-layout", py_layout)),
    ("R-C09-volume-order", 65, "volume tuple order", make_c_rule("R-C09-volume-order", py_volume)),
    ("R-C09-gate", 8, "python gate = C gate", rule_gate),
    ("R-C09-args", 700, "call arguments in table order at every call site of every unit", make_c_rule("R-C09-args", py_args)),
    ("R-C09-codegen", 14, "declaration generators and python vectorisation", rule_codegen),
    ("R-C09-validate", 26, "validation raise discipline and reachability", rule_validate),
    ("R-C09-scan", 4, "source scans in make_source see all model code", _x3.rule_c09_scan),
]


from . import shared
RULES = RULES + shared.bundle('C09', ['pymodel', 'drivers', 'gpu', 'carry', 'gate', 'restart', 'values', 'stride', 'norm', 'loops'], ['kernelpy', 'kernel', 'details'])
from .. import refs as _refs
RULES = RULES + [_refs.ref_rule('C09')]


def run(tier="quick", replay=None):
    return run_check(
        "C09", RULES, tier=tier, replay=replay,
        explanation="Cross-checking sibling implementations: slot order of the four sums in the C writer (all units), the "
                    "Python _loops hstack and the reader Kernel.Fq; tuple order of the volume closure and both unpack sites; "
                    "gates; actual call arguments of every model call in every generated unit against the model's parameter "
                    "table (order and arity), against PyKernel's view construction; enumerated definition validations must "
                    "end in raise and be reachable from make_model_info.",
        assumptions=["the C functions a model defines use their parameters in signature order (C13 R-C13-order checks names)"])
