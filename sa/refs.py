"""Reference folds through time.

For the functions listed in CURATED (the evaluation path of each property: the plumbing between a request and the
kernels, the weight/resolution/transform formulas, the cache and precision dispatch, the legacy conversion), the text of
the function on the tree the rules were confirmed on is kept in sa/refbodies.json (written by tools/mkrefshape.py).
`ref_rule(prop)` folds the current function and the reference with E-val (sa/pyval.py) and compares the returned value,
every externally visible effect (attributes of self, stores through parameters) and the set of refusals.  A function that
is syntactically the reference up to the names of its locals is accepted without folding.  Helpers that did not exist on
the reference tree are folded into their call sites, so extracting a helper is not a difference.

This is the "instances confirmed on today's tree are the reference for any later change" cross-check: it flags a
*semantic* difference of a function on the property's evaluation path, naming the function and the value that differs;
renames, temporaries, statement splitting, reordering of independent statements, comments, logging, asserts and
docstrings are not differences.
"""
import ast
import json
import os
import textwrap
from .report import AnalysisError
from . import pyfacts as pf
from . import pyval
from . import alpha

MODULE_BODY = "<module>"
CURATED = {
    "weights": { "load_weights": ("C02",), "Dispersion.get_pars": ("C02", "C10", "C11",),
        MODULE_BODY: ("C02",),
        "Dispersion.__init__": ("C02", "C10"), "Dispersion.set_weights": ("C02", "C10"),
        "Dispersion.get_weights": ("C01", "C02", "C05", "C06", "C07", "C10", "C13", "C14",), "Dispersion._linspace": ("C01", "C02"),
        "GaussianDispersion._weights": ("C01", "C02",), "UniformDispersion._weights": ("C01", "C02",), "RectangleDispersion._weights": ("C01", "C02",),
        "LogNormalDispersion._weights": ("C01", "C02",), "SchulzDispersion._weights": ("C01", "C02",), "BoltzmannDispersion._weights": ("C01", "C02",),
        "ArrayDispersion.__init__": ("C02",), "ArrayDispersion.set_weights": ("C02", "C10"), "ArrayDispersion._weights": ("C01", "C02", "C10"),
        "get_weights": ("C01", "C02", "C05", "C07", "C10", "C13", "C14",),
    },
    "resolution": {
        MODULE_BODY: ("C03", "C04"),
        "Perfect1D.__init__": ("C03",), "Perfect1D.apply": ("C03",), "Pinhole1D.__init__": ("C03", "C04"), "Pinhole1D.apply": ("C03", "C04"),
        "Slit1D.__init__": ("C03", "C04"), "Slit1D.apply": ("C03", "C04"), "apply_resolution_matrix": ("C03", "C04"),
        "pinhole_resolution": ("C03", "C04"), "slit_resolution": ("C03", "C04"), "_q_perp_weights": ("C03", "C04"),
        "pinhole_extend_q": ("C03", "C04"), "slit_extend_q": ("C03", "C04"), "bin_edges": ("C03", "C04"),
        "linear_extrapolation": ("C03", "C04"), "geometric_extrapolation": ("C03", "C04"),
    },
    "resolution2d": {
        MODULE_BODY: ("C03", "C04"),
        "Pinhole2D.__init__": ("C03", "C04"), "Pinhole2D._init_data": ("C03", "C04", "C11"), "Pinhole2D._calc_res": ("C03", "C04"),
        "Pinhole2D.apply": ("C03", "C04"), "Slit2D.__init__": ("C03",), "Slit2D.apply": ("C03",),
    },
    "sesans": {MODULE_BODY: ("C19",), "SesansTransform.__init__": ("C19",), "SesansTransform.apply": ("C19",), "SesansTransform._set_hankel": ("C19",)},
    "kernel": { "KernelModel.make_kernel": ("C11",), "Kernel.release": ("C11",),"Kernel.Iq": ("C01", "C05", "C06", "C07", "C08", "C09", "C11", "C16",), "Kernel.Fq": ("C01", "C05", "C06", "C07", "C08", "C09", "C11", "C14", "C16",)},
    "product": { "_tag_parameter": ("C07",), "ProductKernel.release": ("C11",), "ProductModel.release": ("C11",),
        MODULE_BODY: ("C07",),
        "make_extra_pars": ("C07",), "make_product_info": ("C07", "C11",), "_intermediates": ("C07",), "ProductModel.__init__": ("C07",),
        "ProductModel.make_kernel": ("C07",), "ProductKernel.__init__": ("C06", "C07", "C08"), "ProductKernel.Iq": ("C07", "C08", "C11",),
    },
    "mixture": { "_MixtureParts.__iter__": ("C08",), "MixtureKernel.release": ("C11",), "MixtureModel.release": ("C11",),
        MODULE_BODY: ("C08",),
        "make_mixture_info": ("C08",), "MixtureModel.__init__": ("C08",), "MixtureModel.make_kernel": ("C08",), "_intermediates": ("C08",),
        "MixtureKernel.__init__": ("C08",), "MixtureKernel.Iq": ("C06", "C08", "C11", "C19",), "_MixtureParts.__init__": ("C06", "C08", "C19",), "_MixtureParts.__next__": ("C06", "C08", "C19",),
        "_MixtureParts._part_details": ("C06", "C08", "C19",), "_MixtureParts._part_values": ("C06", "C08", "C19",),
    },
    "direct_model": { "DataMixin._set_data": ("C10",), "DirectModel.simulate_data": ("C10",),
        MODULE_BODY: ("C10",),
        "call_kernel": ("C01", "C05", "C06", "C07", "C08", "C09", "C10", "C14", "C16",), "call_Fq": ("C07", "C09", "C11", "C14", "C16",), "get_mesh": ("C01", "C02", "C05", "C06", "C07", "C08", "C09", "C10", "C11", "C14", "C16",), "_pop_par_weights": ("C01", "C02", "C05", "C06", "C07", "C08", "C09", "C10", "C11", "C14", "C16",),
        "_make_sesans_transform": ("C19",), "DataMixin._interpret_data": ("C03", "C04", "C10", "C11", "C19",), "DataMixin._calc_theory": ("C03", "C05", "C06", "C07", "C10", "C11", "C19",),
        "DirectModel.__init__": ("C10", "C19",), "DirectModel.__call__": ("C01", "C10", "C19",), "_direct_calculate": ("C10", "C19",), "Iq": ("C03", "C04", "C10",), "Iqxy": ("C03", "C04", "C10",),
        "Gxi": ("C10", "C19"),
    },
    "details": { "CallDetails.pd_par": ("C01",), "CallDetails.pd_length": ("C01",), "CallDetails.pd_offset": ("C01",), "CallDetails.pd_stride": ("C01",), "CallDetails.num_eval": ("C01",), "CallDetails.num_weights": ("C01",), "CallDetails.num_active": ("C01",), "CallDetails.theta_par": ("C01", "C05",),
        MODULE_BODY: ("C01",),
        "CallDetails.__init__": ("C01", "C05", "C06", "C07", "C08", "C09", "C14",), "make_details": ("C01", "C05", "C06", "C07", "C08", "C09", "C10", "C11", "C14", "C19",), "make_kernel_args": ("C01", "C05", "C06", "C07", "C08", "C09", "C10", "C11", "C14", "C16",),
        "correct_theta_weights": ("C01", "C05",), "convert_magnetism": ("C06", "C08", "C13", "C15",), "dispersion_mesh": ("C01", "C10"),
    },
    "kerneldll": { "DllKernel.release": ("C11",), "DllModel.release": ("C11", "C18",), "DllModel.__getstate__": ("C11", "C18"), "DllModel.__setstate__": ("C11", "C18"),
        MODULE_BODY: ("C17", "C18"),
        # make_dll and compile_model are judged by the structural rules of C15/C17/C18 only: temporary-file naming, compiler
        # flags and directory handling may change without touching any property
        "dll_name": ("C15", "C17", "C18",), "dll_path": ("C17", "C18",), "load_dll": ("C15", "C17", "C18"),
        "DllModel.__init__": ("C15", "C18"), "DllModel._load_dll": ("C15", "C17", "C18",), "DllModel.make_kernel": ("C01", "C11", "C15",),
        "DllKernel.__init__": ("C01", "C11"),
    },
    "kernelpy": { "PyModel.__init__": ("C09",), "PyKernel.release": ("C11",), "PyInput.release": ("C11",), "PyModel.release": ("C11",),
        MODULE_BODY: ("C09",),
        "PyModel.make_kernel": ("C09",), "PyInput.__init__": ("C01", "C03", "C04", "C09", "C10", "C11", "C15", "C19"), "PyKernel.__init__": ("C01", "C05", "C07", "C09", "C11",), "PyKernel._call_kernel": ("C01", "C06", "C07", "C09", "C11", "C14",),
        "_loops": ("C01", "C07", "C09", "C11", "C14",), "_create_default_functions": ("C09", "C11",), "_create_vector_Iq": ("C09", "C10", "C11", "C19",), "_create_vector_Iqxy": ("C05", "C09", "C10", "C11", "C19",),
    },
    "sasview_model": { "SasviewModel.getParamList": ("C10",), "SasviewModel.getDispParamList": ("C10",), "SasviewModel.is_fittable": ("C10",), "SasviewModel.calculate_ER": ("C10", "C14",), "SasviewModel.calculate_VR": ("C10", "C14",), "SasviewModel._dispersion_mesh": ("C10",), "SasviewModel.calc_composition_models": ("C10",), "MultiplicationModel": ("C07", "C10",), "SasviewModel.__get_state__": ("C11",), "SasviewModel.__set_state__": ("C11",), "find_model": ("C10",), "load_standard_models": ("C10",), "reset_environment": ("C11", "C17",),
        MODULE_BODY: ("C10", "C11"),
        "SasviewModel.__init__": ("C10",), "_generate_model_attributes": ("C10",), "make_model_from_info": ("C10",),
        "load_custom_model": ("C17",), "_make_standard_model": ("C10",),
        "SasviewModel.setParam": ("C10",), "SasviewModel.getParam": ("C10",), "SasviewModel.clone": ("C02", "C10", "C11",), "SasviewModel.run": ("C10",),
        "SasviewModel.runXY": ("C10",), "SasviewModel.evalDistribution": ("C10",), "SasviewModel.calculate_Iq": ("C10", "C11",),
        "SasviewModel._calculate_Iq": ("C10", "C11"), "SasviewModel.set_dispersion": ("C10",), "SasviewModel._get_weights": ("C02", "C05", "C10",),
    },
    "bumps_model": { "Experiment.residuals": ("C10",), "Experiment.nllf": ("C10",), "Experiment.numpoints": ("C10",), "Experiment.simulate_data": ("C10",), "Model.parameters": ("C10",), "Model.state": ("C10",), "Experiment.resolution": ("C10",),
        "create_parameters": ("C10",), "Model.__init__": ("C10",), "Experiment.__init__": ("C10",), "Experiment.update": ("C10",),
        "Experiment.theory": ("C10",), "Experiment.parameters": ("C10",),
    },
    "core": { "merge_deps": ("C16",), "precompile_dlls": ("C17",),"build_model": ("C15", "C17"), "parse_dtype": ("C15", "C17"), "reparameterize": ("C16",), "load_model": ("C17",), "load_model_info": ("C17",)},
    "generate": { "_kernels": ("C01", "C09", "C17",), "_search": ("C17",), "load_kernel_module": ("C17",), "read_text": ("C17",), "get_data_path": ("C17",), "_clean_source_filename": ("C17",),
        MODULE_BODY: ("C15", "C17"),
        "tag_source": ("C17", "C18"), "set_integration_size": ("C17", "C18"), "convert_type": ("C15",), "_convert_type": ("C15",), "_fix_tgmath_int": ("C15",), "_tag_float": ("C15",),
        "_split_translation": ("C16",), "_build_translation": ("C06", "C16",), "_build_translation_vars": ("C06", "C16",), "_build_validity_check": ("C16",),
        "find_xy_mode": ("C09",), "contains_Fq": ("C09", "C14"), "contains_shell_volume": ("C09",), "_gen_fn": ("C09",), "_call_pars": ("C09", "C16"),
        "make_source": ("C09", "C16", "C17"), "load_template": ("C17",), "model_sources": ("C17",), "_add_source": ("C17",), "kernel_name": ("C17", "C18",),
    },
    "modelinfo": { "Parameter.__init__": ("C09", "C20",), "Parameter.as_definition": ("C09", "C16",), "Parameter.as_function_argument": ("C09", "C16",), "ParameterTable._get_ref": ("C01", "C09",), "ParameterTable.user_parameters": ("C10",), "ParameterTable.set_zero_background": ("C07", "C08",), "expand_pars": ("C09", "C10",), "prefix_parameter": ("C08",), "suffix_parameter": ("C07", "C08",), "ModelInfo.get_hidden_parameters": ("C10",), "ParameterTable.__getitem__": ("C09",), "ParameterTable.__contains__": ("C09",),
        "make_parameter_table": ("C09", "C16", "C20",), "parse_parameter": ("C09", "C16", "C20",), "ParameterTable.__init__": ("C01", "C02", "C05", "C06", "C07", "C08", "C09", "C10", "C16", "C20",), "ParameterTable.check_angles": ("C05", "C09",),
        "ParameterTable.check_duplicates": ("C09",), "ParameterTable._set_vector_lengths": ("C01", "C07", "C08", "C09", "C20",), "ParameterTable._get_call_parameters": ("C01", "C06", "C07", "C08", "C09", "C16", "C20",),
        "ParameterTable._get_defaults": ("C06", "C07", "C08", "C09", "C10",), "make_model_info": ("C09", "C15", "C16", "C17", "C20",), "derive_table": ("C16",), "_insert_after": ("C16",), "_simple_insert": ("C16",),
    },
    "convert": {
        MODULE_BODY: ("C20",),
        "_rescale": ("C20",), "_is_sld": ("C20",), "_rescale_sld": ("C20",), "_get_translation_table": ("C20",), "_dot_pd_to_underscore_pd": ("C20",),
        "_pd_to_underscores": ("C20",), "_convert_pars": ("C20",), "_conversion_target": ("C20",), "_hand_convert": ("C20",), "_rename_magnetic": ("C20",),
        "_rename_magnetic_pars": ("C20",), "_rename_magnetic_angles": ("C20",), "_hand_convert_3_1_2_to_4_1": ("C20",), "convert_model": ("C20",),
    },
    "data": { "_as_numpy": ("C10",),
        "Data1D.__init__": ("C03", "C10"), "Data2D.__init__": ("C03", "C04", "C10",), "SesansData.__init__": ("C10", "C19"),
        "empty_data1D": ("C10",), "empty_data2D": ("C03", "C04", "C10",), "empty_sesans": ("C10", "C19"), "set_beam_stop": ("C10",), "set_half": ("C10",),
        "set_top": ("C10",),
    },
    "custom/__init__": { "_find_sources": ("C17",),MODULE_BODY: ("C17",), "load_custom_kernel_module": ("C17",), "load_module_from_path": ("C17",), "need_reload": ("C17",)},
}

_BODIES = None


def _bodies():
    global _BODIES
    if _BODIES is None:
        p = os.path.join(os.path.dirname(os.path.abspath(__file__)), "refbodies.json")
        try:
            with open(p) as fd:
                _BODIES = json.load(fd)
        except (OSError, ValueError):
            raise AnalysisError("sa/refbodies.json missing: run tools/mkrefshape.py")
    return _BODIES


def module_body_fn(tree):
    """The module's own statements (not definitions, imports, docstring or the __main__ guard) as a synthetic function."""
    body = []
    for st in tree.body:
        if isinstance(st, (ast.FunctionDef, ast.AsyncFunctionDef, ast.ClassDef, ast.Import, ast.ImportFrom)):
            continue
        if isinstance(st, ast.Expr) and isinstance(st.value, ast.Constant):
            continue
        if isinstance(st, ast.If) and "__name__" in ast.unparse(st.test):
            continue
        body.append(st)
    fn = ast.FunctionDef(name="_module_body_", args=ast.arguments(posonlyargs=[], args=[], kwonlyargs=[], kw_defaults=[], defaults=[]),
                         body=body or [ast.Pass()], decorator_list=[], lineno=1, col_offset=0)
    ast.fix_missing_locations(fn)
    return fn


def build_bodies(repo):
    """Reference text of every outermost function / method of the library (sasmodels/*.py, custom/__init__.py)."""
    out = {}
    rels = sorted("sasmodels/" + f for f in os.listdir(os.path.join(repo, "sasmodels")) if f.endswith(".py"))
    rels.append("sasmodels/custom/__init__.py")
    for rel in rels:
        path = os.path.join(repo, rel)
        text = open(path).read()
        tree = ast.parse(text)
        funcs = {}

        def walk(node, prefix):
            for child in ast.iter_child_nodes(node):
                if isinstance(child, (ast.FunctionDef, ast.AsyncFunctionDef)):
                    funcs.setdefault(prefix + child.name, child)
                elif isinstance(child, ast.ClassDef):
                    walk(child, prefix + child.name + ".")
                elif isinstance(child, (ast.If, ast.Try, ast.With, ast.For, ast.While)):
                    walk(child, prefix)
        walk(tree, "")
        entry = {"functions": sorted(funcs), "bodies": {}}
        entry["globals"], entry["classattrs"], entry["bases"] = module_constants(tree)
        for qual, fn in funcs.items():
            fn.decorator_list = []
            entry["bodies"][qual] = ast.unparse(fn)
        entry["bodies"][MODULE_BODY] = ast.unparse(module_body_fn(tree))
        out[rel] = entry
    for modname, table in CURATED.items():
        rel = "sasmodels/%s.py" % modname
        for qual in table:
            if qual not in out.get(rel, {}).get("bodies", {}):
                raise SystemExit("curated function missing on the reference tree: %s:%s" % (rel, qual))
    return out


def module_constants(tree):
    """(module-level NAME -> value text, 'Class.attr' -> value text, Class -> [base names])"""
    glob, cattr, bases = {}, {}, {}

    def targets(st):
        if isinstance(st, ast.Assign):
            return [t for t in st.targets if isinstance(t, ast.Name)], st.value
        if isinstance(st, ast.AnnAssign) and st.value is not None and isinstance(st.target, ast.Name):
            return [st.target], st.value
        return [], None

    def walk(block, cls):
        for st in block:
            tg, val = targets(st)
            for t in tg:
                if cls is None:
                    glob[t.id] = ast.unparse(val)
                else:
                    cattr["%s.%s" % (cls, t.id)] = ast.unparse(val)
            if isinstance(st, ast.ClassDef) and cls is None:
                bases[st.name] = [ast.unparse(b) for b in st.bases]
                walk(st.body, st.name)
            elif isinstance(st, (ast.If, ast.Try, ast.With)):
                for field in ("body", "orelse", "finalbody"):
                    walk(getattr(st, field, []) or [], cls)
                for h in getattr(st, "handlers", []) or []:
                    walk(h.body, cls)
    walk(tree.body, None)
    return glob, cattr, bases


def constant_differences(mod, qual, fn, entry):
    """Module constants and class attributes read by `fn` whose value differs from the reference."""
    cur_g, cur_c, cur_b = module_constants(mod.tree)
    ref_g, ref_c = entry.get("globals", {}), entry.get("classattrs", {})
    pv = pyval.PyVal(exact=True)

    def val(text):
        try:
            return pv.value(ast.parse(text, mode="eval").body, {})
        except Exception:
            return pyval.sym(text)
    out = []
    loaded = {n.id for n in ast.walk(fn) if isinstance(n, ast.Name) and isinstance(n.ctx, ast.Load)}
    local = alpha._bound(fn)
    for name in sorted((loaded - local) & (set(ref_g) | set(cur_g))):
        a, b = cur_g.get(name), ref_g.get(name)
        if a is None or b is None:
            if a != b:
                out.append(("module constant %s" % name, a, b))
            continue
        if a != b and not pyval.same(val(a), val(b)):
            out.append(("module constant %s" % name, a, b))
    if "." in qual:
        cls = qual.split(".")[0]
        attrs = {n.attr for n in ast.walk(fn) if isinstance(n, ast.Attribute) and isinstance(n.value, ast.Name) and n.value.id in ("self", "cls", cls)}
        # the class, its bases and its subclasses in this module
        family = {cls}
        changed = True
        while changed:
            changed = False
            for c, bs in list(cur_b.items()) + list(entry.get("bases", {}).items()):
                if c not in family and any(b in family for b in bs):
                    family.add(c)
                    changed = True
        for b in cur_b.get(cls, []) + entry.get("bases", {}).get(cls, []):
            family.add(b)
        for key in sorted(set(ref_c) | set(cur_c)):
            c, attr = key.split(".", 1)
            if c in family and attr in attrs:
                a, b = cur_c.get(key), ref_c.get(key)
                if a != b and (a is None or b is None or not pyval.same(val(a), val(b))):
                    out.append(("class attribute %s" % key, a, b))
    return out


def reference_function(rel, qual):
    entry = _bodies().get(rel)
    if entry is None or qual not in entry["bodies"]:
        return None, None
    return ast.parse(entry["bodies"][qual]).body[0], set(entry["functions"])


def differences(fn, ref_fn, inline=None):
    """List of (what, found, reference) where the folds of `fn` and `ref_fn` differ: returned value, visible final values,
    objects written through parameters, refusals (both ways), ordered effectful calls and pure calls with their conditions."""
    diffs = []
    sa, sb = _signature(fn), _signature(ref_fn)
    bind = None
    if sa != sb:
        # a signature that only gained parameters with defaults is judged at those defaults
        bind = _added_defaults(fn, ref_fn)
        if bind is None:
            diffs.append(("signature (parameter names, kinds or default values)", sa, sb))
    cur = pyval.fold_function(fn, inline=inline, exact=True, bind=bind)
    ref = pyval.fold_function(ref_fn, exact=True)
    if not pyval.same(cur.ret, ref.ret):
        diffs.append(("returned value", cur.ret, ref.ret))
    for k in sorted(_visible_keys(cur, fn) | _visible_keys(ref, ref_fn)):
        a, b = cur.env.get(k), ref.env.get(k)
        if not pyval.same(a, b):
            diffs.append(("final value of %s" % k, a, b))
    for p in sorted(_stored_params(cur, fn) | _stored_params(ref, ref_fn)):
        a, b = cur.env.get(p), ref.env.get(p)
        if not pyval.same(a, b):
            diffs.append(("object passed as %s after the call" % p, a, b))
    ga, gb = {str(g) for g in cur.guards}, {str(g) for g in ref.guards}
    for g in sorted(gb - ga):
        diffs.append(("refusal (missing)", None, g))
    for g in sorted(ga - gb):
        diffs.append(("refusal (added)", g, None))
    oa, pa = pyval.effect_trace(cur)
    ob, pb = pyval.effect_trace(ref)
    ka, kb = [k for k, _ in oa], [k for k, _ in ob]
    for x in kb:
        if x not in ka:
            diffs.append(("call (missing or under another condition)", None, x))
    for x in ka:
        if x not in kb:
            diffs.append(("call (added or under another condition)", x, None))
    # relative order matters only between calls that can happen in one execution
    posb = {k: i for i, k in enumerate(kb)}
    pcs = dict(oa)
    bad_order = None
    for i, x in enumerate(ka):
        if x not in posb:
            continue
        for y in ka[i + 1:]:
            if y in posb and posb[y] < posb[x] and not pyval.exclusive(pcs[x], pcs[y]):
                bad_order = (x, y)
                break
        if bad_order:
            break
    if bad_order:
        diffs.append(("order of calls", "%s BEFORE %s" % bad_order, "%s BEFORE %s" % (bad_order[1], bad_order[0])))
    # calls without side effects (numpy / math / builtins / read-only methods) are not compared: their results reach the
    # compared values when they are used, and an unused one is dead code
    # object sharing: one freshly computed array bound to several names that each leave the function (constructor argument,
    # attribute, return) makes an in-place update of one visible through the other; values cannot show it
    ga, gb = _shared_groups(fn), _shared_groups(ref_fn)
    if len(ga) > len(gb):
        known = {g[1] for g in gb}
        for names, text in ga:
            if text not in known:
                diffs.append(("object sharing (one computed array bound to several escaping names)", "%s = %s" % (" = ".join(names), text), None))
    return diffs


def _shared_groups(fn):
    """[(names, value text)] for chained assignments of a computed (call-containing, non-constant) value to two or more
    names, each of which is later passed to a call, stored in an attribute / container or returned."""
    out = []
    for st in ast.walk(fn):
        if not (isinstance(st, ast.Assign) and len(st.targets) >= 2 and all(isinstance(t, ast.Name) for t in st.targets)):
            continue
        v = st.value
        fresh = any(isinstance(x, (ast.Call, ast.List, ast.Dict, ast.Set, ast.ListComp, ast.DictComp, ast.SetComp)) for x in ast.walk(v))
        if not fresh or all(isinstance(a, ast.Constant) for x in ast.walk(v) if isinstance(x, ast.Call) for a in x.args) and \
                not any(isinstance(x, (ast.List, ast.Dict, ast.Set, ast.ListComp, ast.DictComp, ast.SetComp)) for x in ast.walk(v)):
            continue
        names = [t.id for t in st.targets]
        escaping = set()
        for x in ast.walk(fn):
            if isinstance(x, ast.Call):
                for a in list(x.args) + [k.value for k in x.keywords]:
                    if isinstance(a, ast.Name) and a.id in names and getattr(a, "lineno", 0) > st.lineno:
                        escaping.add(a.id)
            elif isinstance(x, ast.Assign) and x is not st and isinstance(x.value, ast.Name) and x.value.id in names and \
                    any(isinstance(t, (ast.Attribute, ast.Subscript)) for t in x.targets):
                escaping.add(x.value.id)
            elif isinstance(x, ast.Return) and x.value is not None:
                for y in ast.walk(x.value):
                    if isinstance(y, ast.Name) and y.id in names:
                        escaping.add(y.id)
        if len(escaping) >= 2:
            out.append((names, ast.unparse(v)))
    return out


def new_helpers(mod, qual, known):
    inline = {}
    for q2, f2 in mod.functions.items():
        if q2 not in known:
            if "." in q2:
                cls, meth = q2.rsplit(".", 1)
                if qual.startswith(cls + "."):
                    inline["self." + meth] = f2
            else:
                inline[q2] = f2
    return inline


def _signature(fn):
    a = fn.args
    pv = pyval.PyVal(exact=True)
    out = []
    pos = a.posonlyargs + a.args
    dfl = [None] * (len(pos) - len(a.defaults)) + list(a.defaults)
    for p, d in zip(pos, dfl):
        out.append("%s=%s" % (p.arg, pv.value(d, {}) if d is not None else "<required>"))
    if a.vararg:
        out.append("*" + a.vararg.arg)
    for p, d in zip(a.kwonlyargs, a.kw_defaults):
        out.append("kw %s=%s" % (p.arg, pv.value(d, {}) if d is not None else "<required>"))
    if a.kwarg:
        out.append("**" + a.kwarg.arg)
    return ", ".join(out)


def _added_defaults(fn, ref_fn):
    """{new parameter: default node} when fn's signature is ref_fn's plus parameters that all have defaults (the
    reference parameters keep their names, order and defaults); None otherwise."""
    def table(f):
        a = f.args
        pos = a.posonlyargs + a.args
        dfl = [None] * (len(pos) - len(a.defaults)) + list(a.defaults)
        out = [(p.arg, "pos", d) for p, d in zip(pos, dfl)]
        out += [(p.arg, "kw", d) for p, d in zip(a.kwonlyargs, a.kw_defaults)]
        return out, (a.vararg.arg if a.vararg else None), (a.kwarg.arg if a.kwarg else None)
    (ta, va, ka), (tb, vb, kb) = table(fn), table(ref_fn)
    if va != vb or ka != kb:
        return None
    names_b = [n for n, _, _ in tb]
    kept = [(n, k, d) for n, k, d in ta if n in names_b]
    if [n for n, _, _ in kept] != names_b:
        return None
    pv = pyval.PyVal(exact=True)
    for (n, k, d), (n2, k2, d2) in zip(kept, tb):
        if k != k2 or (d is None) != (d2 is None) or (d is not None and not pyval.same(pv.value(d, {}), pv.value(d2, {}))):
            return None
    added = [(n, k, d) for n, k, d in ta if n not in names_b]
    if not added or any(d is None for _, _, d in added):
        return None
    # new positional parameters may only come after the reference ones
    pos_a = [n for n, k, _ in ta if k == "pos"]
    pos_b = [n for n, k, _ in tb if k == "pos"]
    if pos_a[:len(pos_b)] != pos_b:
        return None
    return {n: d for n, _, d in added}


def _visible_keys(res, fn):
    """Keys of the final environment that name something visible outside the call: attributes / items of `self`, of a
    parameter, or of a global (module, class, module-level table)."""
    params = {a.arg for a in fn.args.posonlyargs + fn.args.args + fn.args.kwonlyargs}
    imported = {(a.asname or a.name).split(".")[0] for n in ast.walk(fn) if isinstance(n, (ast.Import, ast.ImportFrom)) for a in n.names}
    local = alpha._bound(fn) - params - imported
    if fn.name == "_module_body_":
        local = set()          # the module's own statements bind module-level names: all of them are visible
    keys = set()
    for k in res.env:
        if k.startswith("__"):
            continue
        root = k.split(".")[0].split("[")[0]
        if not root.isidentifier():
            continue
        if "." in k or "[" in k:
            if root == "self" or root == "cls" or root in params or root not in local:
                keys.add(k)
        elif root not in local and root not in params and root not in ("self", "cls"):
            # a global name whose object was written through (table[key] = v) or rebound under `global`
            v = res.env[k]
            if v != pyval.sym(k):
                keys.add(k)
    return keys


def _stored_params(res, fn):
    """Parameters whose object was written through (subscript store / mutating call)."""
    params = [a.arg for a in fn.args.posonlyargs + fn.args.args + fn.args.kwonlyargs]
    out = set()
    for p in params:
        v = res.env.get(p)
        if v is not None and v != pyval.sym(p):
            s = str(v)
            if "store(" in s or "store_in(" in s or "after_" in s or "loop(" in s:
                out.add(p)
    return out


_RENAMES = None


def rename_map():
    """{relpath: {reference qualname: current qualname}} for functions that disappeared under their reference name while
    exactly one new function of the same module (same class) folds to the reference: a rename."""
    global _RENAMES
    if _RENAMES is not None:
        return _RENAMES
    _RENAMES = {}
    try:
        bodies = _bodies()
    except AnalysisError:
        return _RENAMES
    pending = []
    for rel, entry in bodies.items():
        path = os.path.join(pf.REPO, rel)
        if not os.path.exists(path):
            continue
        try:
            tree = ast.parse(open(path).read())
        except SyntaxError:
            continue
        cur = {}

        def walk(node, prefix):
            for child in ast.iter_child_nodes(node):
                if isinstance(child, (ast.FunctionDef, ast.AsyncFunctionDef)):
                    cur.setdefault(prefix + child.name, child)
                elif isinstance(child, ast.ClassDef):
                    walk(child, prefix + child.name + ".")
                elif isinstance(child, (ast.If, ast.Try, ast.With, ast.For, ast.While)):
                    walk(child, prefix)
        walk(tree, "")
        missing = [q for q in entry["bodies"] if q not in cur]
        added = [q for q in cur if q not in entry["bodies"]]
        if not missing or not added:
            continue
        pending.append((rel, entry, cur, missing, added))
    # fixpoint: a renamed function that calls another renamed function matches once the callee's rename is known
    progress = True
    while progress:
        progress = False
        for rel, entry, cur, missing, added in pending:
            for m in list(missing):
                ref_fn = ast.parse(entry["bodies"][m]).body[0]
                scope = m.rsplit(".", 1)[0] if "." in m else ""
                cands = []
                for a in added:
                    if (a.rsplit(".", 1)[0] if "." in a else "") != scope:
                        continue
                    try:
                        if not differences(cur[a], ref_fn, {}):
                            cands.append(a)
                    except Exception:
                        pass
                if len(cands) == 1:
                    _RENAMES.setdefault(rel, {})[m] = cands[0]
                    pyval.RENAMES[cands[0].split(".")[-1]] = m.split(".")[-1]
                    missing.remove(m)
                    added.remove(cands[0])
                    progress = True
    return _RENAMES


def current_name(rel, qual):
    """The name under which the reference function `qual` of `rel` exists on the current tree (itself unless renamed)."""
    return rename_map().get(rel, {}).get(qual, qual)


def ref_rule(prop):
    todo = [(m, q) for m, t in sorted(CURATED.items()) for q, props in sorted(t.items()) if prop in props]

    def run(r):
        # classes with a curated method: a special method (pickling, copying, attribute access, comparison ...) that the
        # reference class did not define changes how every instance behaves without touching any compared function
        seen_cls = set()
        for modname, qual in todo:
            if "." not in qual:
                continue
            rel = "sasmodels/%s.py" % modname
            cls = qual.split(".")[0]
            if (rel, cls) in seen_cls:
                continue
            seen_cls.add((rel, cls))
            mod = pf.module(rel)
            entry = _bodies().get(rel, {})
            ref_dunder = {q.split(".")[1] for q in entry.get("bodies", {}) if q.startswith(cls + ".") and q.count(".") == 1
                          and q.split(".")[1].startswith("__") and q.endswith("__")}
            back = {v: k for k, v in rename_map().get(rel, {}).items()}
            cur_dunder = {}
            for q, f_ in mod.functions.items():
                q0 = back.get(q, q)
                if q0.startswith(cls + ".") and q0.count(".") == 1 and q0.split(".")[1].startswith("__") and q0.endswith("__"):
                    cur_dunder[q0.split(".")[1]] = f_
            for name in sorted(set(cur_dunder) - ref_dunder):
                r.violation(rel, "%s.%s" % (cls, name), "special method %s added to a class on the property's evaluation path" % name,
                            cur_dunder[name].lineno, "the confirmed reference class defines %s; %s changes how every instance is "
                            "pickled / copied / accessed / compared, none of which the compared functions show" % (sorted(ref_dunder), name))
        for modname, qual in todo:
            rel = "sasmodels/%s.py" % modname
            mod = pf.module(rel)
            if qual == MODULE_BODY:
                fn = module_body_fn(ast.parse(mod.text))
            else:
                fn = mod.func(qual)
            ref_fn, known = reference_function(rel, qual)
            if ref_fn is None:
                raise AnalysisError("no reference body for %s:%s (run tools/mkrefshape.py)" % (rel, qual))
            for what, a, b in constant_differences(mod, qual, fn, _bodies()[rel]):
                r.violation(rel, qual, "%s (read by this function) differs from the confirmed reference" % what, fn.lineno,
                            "found %s ; reference %s" % (pyval._short(a, 220), pyval._short(b, 220)))
            if (rel, qual) in mod.sem_aligned:
                r.ok(rel, qual, "folds to the confirmed reference (text differs, value and effects do not)", fn.lineno)
                continue
            if alpha.shape(fn)[0] == alpha.shape(ref_fn)[0]:
                r.ok(rel, qual, "identical to the confirmed reference up to local names", fn.lineno)
                continue
            diffs = differences(fn, ref_fn, new_helpers(mod, qual, known))
            if not diffs:
                r.ok(rel, qual, "folds to the confirmed reference (text differs, value and effects do not)", fn.lineno)
            for what, a, b in diffs:
                r.violation(rel, qual, "%s differs from the confirmed reference" % what, fn.lineno,
                            "found %s ; reference %s" % (pyval._short(a, 220), pyval._short(b, 220)))
    return ("R-%s-ref" % prop, len(todo), "functions on the property's evaluation path fold to their confirmed references", run)


def sem_align(mod):
    """Semantic alignment: a function whose text differs from its reference but whose fold (value, visible effects,
    refusals, calls with their conditions and order) is the reference's is replaced, for reading by the rules, by the
    reference text at the function's position.  Returns the set of (relpath, qualname) so aligned."""
    done = set()
    try:
        entry = _bodies().get(mod.relpath)
    except AnalysisError:
        return done
    if not entry:
        return done
    known = set(entry["functions"])
    renames = rename_map().get(mod.relpath, {})
    back = {v: k for k, v in renames.items()}
    for cur_qual, fn in list(mod.functions.items()):
        qual = back.get(cur_qual, cur_qual)
        if qual.count(".") > 1 or qual not in entry["bodies"]:
            continue
        parent = mod.parents.get(fn)
        if isinstance(parent, (ast.FunctionDef, ast.AsyncFunctionDef)):
            continue
        ref_fn = ast.parse(entry["bodies"][qual]).body[0]
        if alpha.shape(fn)[0] == alpha.shape(ref_fn)[0]:
            continue
        if [a.arg for a in fn.args.posonlyargs + fn.args.args + fn.args.kwonlyargs] != \
                [a.arg for a in ref_fn.args.posonlyargs + ref_fn.args.args + ref_fn.args.kwonlyargs] \
                and _added_defaults(fn, ref_fn) is None:
            continue
        try:
            if differences(fn, ref_fn, new_helpers(mod, qual, known)):
                continue
        except Exception:
            continue
        ast.increment_lineno(ref_fn, fn.lineno - ref_fn.lineno)
        fn.body = ref_fn.body
        done.add((mod.relpath, qual))
    return done


# ------------------------------------------------------------------------------------------------------------------
# Maintenance helper (not used by any rule): which curated functions lie on a property's evaluation path - closure over a
# name-based call graph of the reference bodies, from the property's entry points.  It over-approximates relevance (every
# interface passes through the code generator, yet a generator defect does not make the interfaces disagree), so the
# CURATED table is kept by hand and this map is only consulted when deciding what to add to it.
ENTRY = {
    "C01": ["direct_model:call_kernel", "direct_model:call_Fq"],
    "C02": ["weights:get_weights", "direct_model:get_mesh", "sasview_model:SasviewModel._get_weights"],
    "C03": ["direct_model:DataMixin._interpret_data", "direct_model:DataMixin._calc_theory"],
    "C04": ["direct_model:DataMixin._interpret_data", "direct_model:DataMixin._calc_theory"],
    "C05": ["direct_model:call_kernel"],
    "C06": ["direct_model:call_kernel"],
    "C07": ["product:ProductKernel.Iq", "product:make_product_info", "product:ProductModel.make_kernel", "direct_model:call_kernel", "direct_model:call_Fq"],
    "C08": ["mixture:MixtureKernel.Iq", "mixture:make_mixture_info", "mixture:MixtureModel.make_kernel", "direct_model:call_kernel"],
    "C09": ["kernelpy:PyModel.make_kernel", "kernelpy:PyKernel._call_kernel", "modelinfo:make_model_info", "direct_model:call_kernel", "direct_model:call_Fq"],
    "C10": ["direct_model:DirectModel.__call__", "direct_model:DirectModel.__init__", "direct_model:Iq", "direct_model:Iqxy", "direct_model:Gxi",
            "sasview_model:SasviewModel.calculate_Iq", "sasview_model:SasviewModel.evalDistribution", "sasview_model:SasviewModel.run",
            "sasview_model:SasviewModel.runXY", "sasview_model:SasviewModel.setParam", "sasview_model:SasviewModel.set_dispersion",
            "bumps_model:Experiment.theory", "bumps_model:Experiment.__init__", "bumps_model:Model.__init__"],
    "C11": ["direct_model:DirectModel.__call__", "direct_model:call_kernel", "direct_model:call_Fq", "sasview_model:SasviewModel.calculate_Iq",
            "sasview_model:SasviewModel.clone", "kerneldll:DllModel.make_kernel", "kernelpy:PyModel.make_kernel"],
    "C14": ["direct_model:call_Fq"],
    "C15": ["core:build_model"],
    "C16": ["core:reparameterize", "core:build_model"],
    "C17": ["core:build_model", "custom/__init__:load_custom_kernel_module"],
    "C18": ["kerneldll:load_dll"],
    "C19": ["direct_model:Gxi", "direct_model:_make_sesans_transform", "direct_model:DataMixin._calc_theory"],
    "C20": ["convert:convert_model"],
}
# calls through objects that the name-based graph cannot see
EXTRA_EDGES = {
    "direct_model:call_kernel": ["kernel:Kernel.Iq", "product:ProductKernel.Iq", "mixture:MixtureKernel.Iq"],
    "direct_model:call_Fq": ["kernel:Kernel.Fq"],
    "kernel:Kernel.Fq": ["kerneldll:DllKernel._call_kernel", "kernelpy:PyKernel._call_kernel"],
    "direct_model:DataMixin._calc_theory": ["resolution:Perfect1D.apply", "resolution:Pinhole1D.apply", "resolution:Slit1D.apply",
                                            "resolution2d:Pinhole2D.apply", "resolution2d:Slit2D.apply", "sesans:SesansTransform.apply",
                                            "kerneldll:DllModel.make_kernel", "kernelpy:PyModel.make_kernel", "product:ProductModel.make_kernel",
                                            "mixture:MixtureModel.make_kernel"],
    "mixture:MixtureKernel.Iq": ["kernel:Kernel.Iq", "product:ProductKernel.Iq", "mixture:_MixtureParts.__next__", "mixture:_MixtureParts.__init__"],
    "product:ProductKernel.Iq": ["kernel:Kernel.Fq", "kernel:Kernel.Iq"],
    "core:build_model": ["kerneldll:load_dll", "generate:make_source", "core:parse_dtype", "kernelpy:PyModel.__init__", "product:ProductModel.__init__",
                         "mixture:MixtureModel.__init__"],
    "kerneldll:load_dll": ["kerneldll:make_dll", "kerneldll:DllModel.__init__", "kerneldll:DllModel._load_dll"],
}
# names too generic to follow by name alone (they would connect everything to everything)
GENERIC = {"Iqxy", "Gxi", "Iqac", "Iqabc", "form_volume", "shell_volume", "radius_effective", "profile", "random", "theory", "update",
           "residuals", "numpoints", "resolution", "state", "save", "simulate_data", "nllf", "__call__", "clone", "get_weights",
           "get", "pop", "append", "extend", "update", "copy", "items", "keys", "values", "join", "split", "format", "sort", "insert", "index",
           "__init__", "run", "release", "apply", "Iq", "Fq", "make_kernel", "main", "demo", "plot", "show", "read", "write", "close", "add",
           "lower", "upper", "strip", "replace", "search", "match", "sub", "group", "parameters", "name", "type", "info", "load", "save"}


def reach_map():
    bodies = _bodies()
    funcs = {}          # "mod:qual" -> FunctionDef
    by_name = {}        # short name -> ["mod:qual"]
    for rel, entry in bodies.items():
        mod = rel[len("sasmodels/"):-3]
        for qual, text in entry["bodies"].items():
            key = "%s:%s" % (mod, qual)
            funcs[key] = ast.parse(text).body[0]
            by_name.setdefault(qual.split(".")[-1], []).append(key)
            if qual.endswith(".__init__"):
                by_name.setdefault(qual.split(".")[-2], []).append(key)      # ClassName(...) constructs
    edges = {}
    for key, fn in funcs.items():
        out = set(EXTRA_EDGES.get(key, []))
        mod = key.split(":")[0]
        for n in ast.walk(fn):
            if isinstance(n, ast.Call):
                f = n.func
                nm = f.id if isinstance(f, ast.Name) else f.attr if isinstance(f, ast.Attribute) else None
                if not nm or nm in GENERIC:
                    continue
                cands = by_name.get(nm, [])
                # prefer same-module targets for bare names; attribute calls reach every candidate
                if isinstance(f, ast.Name):
                    same = [c for c in cands if c.split(":")[0] == mod and "." not in c.split(":")[1].replace(".__init__", "")]
                    cands = same or cands
                elif isinstance(f.value, ast.Name) and f.value.id == "self":
                    cls = key.split(":")[1].split(".")[0]
                    same = [c for c in cands if c.startswith("%s:%s." % (mod, cls))]
                    cands = same or cands
                out.update(cands)
        edges[key] = out
    result = {}
    curated = {"%s:%s" % (m, q) for m, t in CURATED.items() for q in t}
    for prop, entries in ENTRY.items():
        seen, work = set(), list(entries)
        while work:
            k = work.pop()
            if k in seen or k not in funcs:
                continue
            seen.add(k)
            work.extend(edges.get(k, ()))
        result[prop] = sorted(seen & curated)
    return result
