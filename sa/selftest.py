"""Self-test of the checker (thorough tier): single-edit variants of the *current*
tree on which a named rule must fire (break) or every rule must stay silent
(twin).  Each variant is a scratch copy of /repo's working tree outside /repo
and /verif, removed as soon as its run ends.  An edit whose anchor text no
longer exists in the tree is skipped (reported), never counted as a miss.
"""
import os, shutil, subprocess, sys, tempfile, json
from concurrent.futures import ThreadPoolExecutor
from .report import REPO, VERIF

B, T = "break", "twin"
# (property, expected rule or None for twins, kind, file, old, new, note)
CORPUS = [
    # ---- C01 ------------------------------------------------------------
    ("C01", "R-C01-carry", B, "sasmodels/kernel_iq.c", "    result[nq+1] = weighted_form;\n    result[nq+2] = weighted_shell;",
     "    result[nq+2] = weighted_form;\n    result[nq+1] = weighted_shell;", "swap exit slots"),
    ("C01", "R-C01-carry", B, "sasmodels/kernel_iq.c", "    double weighted_shell = (pd_start == 0 ? 0.0 : result[nq+2]);",
     "    double weighted_shell = 0.0;", "accumulator not carried across chunks"),
    ("C01", "R-C01-gate", B, "sasmodels/kernel_iq.c", "    if (weight > cutoff) {\n      double form, shell;",
     "    weight_norm += weight;\n    if (weight > cutoff) {\n      double form, shell;", "accumulate above the cutoff test"),
    ("C01", "R-C01-gate", B, "sasmodels/kernel_iq.c", "    if (weight > cutoff) {", "    if (weight >= cutoff) {", "non-strict cutoff"),
    ("C01", "R-C01-restart", B, "sasmodels/kernel_iq.c", "  int i##_LOOP = (pd_start/details->pd_stride[_LOOP])%n##_LOOP;",
     "  int i##_LOOP = (pd_start/details->pd_stride[_LOOP]);", "drop the modulus"),
    ("C01", "R-C01-gpu", B, "sasmodels/kernel_iq.c", "  if (q_index >= nq) return;\n", "", "padding work items no longer leave (OpenCL configuration only)"),
    ("C01", "R-C01-gpu", B, "sasmodels/kernel_iq.c", "      double this_F2 = (pd_start == 0 ? 0.0 : result[q_index]);",
     "      double this_F2 = 0.0;", "q-point sum not carried between chunks on the GPU"),
    ("C01", "R-C01-gpu", B, "sasmodels/kernel_iq.c", "  result[2*q_index+0] = this_F2;\n  result[2*q_index+1] = this_F1;",
     "  result[2*q_index+0] = this_F1;\n  result[2*q_index+1] = this_F2;", "F2/F1 stored back crossed on the GPU"),
    ("C01", None, T, "sasmodels/kernel_iq.c", "  if (q_index >= nq) return;\n", "  if (q_index >= nq) { return; }\n", "braced early exit"),
    ("C01", "R-C01-drivers", B, "sasmodels/kernelcl.py", "        cl.enqueue_copy(queue, self.result, self._result_b, wait_for=wait_for)",
     "        cl.enqueue_copy(queue, self._result_b, self.result, wait_for=wait_for)", "read-back direction reversed (OpenCL driver)"),
    ("C01", "R-C01-drivers", B, "sasmodels/kernelcuda.py", "        name = 'Iq' if self.dim == '1d' else 'Imagnetic' if magnetic else 'Iqxy'",
     "        name = 'Iq' if self.dim == '1d' else 'Iqxy' if magnetic else 'Imagnetic'", "magnetic kernel selection inverted (CUDA driver)"),
    ("C01", "R-C01-drivers", B, "sasmodels/kernelcl.py", "            self.q[:self.nq, 1] = q_vectors[1]", "            self.q[:self.nq, 1] = q_vectors[0]", "qy column filled with qx (OpenCL input)"),
    ("C01", "R-C01-drivers", B, "sasmodels/kernelcuda.py", "        nout = 2 if self.info.have_Fq and self.dim == '1d' else 1", "        nout = 2 if self.info.have_Fq and self.dim == '2d' else 1", "result vector too short for F, F^2 pairs (CUDA)"),
    ("C01", None, T, "sasmodels/kernelcl.py", "        name = 'Iq' if self.dim == '1d' else 'Imagnetic' if magnetic else 'Iqxy'",
     "        name = 'Iq' if self.dim == '1d' else ('Iqxy' if not magnetic else 'Imagnetic')", "selection rephrased"),
    ("C01", "R-C01-maxpd", B, "sasmodels/details.py", "    if num_active > max_pd:\n        raise ValueError(\"Too many polydisperse parameters\")\n",
     "", "refusal deleted"),
    ("C01", "R-C01-chunk", B, "sasmodels/kerneldll.py", "            stop = min(start + step, call_details.num_eval)", "            stop = start + step", "last chunk overruns"),
    ("C01", "R-C01-norm", B, "sasmodels/kernel.py", "        combined_scale = values[0]/shell_volume", "        combined_scale = values[0]/form_volume\n", None),
    ("C01", "R-C01-stride", B, "sasmodels/details.py", "    call_details.pd_offset[:max_pd] = offset[idx]", "    call_details.pd_offset[:max_pd] = offset[:max_pd]", "offsets not permuted"),
    ("C01", None, T, "sasmodels/kerneldll.py", "        step = 100\n", "        step = 50\n", "chunk size is free"),
    ("C01", None, T, "sasmodels/details.py", "    if num_active > max_pd:", "    if not num_active <= max_pd:", "rephrased guard"),
    # ---- C02 ------------------------------------------------------------
    ("C02", "R-C02-density", B, "sasmodels/weights.py", "        px = np.exp(-0.5*((np.log(x)-np.log(center))/sig)**2)/(x*sig)",
     "        px = np.exp(-0.5*((np.log(x)-np.log(center))/sig)**2)/sig", "lognormal without 1/x"),
    ("C02", "R-C02-density", B, "sasmodels/weights.py", "        z = (center/sigma)**2", "        z = center/sigma", "schulz z"),
    ("C02", "R-C02-density", B, "sasmodels/weights.py", "        px = np.exp((x-center)**2 / (-2.0 * sigma * sigma))",
     "        px = np.exp((x-center)**2 / (-1.0 * sigma * sigma))", "gaussian width"),
    ("C02", "R-C02-limits", B, "sasmodels/weights.py", "        x = x[(x >= lb) & (x <= ub)]\n        return x\n", "        x = x[(x > lb) & (x <= ub)]\n        return x\n", "exclusive lower limit"),
    ("C02", "R-C02-unit-sum", B, "sasmodels/weights.py", "    return v, w/np.sum(w)", "    return v, w", "not normalised"),
    ("C02", "R-C02-centre", B, "sasmodels/weights.py", "        if not relative:\n            # For orientation, the jitter is relative to 0 not the angle\n            center = 0\n", "", "angles not centred on zero"),
    ("C02", None, T, "sasmodels/weights.py", "        px = np.exp((x-center)**2 / (-2.0 * sigma * sigma))",
     "        px = np.exp(-0.5*((x-center)/sigma)**2)", "algebraic rewrite"),
    # ---- C03 ------------------------------------------------------------
    ("C03", "R-C03-normalise", B, "sasmodels/resolution.py", "    weights /= np.sum(weights, axis=0)[None, :]\n    return weights",
     "    return weights", "no renormalisation"),
    ("C03", "R-C03-background", B, "sasmodels/direct_model.py", "        pars['background'] = 0.\n", "", "background inside the smearing"),
    ("C03", "R-C03-positive-q", B, "sasmodels/resolution.py", "        # Force positive q, even for events measured on the opposite side of\n        # the beam stop.\n        self.q_calc = abs(self.q_calc)\n", "", "negative q requested"),
    ("C03", "R-C03-linear", B, "sasmodels/resolution.py", "    Iq = np.dot(theory[None, :], weight_matrix)", "    Iq = np.dot(theory[None, :]**2, weight_matrix)", "non-linear apply"),
    ("C03", "R-C03-window", B, "sasmodels/resolution.py", "        self.q_calc = (pinhole_extend_q(q, q_width, nsigma=nsigma)", "        self.q_calc = (pinhole_extend_q(q, q_width, nsigma=2.0)", "window mismatch"),
    ("C03", "R-C03-ctor-bind", B, "sasmodels/direct_model.py", "                    res = resolution.Pinhole1D(q, dq)", "                    res = resolution.Pinhole1D(q, dq, n_sigma=3)", "bad keyword"),
    ("C03", None, T, "sasmodels/resolution.py", "    weights /= np.sum(weights, axis=0)[None, :]", "    weights /= np.sum(weights, axis=0)[None, :]  # normalise", "comment only"),
    # ---- C04 ------------------------------------------------------------
    ("C04", "R-C04-erf", B, "sasmodels/resolution.py", "(sqrt(2.0)*q_width)[None, :])", "(2.0*q_width)[None, :])", "erf scale"),
    ("C04", "R-C04-window", B, "sasmodels/resolution.py", "PINHOLE_N_SIGMA = (2.5, 3.0)", "PINHOLE_N_SIGMA = (3.0, 3.0)", "window constant"),
    ("C04", "R-C04-slit-u", B, "sasmodels/resolution.py", "            weights[i, :] /= 2*n_length + 1", "            weights[i, :] /= 2*n_length", "trip count"),
    ("C04", "R-C04-slit-u", B, "sasmodels/resolution.py", "    weights = np.diff(np.sqrt(u_edges))/w", "    weights = np.diff(np.sqrt(u_edges))/(2*w)", "1/L prefactor"),
    ("C04", "R-C04-ring", B, "sasmodels/resolution2d.py", "                      + dqy*sin(dphi) * sin(-q_phi))", "                      - dqy*sin(dphi) * sin(-q_phi))", "rotation sign"),
    ("C04", None, T, "sasmodels/resolution.py", "(sqrt(2.0)*q_width)[None, :])", "(2.0**0.5*q_width)[None, :])", "same constant"),
    # ---- C05 ------------------------------------------------------------
    ("C05", "R-C05-matrix", B, "sasmodels/kernel_iq.c", "    const double V21 = -sin_phi;\n    const double V22 = cos_phi;", "    const double V21 = sin_phi;\n    const double V22 = cos_phi;", "sign flip (symmetric)"),
    ("C05", "R-C05-matrix", B, "sasmodels/kernel_iq.c", "    const double J12 = sin_phi*sin_theta*cos_psi + sin_psi*cos_phi;", "    const double J12 = sin_phi*sin_theta*cos_psi - sin_psi*cos_phi;", "sign flip (triaxial)"),
    ("C05", "R-C05-cos", B, "sasmodels/kernel_iq.c", "      weight = fabs(cos(dtheta*M_PI_180)) * weight0; \\\n    } while (0)\n  #elif PROJECTION == 2", "      weight = weight0; \\\n    } while (0)\n  #elif PROJECTION == 2", "projection weight dropped"),
    ("C05", "R-C05-view-jitter", B, "sasmodels/kernel_iq.c", "  const double phi = values[details->theta_par+3];\n  // Make sure jitter", "  const double phi = values[details->theta_par+4];\n  // Make sure jitter", "wrong view slot"),
    ("C05", "R-C05-convention", B, "sasmodels/jitter.py", "    points = Rz(phi)@Ry(theta)@Rz(psi)@points # viewing angle", "    points = Ry(theta)@Rz(phi)@Rz(psi)@points # viewing angle", "reference chain order"),
    ("C05", None, T, "sasmodels/kernel_iq.c", "    const double V22 = -sin_phi*sin_psi*cos_theta + cos_phi*cos_psi;\n    const double V31 = sin_theta*cos_phi;\n    const double V32 = sin_phi*sin_theta;\n\n    // reverse jitter matrix\n",
     "    const double V22 = -sin_phi*sin_psi*cos_theta + cos_phi*cos_psi;\n    const double V31 = sin_theta*cos_phi;\n    const double V32 = sin_phi*sin_theta;\n\n    if (dtheta == 0.0 && dphi == 0.0 && dpsi == 0.0) {\n        rotation->R11 = V11; rotation->R12 = V12;\n        rotation->R21 = V21; rotation->R22 = V22;\n        rotation->R31 = V31; rotation->R32 = V32;\n        return;\n    }\n\n    // reverse jitter matrix\n",
     "correct no-jitter fast path (decided per path)"),
    ("C05", "R-C05-matrix", B, "sasmodels/kernel_iq.c", "    const double V22 = -sin_phi*sin_psi*cos_theta + cos_phi*cos_psi;\n    const double V31 = sin_theta*cos_phi;\n    const double V32 = sin_phi*sin_theta;\n\n    // reverse jitter matrix\n",
     "    const double V22 = -sin_phi*sin_psi*cos_theta + cos_phi*cos_psi;\n    const double V31 = sin_theta*cos_phi;\n    const double V32 = sin_phi*sin_theta;\n\n    if (dtheta == 0.0 && dphi == 0.0 && psi == 0.0) {\n        rotation->R11 = V11; rotation->R12 = V12;\n        rotation->R21 = V21; rotation->R22 = V22;\n        rotation->R31 = V31; rotation->R32 = V32;\n        return;\n    }\n\n    // reverse jitter matrix\n",
     "fast path guarded by the view angle instead of the jitter"),
    ("C05", None, T, "sasmodels/kernel_iq.c", "    const double V11 = cos_phi*cos_theta;\n    const double V12 = sin_phi*cos_theta;", "    const double V11 = cos_theta*cos_phi;\n    const double V12 = cos_theta*sin_phi;", "factor order"),
    # ---- C06 ------------------------------------------------------------
    ("C06", "R-C06-weights", B, "sasmodels/kernel_iq.c", "  weight[1] = (1.0-in_spin) * out_spin / norm;       // du", "  weight[1] = in_spin * (1.0-out_spin) / norm;       // du", "du/ud swapped"),
    ("C06", "R-C06-sld", B, "sasmodels/kernel_iq.c", "          return sld - SCALAR_VEC(Pvector, Mperp);", "          return sld + SCALAR_VEC(Pvector, Mperp);", "dd sign"),
    ("C06", "R-C06-sld", B, "sasmodels/kernel_iq.c", "  SET_VEC(perpz, -cos_mtheta * cos_mphi, -cos_mtheta * sin_mphi, sin_mtheta);", "  SET_VEC(perpz, -cos_mtheta * cos_mphi, cos_mtheta * sin_mphi, sin_mtheta);", "frame not orthogonal"),
    ("C06", "R-C06-slots", B, "sasmodels/kernel_iq.c", "const int32_t mag_index = NUM_PARS + 6 + 3 * sk;", "const int32_t mag_index = NUM_PARS + 5 + 3 * sk;", "slot offset"),
    ("C06", "R-C06-python", B, "sasmodels/details.py", "        mag[:, 1] = M0 * sin(theta) * sin(phi)  # my", "        mag[:, 1] = M0 * sin(theta) * cos(phi)  # my", "conversion"),
    ("C06", None, T, "sasmodels/kernel_iq.c", "  weight[0] = (1.0-in_spin) * (1.0-out_spin) / norm; // dd", "  weight[0] = (1.0-out_spin) * (1.0-in_spin) / norm; // dd", "commuted"),
    # ---- C07 ------------------------------------------------------------
    ("C07", "R-C07-layout", B, "sasmodels/product.py", "        first_s = last_p + NUM_COMMON_PARS - volfrac_in_p", "        first_s = last_p + NUM_COMMON_PARS", None),
    ("C07", "R-C07-formula", B, "sasmodels/product.py", "        PS = Fsq + F**2*(S-1) if beta_mode else Fsq*S", "        PS = Fsq + F*(S-1) if beta_mode else Fsq*S", None),
    ("C07", "R-C07-formula", B, "sasmodels/product.py", "        if not self._volfrac_in_p:\n            combined_scale *= volfrac", "        combined_scale *= volfrac", None),
    ("C07", "R-C07-inject", B, "sasmodels/product.py", "        s_values[NUM_COMMON_PARS+1] = s_dist[s_offset[1]] = volfrac*volume_ratio", "        s_values[NUM_COMMON_PARS+1] = s_dist[s_offset[1]] = volfrac", None),
    ("C07", "R-C07-reported", B, "sasmodels/product.py", "            self.q, F, Fsq, S, combined_scale, shell_volume, volume_ratio,", "            self.q, F, Fsq, S, scale, shell_volume, volume_ratio,", "reports another scale"),
    ("C07", None, T, "sasmodels/product.py", "        PS = Fsq + F**2*(S-1) if beta_mode else Fsq*S", "        PS = Fsq + (S-1)*F**2 if beta_mode else S*Fsq", "commuted"),
    # ---- C08 ------------------------------------------------------------
    ("C08", "R-C08-accum", B, "sasmodels/mixture.py", "                if not results:", "                if np.all(total) == 0.0:", "value-dependent restart"),
    ("C08", "R-C08-layout", B, "sasmodels/mixture.py", "        if self.model_info.operation == '+':\n            self.par_index += 1 # Account for each constituent model's scale param\n", "", "scale slot not skipped"),
    ("C08", "R-C08-layout", B, "sasmodels/mixture.py", "        scale = self.values[par_index] if self.model_info.operation == '+' else 1.0", "        scale = self.values[par_index] if self.model_info.operation == '+' else self.values[0]", "factor scale"),
    ("C08", "R-C08-result", B, "sasmodels/mixture.py", "        return scale*total + background", "        return scale*(total + background)", None),
    ("C08", "R-C08-precedence", B, "sasmodels/core.py", "    if \"+\" in model_string:\n        parts = [load_model_info(part)\n                 for part in model_string.split(\"+\")]\n        return mixture.make_mixture_info(parts, operation='+')\n    elif \"*\" in model_string:",
     "    if \"*\" in model_string and \"+\" not in model_string.split(\"*\")[0]:\n        parts = [load_model_info(part)\n                 for part in model_string.split(\"*\")]\n        return mixture.make_mixture_info(parts, operation='*')\n    elif \"+\" in model_string:\n        parts = [load_model_info(part)\n                 for part in model_string.split(\"+\")]\n        return mixture.make_mixture_info(parts, operation='+')\n    elif \"*\" in model_string:", "precedence"),
    # ---- C09 ------------------------------------------------------------
    ("C09", "R-C09-result-layout", B, "sasmodels/kernelpy.py", "np.hstack((total, weight_norm, weighted_form, weighted_shell, weighted_radius))", "np.hstack((total, weight_norm, weighted_shell, weighted_form, weighted_radius))", None),
    ("C09", "R-C09-volume-order", B, "sasmodels/kernelpy.py", "(lambda: (shell(*volume_args), volume(*volume_args)))", "(lambda: (volume(*volume_args), shell(*volume_args)))", None),
    ("C09", "R-C09-gate", B, "sasmodels/kernelpy.py", "            if weight > cutoff:", "            if weight >= cutoff:", None),
    ("C09", "R-C09-validate", B, "sasmodels/modelinfo.py", "        raise ValueError(\"default value %r not in range for %s\"\n                         % (default, name))", "        logger.warning(\"default value %r not in range for %s\"\n                         % (default, name))", "validation demoted"),
    ("C09", "R-C09-validate", B, "sasmodels/modelinfo.py", "        self.check_duplicates()\n", "", "validator unreachable"),
    # ---- C10 ------------------------------------------------------------
    ("C10", "R-C10-unused", B, "sasmodels/direct_model.py", "    if values:\n        raise TypeError(", "    if values and False:\n        raise TypeError(", None),
    ("C10", "R-C10-unused", B, "sasmodels/direct_model.py", "npts = values.pop(parameter.name+'_pd_n', 0)", "npts = values.get(parameter.name+'_pd_n', 0)", None),
    ("C10", "R-C10-suffix", B, "sasmodels/bumps_model.py", "('_pd_nsigma', 3., (0, 10)),", "('_pd_nsigmas', 3., (0, 10)),", None),
    ("C10", "R-C10-mask", B, "sasmodels/direct_model.py", "index = (data.mask == 0) & (q >= qmin) & (q <= qmax)", "index = (data.mask != 0) & (q >= qmin) & (q <= qmax)", None),
    ("C10", "R-C10-hidden", B, "sasmodels/sasview_model.py", "            hidden.add('scale')\n            hidden.add('background')", "            hidden.add('scale')", None),
    ("C10", None, T, "sasmodels/direct_model.py", "    if values:\n        raise TypeError(", "    if len(values) > 0:\n        raise TypeError(", "rephrased"),
    # ---- C11 ------------------------------------------------------------
    ("C11", "R-C11-args", B, "sasmodels/direct_model.py", "    pars = pars.copy()  # don't modify the caller's parameter set\n", "", "caller dict popped"),
    ("C11", "R-C11-args", B, "sasmodels/direct_model.py", "    values = values.copy()\n    mesh = [", "    mesh = [", "get_mesh consumes the caller's dict"),
    ("C11", "R-C11-escape", B, "sasmodels/kernel.py", "        F2 = self.result[0:nout*self.q_input.nq:nout]/total_weight", "        F2 = self.result[0:nout*self.q_input.nq:nout]", "view of the result buffer returned"),
    ("C11", "R-C11-scratch", B, "sasmodels/kernelpy.py", "    parameters[:] = values[2:n_pars+2]\n", "", "scratch vector not reset"),
    ("C11", "R-C11-reload", B, "sasmodels/kerneldll.py", "        if self._dll is None:\n            self._load_dll()\n        is_2d", "        is_2d", "no reload after release"),
    ("C11", None, T, "sasmodels/direct_model.py", "    values = values.copy()\n    mesh = [", "    values = dict(values)\n    mesh = [", "another copy idiom"),
    # ---- C13 ------------------------------------------------------------
    ("C13", "R-C13-degree", B, "sasmodels/models/cylinder.c", "    return M_PI*radius*radius*length;", "    return M_PI*radius*length;", "volume degree"),
    ("C13", "R-C13-homogeneous", B, "sasmodels/models/sphere.c", "    const double bes = sas_3j1x_x(q*radius);", "    const double bes = sas_3j1x_x(q*radius*radius);", "dimensioned argument"),
    ("C13", "R-C13-degree", B, "sasmodels/models/hollow_rectangular_prism.py", "[\"b2a_ratio\", \"\", 1,", "[\"b2a_ratio\", \"Ang\", 1,", "ratio labelled in Ang"),
    ("C13", "R-C13-order", B, "sasmodels/models/cylinder.c", "Iqac(double qab, double qc,\n    double sld,\n    double solvent_sld,\n    double radius,\n    double length)", "Iqac(double qab, double qc,\n    double sld,\n    double solvent_sld,\n    double length,\n    double radius)", "swapped names"),
    ("C13", None, T, "sasmodels/models/cylinder.c", "    return M_PI*radius*radius*length;", "    const double r2 = radius*radius;\n    return M_PI*r2*length;", "factored"),
    # ---- C14 ------------------------------------------------------------
    ("C14", "R-C14-modes", B, "sasmodels/models/cylinder.py", "radius_effective_modes = [\n    \"excluded volume\",", "radius_effective_modes = [\n    \"extra mode\", \"excluded volume\",", "extra mode name"),
    ("C14", "R-C14-modes", B, "sasmodels/models/core_shell_bicelle.c", "    case 5: // half diagonal\n", "", "case removed (falls into case 4's return)"),
    ("C14", "R-C14-eqvol", B, "sasmodels/models/cylinder.c", "    return cbrt(M_PI*radius*radius*length/M_4PI_3);", "    return cbrt(M_PI*radius*radius*length/M_PI);", "eq. volume radius"),
    ("C14", "R-C14-interleave", B, "sasmodels/kernel_iq.c", "            result[2*q_index+0] += weight * F2;\n            result[2*q_index+1] += weight * F1;", "            result[2*q_index+0] += weight * F1;\n            result[2*q_index+1] += weight * F2;", "interleave swapped"),
    ("C14", "R-C14-definite-init", B, "sasmodels/models/parallelepiped.c", "        length  = length_1;\n", "", "one branch no longer sets the cylinder length"),
    ("C14", None, T, "sasmodels/models/parallelepiped.c", "    double r_equiv, length;", "    double r_equiv = 0.0, length = 0.0;", "initialised at the declaration"),
    ("C14", "R-C14-order-select", B, "sasmodels/models/core_shell_parallelepiped.c", "            length_2 = length_1;\n", "", "old minimum forgotten"),
    ("C14", None, T, "sasmodels/models/core_shell_parallelepiped.c", "        if (lengths[ilen] < length_1) {", "        if (length_1 > lengths[ilen]) {", "comparison written the other way round"),
    # ---- C15 ------------------------------------------------------------
    ("C15", "R-C15-consume", B, "sasmodels/generate.py", "double(([248]|16)?(?=$|[^a-zA-Z0-9_]))", "double(([248]|16)?($|[^a-zA-Z0-9_]))", "boundary consumed again"),
    ("C15", "R-C15-float-lang", B, "sasmodels/generate.py", "    | [.]\\d+ ([eE][+-]?\\d+)?               # | PF (E)?", "    | [.]\\d+                              # | PF", "exponent branch dropped"),
    ("C15", "R-C15-float-lang", B, "sasmodels/generate.py", "    (?<!\\w)  # use negative lookbehind since '.' confuses \\b test\n    # use split", "    # use split", "look-behind dropped"),
    ("C15", "R-C15-dispatch", B, "sasmodels/generate.py", "    elif dtype == F32:\n        fbytes = 4", "    elif dtype == F32:\n        fbytes = 8", "FLOAT_SIZE for single"),
    ("C15", "R-C15-tgmath", B, "sasmodels/generate.py", "   | fabs | fmax | fmin\n", "   | fmax | fmin\n", "function dropped"),
    ("C15", "R-C15-keyword", B, "sasmodels/generate.py", "double(([248]|16)?(?=", "double(([2348]|16)?(?=", "bogus vector width"),
    ("C15", "R-C15-headroom", B, "sasmodels/models/cylinder.c", "    *F2 = 1e-4 * s * s * total_F2;", "    *F2 = 1e-4 * s * s * s * total_F2 / s;", "length^9 intermediate"),
    ("C15", None, T, "sasmodels/models/cylinder.c", "    *F2 = 1e-4 * s * s * total_F2;", "    *F2 = 1e-4 * (s * s) * total_F2;", "regrouped, same degrees"),
    # ---- C16 ------------------------------------------------------------
    ("C16", "R-C16-subs", B, "sasmodels/generate.py", "    model_refs = _call_pars(base_table.iq_parameters, subs)", "    model_refs = [\"_v.\" + p.id for p in base_table.iq_parameters]", "calls bypass the translation"),
    ("C16", "R-C16-ident-re", B, "sasmodels/generate.py", "_IDENT_RE = re.compile(r\"(?<![.0-9])([A-Za-z_][A-Za-z0-9_]*)\")", "_IDENT_RE = re.compile(r\"([A-Za-z_][A-Za-z0-9_]*)\")", "look-behind dropped"),
    ("C16", "R-C16-table", B, "sasmodels/modelinfo.py", "        if par.id in remove and insert:\n            new_list.extend(insert)\n            insert = []", "        if par.id in remove and insert:\n            new_list.extend(insert)", "block inserted repeatedly"),
    # ---- C17 ------------------------------------------------------------
    ("C17", "R-C17-key", B, "sasmodels/kerneldll.py", "generate.tag_source(source)", "generate.tag_source(model_info.id)", "digest of the id only"),
    ("C17", "R-C17-key", B, "sasmodels/generate.py", "return \"%08X\"%(0xffffffff&crc32(source))", "return \"%08X\"%(0xffffffff&crc32(source[:4096]))", "digest of a prefix"),
    ("C17", "R-C17-key", B, "sasmodels/kerneldll.py", "    basename = \"sas%d_%s\"%(bits, model_file)", "    basename = \"sas_%s\"%(model_file)", "precision not in the name"),
    ("C17", "R-C17-assemble", B, "sasmodels/generate.py", "    if filename not in _template_cache or mtime > _template_cache[filename][0]:", "    if filename not in _template_cache:", "template never reloaded"),
    ("C17", "R-C17-module", B, "sasmodels/custom/__init__.py", "            _MODULE_DEPENDS[path].update(_find_sources(path, c_sources))", "            pass", "C sources not dependencies"),
    # ---- C18 ------------------------------------------------------------
    ("C18", "R-C18-publish", B, "sasmodels/kerneldll.py", "            compile_model(source=filename, output=tmp_dll)", "            compile_model(source=filename, output=dll)", "compile onto the cache name"),
    ("C18", "R-C18-publish", B, "sasmodels/kerneldll.py", "        tmp_dll = \"%s.%d.tmp\"%(dll, os.getpid())", "        tmp_dll = joinpath(tempfile.gettempdir(), os.path.basename(dll))", "temporary on another file system"),
    ("C18", None, T, "sasmodels/kerneldll.py", "        tmp_dll = \"%s.%d.tmp\"%(dll, os.getpid())", "        tmp_dll = dll + \".%d.part\"%os.getpid()", "another temp-name scheme"),
    ("C18", "R-C18-symbols", B, "sasmodels/generate.py", "        \"#define KERNEL_NAME %s_Iqxy\" % name,", "        \"#define KERNEL_NAME %s_Iq_xy\" % name,", "generator spells an entry point differently"),
    ("C18", None, T, "sasmodels/generate.py", "    return model_info.name + \"_\" + variant", "    return \"%s_%s\" % (model_info.name, variant)", "same name, another string form"),
    # ---- C19 ------------------------------------------------------------
    ("C19", "R-C19-weights", B, "sasmodels/sesans.py", "        H0 = dq/(2*pi) * q", "        H0 = dq * q", "prefactor on H0 only"),
    ("C19", "R-C19-grid", B, "sasmodels/sesans.py", "        mask = ~(reptheta <= zaccept)", "        mask = (reptheta <= zaccept)", "mask polarity"),
    ("C19", "R-C19-linear", B, "sasmodels/sesans.py", "        P = G - G0", "        P = G + G0", None),
    ("C19", None, T, "sasmodels/sesans.py", "        H0 = dq/(2*pi) * q", "        H0 = 0.5/pi * dq * q", "same constant"),
    # ---- C20 ------------------------------------------------------------
    ("C20", "R-C20-type", B, "sasmodels/convert.py", "    keys = list(pars.keys())\n    for k in keys:", "    keys = list(pars.items())\n    for k in keys:", None),
    ("C20", "R-C20-table", B, "sasmodels/conversion_table.py", "                \"radius\": \"rad_bar\",", "                \"radius_bar\": \"rad_bar\",", "target name does not exist"),
    ("C20", "R-C20-defaults", B, "sasmodels/convert.py", "        if model_info.parameters.nmagnetic > 0:\n            newpars.setdefault('up_theta', 90.0)", "        newpars.setdefault('up_theta', 90.0)", None),
    ("C20", "R-C20-stage", B, "sasmodels/convert.py", "        name = newname\n        converted = True\n", "        if use_underscore:\n            newpars = _pd_to_underscores(newpars)\n        name = newname\n        converted = True\n", None),
    ("C20", "R-C20-suffix", B, "sasmodels/convert.py", "        return par[:-8]+\"_pd_nsigma\"", "        return par[:-7]+\"_pd_nsigma\"", None),
    ("C20", None, T, "sasmodels/convert.py", "    keys = list(pars.keys())\n    for k in keys:", "    keys = list(pars)\n    for k in keys:", "equivalent"),
]


def _run_variant(args):
    idx, (prop, rule, kind, relfile, old, new, note) = args
    src = os.path.join(REPO, relfile)
    try:
        with open(src) as fd:
            text = fd.read()
    except OSError:
        return idx, "skipped", "file missing"
    if text.count(old) != 1:
        return idx, "skipped", "anchor occurs %d times" % text.count(old)
    scratch = tempfile.mkdtemp(prefix="sa_selftest_")
    try:
        tree = os.path.join(scratch, "repo")
        shutil.copytree(REPO, tree, ignore=shutil.ignore_patterns(".git", "__pycache__", "*.pyc", "build", "*.egg-info"))
        with open(os.path.join(tree, relfile), "w") as fd:
            fd.write(text.replace(old, new))
        env = dict(os.environ, SASMODELS_REPO=tree, SA_EVIDENCE_DIR=os.path.join(scratch, "ev"), SA_SCRATCH=scratch,
                   PYTHONDONTWRITEBYTECODE="1", SA_SELFTEST_CHILD="1")
        proc = subprocess.run([sys.executable, "-m", "sa.main", prop, "--tier", "quick"], cwd=VERIF, env=env,
                              capture_output=True, text=True, timeout=1200)
        out = proc.stdout
        fired = set()
        rp = os.path.join(scratch, "ev", "replay", "%s.json" % prop)
        if os.path.exists(rp):
            with open(rp) as fd:
                fired = {v["rule"] for v in json.load(fd).get("violations", [])}
        fired = sorted(fired | {l.split()[0] for l in out.splitlines() if l.startswith("  R-")})
        if kind == B:
            ok = proc.returncode == 1 and rule in fired
            return idx, "ok" if ok else "MISS", "exit=%d fired=%s" % (proc.returncode, fired)
        ok = proc.returncode == 0
        return idx, "ok" if ok else "FALSE-ALARM", "exit=%d fired=%s %s" % (proc.returncode, fired, out.strip().splitlines()[-1][:200] if out.strip() else "")
    finally:
        shutil.rmtree(scratch, ignore_errors=True)


def _run_seed(args):
    """A stored seeded change (written by an independent sub-agent) applied to a scratch copy: must be detected."""
    prop, seed_dir = args
    name = os.path.basename(seed_dir.rstrip("/"))
    patch = os.path.join(seed_dir, "patch.diff")
    scratch = tempfile.mkdtemp(prefix="sa_selftest_")
    try:
        tree = os.path.join(scratch, "repo")
        shutil.copytree(REPO, tree, ignore=shutil.ignore_patterns(".git", "__pycache__", "*.pyc", "build", "*.egg-info"))
        ap = subprocess.run(["patch", "-p1", "-s", "-f", "-d", tree, "-i", patch], capture_output=True, text=True)
        if ap.returncode != 0:
            return name, "skipped", "patch no longer applies"
        env = dict(os.environ, SASMODELS_REPO=tree, SA_EVIDENCE_DIR=os.path.join(scratch, "ev"), SA_SCRATCH=scratch,
                   PYTHONDONTWRITEBYTECODE="1", SA_SELFTEST_CHILD="1")
        proc = subprocess.run([sys.executable, "-m", "sa.main", prop, "--tier", "quick"], cwd=VERIF, env=env,
                              capture_output=True, text=True, timeout=1200)
        fired = set()
        rp = os.path.join(scratch, "ev", "replay", "%s.json" % prop)
        if os.path.exists(rp):
            with open(rp) as fd:
                fired = {v["rule"] for v in json.load(fd).get("violations", [])}
        return name, "ok" if proc.returncode == 1 and fired else "MISS", "exit=%d fired=%s" % (proc.returncode, sorted(fired))
    finally:
        shutil.rmtree(scratch, ignore_errors=True)


def run(prop):
    """Run the self-test variants of one property; returns (summary dict, list of failure strings)."""
    import glob
    items = [(i, c) for i, c in enumerate(CORPUS) if c[0] == prop]
    seeds = [(prop, d) for d in sorted(glob.glob(os.path.join(VERIF, "seeded", prop + "-*")))]
    results = []
    seed_results = []
    with ThreadPoolExecutor(max_workers=min(16, max(1, len(items) + len(seeds)))) as pool:
        fut_seeds = [pool.submit(_run_seed, s) for s in seeds]
        for idx, status, detail in pool.map(_run_variant, items):
            results.append((CORPUS[idx], status, detail))
        seed_results = [f.result() for f in fut_seeds]
    failures = ["%s %s %s: %s (%s)" % (status, c[1] or "twin", c[3], detail, c[6] or "") for c, status, detail in results
                if status in ("MISS", "FALSE-ALARM")]
    failures += ["MISS seeded/%s: %s" % (n, d) for n, st, d in seed_results if st == "MISS"]
    summary = {
        "variants": len(results),
        "break_detected": sum(1 for c, s, d in results if c[2] == B and s == "ok"),
        "twins_silent": sum(1 for c, s, d in results if c[2] == T and s == "ok"),
        "skipped": [("%s:%s" % (c[3], c[6] or c[1]), d) for c, s, d in results if s == "skipped"] +
                   [("seeded/" + n, d) for n, st, d in seed_results if st == "skipped"],
        "seeded_changes_detected": sum(1 for n, st, d in seed_results if st == "ok"),
        "seeded_changes": [{"seed": n, "status": st, "detail": d} for n, st, d in seed_results],
        "failures": failures,
        "cases": [{"rule": c[1] or "twin", "file": c[3], "note": c[6], "status": s, "detail": d} for c, s, d in results],
    }
    return summary, failures
