"""E-nf: normal forms of closed-form straight-line code (Python `ast` or clang
JSON AST) as sympy expressions over opaque atoms, and equality by expansion.

No program path is explored beyond straight-line evaluation with a caller-
supplied set of branch facts; anything outside the fragment raises
AnalysisError (never a pass).
"""
import ast, re, math
import sympy as sp
from .report import AnalysisError
from . import pyfacts as pf

PI_NAMES = {"pi", "np.pi", "math.pi", "numpy.pi", "M_PI"}

# opaque function atoms
class where(sp.Function):
    nargs = 3

class clipf(sp.Function):
    nargs = 3

_FUNCS = {
    "sin": sp.sin, "cos": sp.cos, "tan": sp.tan, "exp": sp.exp, "log": sp.log, "sqrt": sp.sqrt,
    "erf": sp.erf, "fabs": sp.Abs, "abs": sp.Abs, "atan": sp.atan, "arctan": sp.atan, "cbrt": sp.cbrt,
    "asin": sp.asin, "acos": sp.acos, "arcsin": sp.asin, "arccos": sp.acos,
    "atan2": sp.atan2, "arctan2": sp.atan2,
    "square": lambda x: x**2, "cube": lambda x: x**3,
    "j0": lambda x: sp.besselj(0, x), "expm1": lambda x: sp.exp(x) - 1,
    "log10": lambda x: sp.log(x) / sp.log(10),
    "radians": lambda x: x * sp.pi / 180, "degrees": lambda x: x * 180 / sp.pi,
    "fmin": sp.Min, "fmax": sp.Max, "minimum": sp.Min, "maximum": sp.Max,
    "asarray": lambda x, *a: x, "float": lambda x: x, "double": lambda x: x,
}


def num(v):
    """Numeric literal -> exact rational when it is a short decimal, Float otherwise."""
    if isinstance(v, bool):
        return sp.Integer(int(v))
    if isinstance(v, int):
        return sp.Integer(v)
    if isinstance(v, float):
        if math.isinf(v) or math.isnan(v):
            return sp.oo if v > 0 else (-sp.oo if v < 0 else sp.nan)
        if v == int(v) and abs(v) < 1e15:
            return sp.Integer(int(v))
        s = repr(v)
        mant = s.split("e")[0].replace("-", "").replace(".", "").lstrip("0")
        if len(mant) <= 6:
            return sp.Rational(s)
        return sp.Float(v, 17)
    raise AnalysisError("nf: not a number %r" % (v,))


def sym(name):
    return sp.Symbol(name, real=True)


# ---------------------------------------------------------------------------
def py_expr(node, env, funcs=None):
    """Python expression -> sympy.  env: name or dotted text -> sympy value."""
    funcs = funcs or {}
    key = pf.unparse(node)
    if key in env:
        return env[key]
    if isinstance(node, ast.Constant):
        return num(node.value)
    if isinstance(node, ast.Name):
        if node.id in PI_NAMES:
            return sp.pi
        if node.id in ("inf",):
            return sp.oo
        return sym(node.id)
    if isinstance(node, ast.Attribute):
        d = pf.dotted(node)
        if d in PI_NAMES:
            return sp.pi
        if d in ("np.inf", "numpy.inf", "math.inf"):
            return sp.oo
        return sym(d or key)
    if isinstance(node, ast.BinOp):
        l, r = py_expr(node.left, env, funcs), py_expr(node.right, env, funcs)
        op = node.op
        if isinstance(op, ast.Add): return l + r
        if isinstance(op, ast.Sub): return l - r
        if isinstance(op, ast.Mult): return l * r
        if isinstance(op, ast.Div): return l / r
        if isinstance(op, ast.Pow): return l ** r
        if isinstance(op, ast.BitAnd): return sp.Function("band")(l, r)
        if isinstance(op, ast.BitOr): return sp.Function("bor")(l, r)
        raise AnalysisError("nf: operator %s" % type(op).__name__)
    if isinstance(node, ast.UnaryOp):
        v = py_expr(node.operand, env, funcs)
        if isinstance(node.op, ast.USub): return -v
        if isinstance(node.op, ast.UAdd): return v
        if isinstance(node.op, ast.Invert): return sp.Function("bnot")(v)
        if isinstance(node.op, ast.Not): return sp.Function("bnot")(v)
    if isinstance(node, ast.Call):
        name = pf.call_name(node) or ""
        short = name.split(".")[-1]
        args = [py_expr(a, env, funcs) for a in node.args]
        if name in funcs:
            return funcs[name](*args)
        if short in funcs:
            return funcs[short](*args)
        if short in _FUNCS and (name == short or name.split(".")[0] in ("np", "numpy", "math", "sp", "scipy", "special")):
            return _FUNCS[short](*args)
        if short == "clip" and len(args) == 3:
            return clipf(*args)
        if short == "where" and len(args) == 3:
            return where(*args)
        return sp.Function(name.replace(".", "_"))(*args)
    if isinstance(node, ast.Compare) and len(node.ops) == 1:
        l = py_expr(node.left, env, funcs)
        r = py_expr(node.comparators[0], env, funcs)
        opn = type(node.ops[0]).__name__
        return sp.Function("cmp_" + opn)(l, r)
    if isinstance(node, ast.Subscript):
        base = py_expr(node.value, env, funcs)
        sl = node.slice
        has_slice = isinstance(sl, ast.Slice) or (isinstance(sl, ast.Tuple) and any(isinstance(e, ast.Slice) for e in sl.elts))
        if has_slice or isinstance(sl, ast.Constant):
            return sp.Function("idx")(base, sym("[" + pf.unparse(sl) + "]"))
        try:
            return sp.Function("idx")(base, py_expr(sl, env, funcs))
        except AnalysisError:
            return sp.Function("idx")(base, sym("[" + pf.unparse(sl) + "]"))
    if isinstance(node, ast.IfExp):
        return where(py_expr(node.test, env, funcs), py_expr(node.body, env, funcs), py_expr(node.orelse, env, funcs))
    raise AnalysisError("nf: python expression outside the fragment: %s" % key)


# ---------------------------------------------------------------------------
def _round_floats(e, digits=12):
    reps = {}
    for f in e.atoms(sp.Float):
        if f == 0:
            reps[f] = sp.Integer(0)
            continue
        v = float(f)
        mag = 10 ** (digits - 1 - int(math.floor(math.log10(abs(v)))))
        rv = round(v * mag) / mag
        if rv == int(rv) and abs(rv) < 1e15:
            reps[f] = sp.Integer(int(rv))
        else:
            reps[f] = sp.Float(rv, 15)
    return e.xreplace(reps) if reps else e


def canon(e):
    """Numeric evaluation of constants (pi, sqrt(2) ...) with floats rounded to 12
    significant digits so that equal arguments become identical atoms."""
    e = sp.sympify(e)
    e = e.subs(sp.pi, sp.Float(math.pi, 17))
    e = e.replace(lambda x: x.is_Pow and x.base.is_Number and x.exp.is_Number,
                  lambda x: sp.Float(float(x.base) ** float(x.exp), 17) if not (x.base.is_Integer and x.exp.is_Integer and x.exp > 0) else x)
    try:
        e = e.evalf(17)
    except Exception:
        pass
    return _round_floats(e)


def _trig_reduce(e):
    def repl(x):
        a = x.base.args[0]
        n = int(x.exp)
        return (1 - sp.sin(a) ** 2) ** (n // 2) * sp.cos(a) ** (n % 2)
    return e.replace(lambda x: x.is_Pow and x.base.func == sp.cos and x.exp.is_Integer and x.exp >= 2, repl)


def residual(a, b, trig=False):
    d = sp.together(sp.sympify(a) - sp.sympify(b))
    n, _ = sp.fraction(d)
    n = sp.expand(n)
    if trig:
        n = sp.expand(_trig_reduce(n))
    n = sp.expand(canon(n))
    return n


def equal(a, b, trig=False, tol=1e-9):
    """Equality of two closed-form expressions by cross-multiplying and expanding."""
    a, b = sp.sympify(a), sp.sympify(b)
    if a == b:
        return True
    n = residual(a, b, trig)
    if n == 0:
        return True
    coeffs = [abs(complex(c)) for c in n.as_coefficients_dict().values()]
    ref = sp.expand(canon(sp.expand(sp.fraction(sp.together(a))[0])))
    scale = max([abs(complex(c)) for c in ref.as_coefficients_dict().values()] + [1e-300])
    return max(coeffs) <= tol * max(scale, 1e-300) if coeffs else True


def proportional(a, b, var):
    """a/b is free of `var` (and not zero/inf)."""
    q = sp.simplify(canon(sp.together(sp.sympify(a) / sp.sympify(b))))
    if q.has(var):
        q = sp.simplify(sp.expand_log(sp.powsimp(sp.expand(q), force=True), force=True))
    return (not q.has(var)) and q != 0 and q.is_finite is not False


# ---------------------------------------------------------------------------
# clang JSON expressions
# ---------------------------------------------------------------------------
def c_strip(n):
    while n.get("kind") in ("ImplicitCastExpr", "ParenExpr", "CStyleCastExpr", "ConstantExpr"):
        n = n["inner"][0]
    return n


def c_callee(n):
    f = c_strip(n["inner"][0])
    if f.get("kind") == "DeclRefExpr":
        return f["referencedDecl"]["name"]
    return None


def c_text(n):
    """Compact textual rendering of a clang expression (for construct keys)."""
    n0 = n
    k = n.get("kind")
    if k in ("ImplicitCastExpr", "ConstantExpr"):
        return c_text(n["inner"][0])
    if k == "ParenExpr":
        return "(" + c_text(n["inner"][0]) + ")"
    if k == "CStyleCastExpr":
        return "(%s)%s" % (n["type"]["qualType"], c_text(n["inner"][0]))
    if k == "DeclRefExpr":
        return n["referencedDecl"]["name"]
    if k in ("IntegerLiteral", "FloatingLiteral"):
        return str(n["value"])
    if k == "BinaryOperator" or k == "CompoundAssignOperator":
        return "%s %s %s" % (c_text(n["inner"][0]), n["opcode"], c_text(n["inner"][1]))
    if k == "UnaryOperator":
        if n.get("isPostfix"):
            return c_text(n["inner"][0]) + n["opcode"]
        return n["opcode"] + c_text(n["inner"][0])
    if k == "CallExpr":
        return "%s(%s)" % (c_text(n["inner"][0]), ", ".join(c_text(a) for a in n["inner"][1:]))
    if k == "ArraySubscriptExpr":
        return "%s[%s]" % (c_text(n["inner"][0]), c_text(n["inner"][1]))
    if k == "MemberExpr":
        return "%s%s%s" % (c_text(n["inner"][0]), "->" if n.get("isArrow") else ".", n["name"])
    if k == "ConditionalOperator":
        return "%s ? %s : %s" % tuple(c_text(x) for x in n["inner"])
    return "<%s>" % k


class Ref:
    """Pointer to a scalar slot in some environment (for out-parameters)."""
    def __init__(self, env, name):
        self.env, self.name = env, name


class CInterp:
    """Straight-line symbolic interpreter for the C subset used by the kernel helpers."""
    def __init__(self, functions, facts=None, opaque=(), opaque_loops=False):
        self.functions = functions     # name -> FunctionDecl JSON
        self.facts = facts or {}       # condition text -> bool
        self.opaque = set(opaque)
        self.opaque_loops = opaque_loops   # loops / undecided branches turn the variables they assign into opaque atoms
        self.depth = 0
        self.script = None     # path enumeration: list of decisions for undecided `if`s, in order met (see enumerate_paths)
        self.trace = []        # [(condition node, condition value, decision taken)]

    def _havoc(self, node, env):
        """Variables assigned anywhere inside `node` become opaque atoms acc_<name>."""
        def lname(n):
            n = c_strip(n)
            k = n.get("kind")
            if k == "DeclRefExpr":
                return n["referencedDecl"]["name"]
            if k in ("ArraySubscriptExpr", "MemberExpr"):
                return lname(n["inner"][0])
            if k == "UnaryOperator" and n.get("opcode") in ("*", "&"):
                return lname(n["inner"][0])
            return None
        stack = [node]
        local = set()
        names = set()
        while stack:
            n = stack.pop()
            if not isinstance(n, dict):
                continue
            k = n.get("kind")
            if k == "VarDecl":
                local.add(n.get("name"))
            if k in ("BinaryOperator",) and n.get("opcode") == "=" or k == "CompoundAssignOperator":
                nm = lname(n["inner"][0])
                if nm:
                    names.add(nm)
            if k == "UnaryOperator" and n.get("opcode") in ("++", "--"):
                nm = lname(n["inner"][0])
                if nm:
                    names.add(nm)
            if k == "UnaryOperator" and n.get("opcode") == "&":
                nm = lname(n["inner"][0])
                if nm:
                    names.add(nm)
            stack.extend(n.get("inner", []) or [])
        for nm in names - local:
            cur = env.get(nm)
            if isinstance(cur, Ref):
                cur.env[cur.name] = sym("acc_" + cur.name)
            else:
                env[nm] = sym("acc_" + nm)

    # -- expressions ---------------------------------------------------
    def expr(self, n, env):
        k = n.get("kind")
        if k in ("ImplicitCastExpr", "ParenExpr", "ConstantExpr"):
            return self.expr(n["inner"][0], env)
        if k == "CStyleCastExpr":
            return self.expr(n["inner"][0], env)
        if k == "IntegerLiteral":
            return sp.Integer(int(n["value"]))
        if k == "FloatingLiteral":
            return num(float(n["value"]))
        if k == "DeclRefExpr":
            name = n["referencedDecl"]["name"]
            if name in env:
                return env[name]
            return sym(name)
        if k == "UnaryOperator":
            op = n["opcode"]
            if op == "-":
                return -self.expr(n["inner"][0], env)
            if op == "+":
                return self.expr(n["inner"][0], env)
            if op == "&":
                tgt = c_strip(n["inner"][0])
                if tgt["kind"] == "DeclRefExpr":
                    return Ref(env, tgt["referencedDecl"]["name"])
                return ("lvalue", tgt, env)
            if op == "*":
                v = self.expr(n["inner"][0], env)
                if isinstance(v, Ref):
                    return v.env.get(v.name, sym(v.name))
                raise AnalysisError("nf: deref of non-reference %s" % c_text(n))
            if op == "!":
                return sp.Function("lnot")(self.expr(n["inner"][0], env))
            raise AnalysisError("nf: unary %s" % op)
        if k == "BinaryOperator":
            op = n["opcode"]
            if op == ",":
                self.expr(n["inner"][0], env)
                return self.expr(n["inner"][1], env)
            if op == "=":
                v = self.expr(n["inner"][1], env)
                self.assign(n["inner"][0], v, env)
                return v
            l = self.expr(n["inner"][0], env)
            r = self.expr(n["inner"][1], env)
            if op == "+": return l + r
            if op == "-": return l - r
            if op == "*": return l * r
            if op == "/":
                lt = n["inner"][0].get("type", {}).get("qualType", "")
                rt = n["inner"][1].get("type", {}).get("qualType", "")
                if "int" in lt and "int" in rt and "double" not in lt + rt:
                    return sp.floor(l / r)
                return l / r
            if op in ("<", ">", "<=", ">=", "==", "!=", "&&", "||"):
                return sp.Function("c_" + {"<": "lt", ">": "gt", "<=": "le", ">=": "ge", "==": "eq",
                                           "!=": "ne", "&&": "and", "||": "or"}[op])(l, r)
            raise AnalysisError("nf: binary %s" % op)
        if k == "CompoundAssignOperator":
            op = n["opcode"][0]
            cur = self.expr(n["inner"][0], env)
            r = self.expr(n["inner"][1], env)
            v = {"+": cur + r, "-": cur - r, "*": cur * r, "/": cur / r}[op]
            self.assign(n["inner"][0], v, env)
            return v
        if k == "ConditionalOperator":
            c, a, b = n["inner"]
            t = self.decide(c, env)
            if t is True:
                return self.expr(a, env)
            if t is False:
                return self.expr(b, env)
            return where(self.expr(c, env), self.expr(a, env), self.expr(b, env))
        if k == "ArraySubscriptExpr":
            base = c_strip(n["inner"][0])
            idx = self.expr(n["inner"][1], env)
            arr = self.expr(base, env) if base["kind"] != "DeclRefExpr" else env.get(base["referencedDecl"]["name"])
            if isinstance(arr, dict):
                if idx.is_Integer and int(idx) in arr:
                    return arr[int(idx)]
                raise AnalysisError("nf: array read before write %s" % c_text(n))
            name = c_text(base)
            return sp.Function("idx")(sym(name), idx)
        if k == "MemberExpr":
            base = self.expr(n["inner"][0], env)
            if isinstance(base, Ref):
                base = base.env.get(base.name)
            if isinstance(base, dict):
                if n["name"] in base:
                    return base[n["name"]]
                raise AnalysisError("nf: struct field read before write %s" % c_text(n))
            return sym(c_text(n))
        if k == "CallExpr":
            name = c_callee(n)
            args = [self.expr(a, env) for a in n["inner"][1:]]
            at_zero = getattr(self, "zero_values", None)
            if at_zero and name in at_zero and args and all(getattr(a, "is_number", False) for a in args[:1]) and args[0] == 0:
                return sp.sympify(at_zero[name])
            if name in self.opaque:
                return sp.Function(name)(*[a for a in args])
            has_body = name in self.functions and any(
                x.get("kind") == "CompoundStmt" for x in self.functions[name].get("inner", []))
            if name in _FUNCS and not has_body:
                return _FUNCS[name](*args)
            if name == "clip":
                return clipf(*args)
            if name in self.functions and self.functions[name].get("inner") and \
                    any(x.get("kind") == "CompoundStmt" for x in self.functions[name]["inner"]):
                return self.call(name, args)
            return sp.Function(name or "fn")(*args)
        raise AnalysisError("nf: C expression outside the fragment: %s (%s)" % (k, c_text(n)))

    def _unroll(self, st, env):
        """for (int i = 0; i < N; i++) with a literal N <= self.unroll: the body is executed N times with i bound."""
        inner = st.get("inner", [])
        if len(inner) != 5:
            return False
        init, _, cond, inc, body = inner
        if not init or init.get("kind") != "DeclStmt" or not cond or not inc:
            return False
        vd = [x for x in init.get("inner", []) if x.get("kind") == "VarDecl"]
        if len(vd) != 1:
            return False
        j = vd[0]["name"]
        ini = [x for x in vd[0].get("inner", []) if isinstance(x, dict) and x.get("kind")]
        m = re.match(r"^%s<(\d+)$" % re.escape(j), re.sub(r"\s+", "", c_text(cond)))
        if not ini or c_text(ini[0]).strip() != "0" or not m or re.sub(r"\s+", "", c_text(inc)) not in (j + "++", "++" + j):
            return False
        n = int(m.group(1))
        if n > self.unroll:
            return False
        for i in range(n):
            env[j] = sp.Integer(i)
            self.stmt(body, env)
        return True

    def _rank(self, v):
        """Rank of a value under the order abstraction (self.order: symbol -> rank), through Max / Min; None if unknown."""
        order = getattr(self, "order", None)
        if not order:
            return None
        if v in order:
            return order[v]
        fn = getattr(getattr(v, "func", None), "__name__", "")
        if fn in ("Max", "Min"):
            rs = [self._rank(a) for a in v.args]
            if all(r is not None for r in rs):
                return max(rs) if fn == "Max" else min(rs)
        return None

    def decide(self, cond, env):
        key = c_text(cond)
        if key in self.facts:
            return self.facts[key]
        v = self.expr(cond, env)
        key2 = str(v)
        if key2 in self.facts:
            return self.facts[key2]
        if getattr(self, "order", None):
            fn = getattr(getattr(v, "func", None), "__name__", "")
            if fn in ("c_lt", "c_gt", "c_le", "c_ge", "c_eq", "c_ne"):
                a, b = (self._rank(x) for x in v.args)
                if a is not None and b is not None:
                    return {"c_lt": a < b, "c_gt": a > b, "c_le": a <= b, "c_ge": a >= b, "c_eq": a == b, "c_ne": a != b}[fn]
        if getattr(self, "numeric_decide", False):
            # comparisons between numbers (a symbolic evaluation at a numeric point, e.g. q = 0) decide themselves
            fn = getattr(getattr(v, "func", None), "__name__", "")
            if fn in ("c_lt", "c_gt", "c_le", "c_ge", "c_eq", "c_ne") and all(getattr(a, "is_number", False) and a.is_real for a in v.args):
                a, b = (float(x) for x in v.args)
                return {"c_lt": a < b, "c_gt": a > b, "c_le": a <= b, "c_ge": a >= b, "c_eq": a == b, "c_ne": a != b}[fn]
        return None

    def assign(self, lhs, v, env):
        lhs = c_strip(lhs)
        k = lhs["kind"]
        if k == "DeclRefExpr":
            env[lhs["referencedDecl"]["name"]] = v
            return
        if k == "ArraySubscriptExpr":
            base = c_strip(lhs["inner"][0])
            idx = self.expr(lhs["inner"][1], env)
            if base["kind"] == "DeclRefExpr":
                name = base["referencedDecl"]["name"]
                arr = env.get(name)
                if isinstance(arr, Ref):
                    arr = arr.env.setdefault(arr.name, {})
                if not isinstance(arr, dict):
                    arr = {}
                    env[name] = arr
                if not idx.is_Integer:
                    raise AnalysisError("nf: store to symbolic index %s" % c_text(lhs))
                arr[int(idx)] = v
                return
        if k == "UnaryOperator" and lhs["opcode"] == "*":
            p = self.expr(lhs["inner"][0], env)
            if isinstance(p, Ref):
                p.env[p.name] = v
                return
        if k == "MemberExpr":
            base = self.expr(lhs["inner"][0], env)
            if isinstance(base, Ref):
                st = base.env.setdefault(base.name, {})
                if not isinstance(st, dict):
                    st = {}
                    base.env[base.name] = st
                st[lhs["name"]] = v
                return
            b0 = c_strip(lhs["inner"][0])
            if b0["kind"] == "DeclRefExpr":
                st = env.setdefault(b0["referencedDecl"]["name"], {})
                if isinstance(st, dict):
                    st[lhs["name"]] = v
                    return
        raise AnalysisError("nf: unsupported store target %s" % c_text(lhs))

    # -- statements ----------------------------------------------------
    class Return(Exception):
        def __init__(self, value):
            self.value = value

    def block(self, stmts, env):
        for st in stmts:
            self.stmt(st, env)

    def stmt(self, st, env):
        k = st.get("kind")
        if k == "CompoundStmt":
            self.block(st.get("inner", []), env)
        elif k == "DeclStmt":
            for d in st.get("inner", []):
                if d.get("kind") == "VarDecl":
                    init = [x for x in d.get("inner", []) if x.get("kind", "").endswith(("Expr", "Operator", "Literal"))]
                    if init and init[0].get("kind") == "InitListExpr":
                        elems = [self.expr(x, env) for x in init[0].get("inner", [])]
                        ab = getattr(self, "abstract_arrays", None)
                        if ab and d["name"] in ab and len(ab[d["name"]]) == len(elems):
                            # order abstraction: the elements are replaced by symbols whose relative order `self.order` gives
                            self.abstracted = dict(zip(ab[d["name"]], elems))
                            elems = list(ab[d["name"]])
                        env[d["name"]] = dict(enumerate(elems))
                    elif init:
                        env[d["name"]] = self.expr(init[0], env)
                    elif "[" in d["type"]["qualType"]:
                        env[d["name"]] = {}
                    elif d["type"]["qualType"].split()[0] not in ("double", "int", "float", "const", "unsigned", "int32_t"):
                        env[d["name"]] = {}
        elif k == "ReturnStmt":
            v = self.expr(st["inner"][0], env) if st.get("inner") else None
            raise CInterp.Return(v)
        elif k == "ForStmt" and getattr(self, "sum_loops", False) and self._sum_loop(st, env):
            pass
        elif k == "ForStmt" and getattr(self, "unroll", 0) and self._unroll(st, env):
            pass
        elif k in ("ForStmt", "WhileStmt") and self.opaque_loops:
            self._havoc(st, env)
        elif k == "DoStmt":
            # do { ... } while (0)
            body, cond = st["inner"][0], st["inner"][1]
            c = c_strip(cond)
            if not (c["kind"] == "IntegerLiteral" and c["value"] == "0"):
                if self.opaque_loops:
                    self._havoc(st, env)
                    return
                raise AnalysisError("nf: real do-while loop")
            sub = env
            self.stmt(body, sub)
        elif k == "IfStmt":
            inner = st["inner"]
            cond, then = inner[0], inner[1]
            els = inner[2] if len(inner) > 2 else None
            t = self.decide(cond, env)
            if t is None and self.script is not None:
                i = len(self.trace)
                t = self.script[i] if i < len(self.script) else True
                self.trace.append((cond, self.expr(cond, env), t))
            if t is None:
                if self.opaque_loops:
                    self._havoc(st, env)
                    return
                raise AnalysisError("nf: undecided branch `%s`" % c_text(cond))
            if t:
                self.stmt(then, env)
            elif els is not None:
                self.stmt(els, env)
        elif k == "SwitchStmt":
            cond = st["inner"][0]
            key = c_text(cond)
            if key not in self.facts:
                raise AnalysisError("nf: undecided switch on %s" % key)
            want = self.facts[key]
            body = st["inner"][1]
            active = False
            for s in body.get("inner", []):
                s2 = s
                while s2.get("kind") in ("CaseStmt", "DefaultStmt"):
                    if s2["kind"] == "CaseStmt":
                        lab = c_strip(s2["inner"][0])
                        if lab.get("kind") == "IntegerLiteral" and int(lab["value"]) == want:
                            active = True
                        s2 = s2["inner"][-1]
                    else:
                        s2 = s2["inner"][-1]
                if active:
                    if s2.get("kind") == "BreakStmt":
                        return
                    self.stmt(s2, env)
        elif k == "NullStmt":
            pass
        elif k in ("BinaryOperator", "CompoundAssignOperator", "CallExpr", "UnaryOperator", "ParenExpr",
                   "ImplicitCastExpr", "CStyleCastExpr"):
            self.expr(st, env)
        else:
            raise AnalysisError("nf: C statement outside the fragment: %s" % k)

    def _sum_loop(self, st, env):
        """Summation loops `for (int j = 0; j < N; j++) { ...; acc += term; }`: the body is interpreted once with j symbolic and
        every accumulator as an input symbol; a term `W[j] * g` with g free of j sums to g * sum_W (a symbol named after the
        table, the bound being the loop's), a term free of j to N * term.  Returns False when the loop is not of that shape
        (the caller then falls back to havoc / refuses)."""
        parts = st.get("inner", [])
        if len(parts) < 5:
            return False
        init, cond, inc, body = parts[0], parts[2], parts[3], parts[4]
        if not init or init.get("kind") != "DeclStmt":
            return False
        vd = [x for x in init.get("inner", []) if x.get("kind") == "VarDecl"]
        if len(vd) != 1:
            return False
        jname = vd[0]["name"]
        ini = [x for x in vd[0].get("inner", []) if isinstance(x, dict) and x.get("kind")]
        if not ini or c_text(ini[0]).strip() != "0":
            return False
        ctxt = re.sub(r"\s+", "", c_text(cond)) if cond else ""
        m = re.match(r"^%s<(\w+)$" % re.escape(jname), ctxt)
        itxt = re.sub(r"\s+", "", c_text(inc)) if inc else ""
        if not m or itxt not in (jname + "++", "++" + jname):
            return False
        bound = m.group(1)
        # names assigned in the body that exist outside it
        declared, assigned = set(), set()
        stack = [body]
        while stack:
            n = stack.pop()
            if not isinstance(n, dict):
                continue
            k = n.get("kind")
            if k == "VarDecl":
                declared.add(n.get("name"))
            if (k == "BinaryOperator" and n.get("opcode") == "=") or k == "CompoundAssignOperator":
                t = c_strip(n["inner"][0])
                if t.get("kind") == "DeclRefExpr":
                    assigned.add(t["referencedDecl"]["name"])
                else:
                    return False          # stores through pointers/arrays inside the loop: not a plain summation
            if k in ("WhileStmt", "ReturnStmt", "BreakStmt", "ContinueStmt"):
                return False
            if k == "DoStmt" and not getattr(self, "nested_sums", False):
                return False
            if k in ("ForStmt", "IfStmt") and not getattr(self, "nested_sums", False):
                return False
            stack.extend(n.get("inner", []) or [])
        accs = sorted(assigned - declared)
        J = sp.Symbol("loop_" + jname, integer=True)
        sub = dict(env)
        sub[jname] = J
        ins = {}
        for a in accs:
            ins[a] = sp.Symbol("in_" + a, real=True)
            sub[a] = ins[a]
        try:
            self.stmt(body, sub)
        except CInterp.Return:
            return False
        Nsym = sym(bound) if bound not in env else env[bound]
        for a in accs:
            out = sp.expand(sub[a] - ins[a])
            if any(i in out.free_symbols for i in ins.values()):
                return False
            total = 0
            for add_ in sp.Add.make_args(out):
                indep, dep = add_.as_independent(J, as_Add=False)
                if dep == 1:
                    total += Nsym * indep
                elif getattr(getattr(dep, "func", None), "__name__", "") == "idx" and dep.args[1] == J:
                    total += indep * sp.Symbol("sum_%s_%s" % (dep.args[0], bound), real=True)
                else:
                    # a factor that depends on the index only through constant tables (weights, nodes) and numbers is a
                    # number: fold the sum over the literal table entries
                    tables = getattr(self, "tables", None)
                    if not tables or not bound.isdigit() or {str(x) for x in dep.free_symbols - {J}} - set(tables):
                        return False
                    lookups = [t for t in sp.preorder_traversal(dep) if getattr(getattr(t, "func", None), "__name__", "") == "idx"]
                    if any(str(t.args[0]) not in tables or t.args[1] != J for t in lookups):
                        return False
                    acc = 0.0
                    try:
                        for jv in range(int(bound)):
                            sub_ = {t: tables[str(t.args[0])][jv] for t in set(lookups)}
                            acc += float(dep.subs(sub_).subs(J, jv).evalf())
                    except Exception:
                        return False
                    total += indep * num(round(acc, 12))
            env[a] = (env[a] if a in env else sym(a)) + total
        return True

    def call(self, name, args):
        fn = self.functions[name]
        params = [p for p in fn["inner"] if p.get("kind") == "ParmVarDecl"]
        body = [p for p in fn["inner"] if p.get("kind") == "CompoundStmt"][0]
        env = {}
        for p, a in zip(params, args):
            env[p["name"]] = a
        self.depth += 1
        if self.depth > 12:
            raise AnalysisError("nf: call depth")
        try:
            self.stmt(body, env)
            return None
        except CInterp.Return as ret:
            return ret.value
        finally:
            self.depth -= 1


def enumerate_paths(run, limit=16):
    """Path enumeration over the undecided `if` statements of a C helper.  `run(interp_setup)` is called with a decision
    script and must return (trace, result) where trace is the interpreter's trace; every path (up to `limit`) is
    explored by flipping decisions depth-first.  Returns [(trace, result)]."""
    out = []
    todo = [[]]
    while todo:
        script = todo.pop()
        trace, result = run(script)
        out.append((trace, result))
        if len(out) > limit:
            raise AnalysisError("nf: more than %d paths" % limit)
        for i in range(len(script), len(trace)):
            todo.append([t[2] for t in trace[:i]] + [not trace[i][2]])
    return out


def path_assumptions(trace):
    """Equalities implied by the decisions of a path: {symbol: value} for `sym == value` conjuncts taken true (and
    `sym != value` taken false)."""
    subs = {}
    def conj(e, positive):
        fn = getattr(getattr(e, "func", None), "__name__", "")
        if fn == "c_and" and positive:
            for a in e.args:
                conj(a, True)
        elif fn == "c_or" and not positive:
            for a in e.args:
                conj(a, False)
        elif (fn == "c_eq" and positive) or (fn == "c_ne" and not positive):
            a, b = e.args
            if a.is_Symbol and not b.free_symbols:
                subs[a] = b
            elif b.is_Symbol and not a.free_symbols:
                subs[b] = a
    for _, val, choice in trace:
        conj(val, choice)
    return subs


def path_text(trace):
    return " && ".join(("" if ch else "!") + "(" + c_text(c) + ")" for c, _, ch in trace) or "always"


# ---------------------------------------------------------------------------
# helpers for NumPy straight-line code
# ---------------------------------------------------------------------------
class _StripBroadcast(ast.NodeTransformer):
    """x[:, None], x[None, :], x[None] -> x (pure broadcasting subscripts)."""
    def visit_Subscript(self, node):
        self.generic_visit(node)
        sl = node.slice
        elts = sl.elts if isinstance(sl, ast.Tuple) else [sl]
        def trivial(e):
            return (isinstance(e, ast.Slice) and e.lower is None and e.upper is None and e.step is None) or \
                   (isinstance(e, ast.Constant) and e.value is None)
        if all(trivial(e) for e in elts):
            return node.value
        return node


def strip_broadcast(node):
    import copy
    return _StripBroadcast().visit(copy.deepcopy(node))


def straightline_env(stmts, env=None, funcs=None, stop=None):
    """Evaluate simple `name = expr` statements in order into a symbolic environment.
    Tuple unpacking of a tuple display binds element-wise; anything else binds fresh symbols."""
    env = dict(env or {})
    for st in stmts:
        if stop is not None and st is stop:
            break
        if isinstance(st, ast.Assign) and len(st.targets) == 1:
            t = st.targets[0]
            if isinstance(t, ast.Name):
                try:
                    env[t.id] = py_expr(strip_broadcast(st.value), env, funcs)
                except AnalysisError:
                    env[t.id] = sym(t.id)
            elif isinstance(t, ast.Tuple) and isinstance(st.value, ast.Tuple) and len(t.elts) == len(st.value.elts):
                vals = [py_expr(strip_broadcast(v), env, funcs) for v in st.value.elts]
                for e, v in zip(t.elts, vals):
                    if isinstance(e, ast.Name):
                        env[e.id] = v
            elif isinstance(t, ast.Tuple):
                for e in t.elts:
                    if isinstance(e, ast.Name):
                        env[e.id] = sym(e.id)
        elif isinstance(st, ast.Try):
            # the `try: a, b = x / except TypeError: a = b = x` idiom: take the try body
            env = straightline_env(st.body, env, funcs, stop)
    return env
