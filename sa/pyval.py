"""E-val: value numbering of a Python function body.

A function (or a reference snippet written in the same notation) is folded, statement by statement, into symbolic
values over opaque atoms: one sympy expression per name / attribute / returned value.  Two bodies that differ only in
the names of temporaries, in how a formula is split over statements, in the order of independent statements, in
comments, logging or formatting, fold to equal values (compared with nf.equal, i.e. up to field algebra); an inserted
clamp, a dropped factor, a swapped operand or an extra in-place store changes the folded value.

This is global value numbering on the syntax tree, not execution: no branch is explored against a solver; an
undecided `if` becomes a `where(test, a, b)` value, a branch that ends in `raise` is a guard (recorded), a loop is an
opaque atom keyed by its own syntax and the values it reads.  Anything the fold cannot name precisely becomes an opaque
atom keyed by its syntax, which can only make two different bodies unequal (an alarm that the rule must then triage),
never equal.
"""
import ast
import hashlib
import re
import time
import sympy as sp
from .report import AnalysisError
from . import pyfacts as pf
from . import nf
from .nf import where, sym, num

NP_METHODS = {"sum", "mean", "min", "max", "any", "all", "prod", "cumsum", "argmin", "argmax", "dot", "std", "var", "clip", "nonzero",
              "cumprod", "round", "conj", "transpose"}
MUTATORS = {"pop", "append", "extend", "update", "setdefault", "sort", "remove", "insert", "clear", "fill", "resize", "popitem",
            "add", "discard", "reverse", "put", "itemset", "setflags", "write", "writelines", "close", "release", "seek"}
NOOP_CALLS = ("logging.", "logger.", "print", "warnings.", "log.", "sys.stdout", "sys.stderr")
F = sp.Function
_NEG = {"cmp_Lt": "cmp_GtE", "cmp_GtE": "cmp_Lt", "cmp_Gt": "cmp_LtE", "cmp_LtE": "cmp_Gt", "cmp_Eq": "cmp_NotEq",
        "cmp_NotEq": "cmp_Eq", "cmp_Is": "cmp_IsNot", "cmp_IsNot": "cmp_Is", "cmp_In": "cmp_NotIn", "cmp_NotIn": "cmp_In"}


_SIZE = {}
_HC = {}
RENAMES = {}       # new function name -> reference name (functions recognised as renamed, see refs.rename_map)


def size_of(v):
    """Tree size with memoisation on (hashable) sub-expressions."""
    try:
        got = _SIZE.get(v)
    except TypeError:
        return 1
    if got is not None:
        return got
    args = getattr(v, "args", ())
    n = 1
    for a in args:
        n += size_of(a)
        if n > 10 ** 7:
            break
    _SIZE[v] = n
    return n


def hcons(v, limit=0):
    """Name a value by the digest of its structure when it is larger than `limit` nodes."""
    if getattr(v, "is_Atom", True) or size_of(v) <= limit:
        return v
    name = "h_" + hashlib.sha1(sp.srepr(v).encode()).hexdigest()[:14]
    _HC[name] = v
    return sym(name)


def _okey(v):
    return str(v) if size_of(v) < 400 else str(hcons(v))


_SWAP = {"cmp_Gt": "cmp_Lt", "cmp_GtE": "cmp_LtE"}


def mk_cmp(opname, a, b):
    """Comparison in canonical form: > and >= are written as < and <= with the operands exchanged; the operands of the
    symmetric == and != are ordered."""
    name = "cmp_" + opname
    if name in _SWAP:
        return F(_SWAP[name])(b, a)
    if name in ("cmp_Eq", "cmp_NotEq") and _okey(b) < _okey(a):
        return F(name)(b, a)
    return F(name)(a, b)


def truth(v):
    """Canonical form of a value used as a condition: len(x) > 0, len(x) != 0, bool(x) -> x ; len(x) == 0 -> not x."""
    name = getattr(getattr(v, "func", None), "__name__", "")
    if name == "bool" and len(v.args) == 1:
        return truth(v.args[0])
    if name.startswith("cmp_") and len(v.args) == 2:
        a, b = v.args
        an = getattr(getattr(a, "func", None), "__name__", "")
        bn = getattr(getattr(b, "func", None), "__name__", "")
        if an == "len" and len(a.args) == 1 and b.is_Integer:
            x, k = a.args[0], int(b)
            if (name, k) in (("cmp_NotEq", 0),):
                return x
            if (name, k) in (("cmp_Eq", 0), ("cmp_Lt", 1), ("cmp_LtE", 0)):
                return mk_not(x)
        if bn == "len" and len(b.args) == 1 and a.is_Integer:
            # canonical forms of len(x) > 0, len(x) >= 1:  0 < len(x), 1 <= len(x)
            x, k = b.args[0], int(a)
            if (name, k) in (("cmp_Lt", 0), ("cmp_LtE", 1), ("cmp_NotEq", 0)):
                return x
            if (name, k) in (("cmp_Eq", 0),):
                return mk_not(x)
    if name in ("band", "bor"):
        return mk_bool(name, [truth(a) for a in v.args])
    if name == "bnot":
        return mk_not(truth(v.args[0]))
    return v


def mk_not(v):
    """Logical negation in canonical form (negated comparisons are flipped, double negation removed)."""
    name = getattr(getattr(v, "func", None), "__name__", "")
    if name == "bnot":
        return v.args[0]
    if name in _NEG:
        return mk_cmp(_NEG[name][4:], *v.args)
    if name == "band":
        return mk_bool("bor", [mk_not(a) for a in v.args])
    if name == "bor":
        return mk_bool("band", [mk_not(a) for a in v.args])
    return F("bnot")(v)


def _strcat(parts):
    """Ordered concatenation with adjacent literals merged; a single part is itself."""
    out = []
    for v in parts:
        t = str(v)
        if out and t[:1] in "'\"" and str(out[-1])[:1] in "'\"" and getattr(v, "is_Symbol", False) and getattr(out[-1], "is_Symbol", False):
            try:
                out[-1] = sym(repr(ast.literal_eval(str(out[-1])) + ast.literal_eval(t)))
                continue
            except Exception:
                pass
        out.append(v)
    return out[0] if len(out) == 1 else F("strcat")(*out)


def mk_bool(op, vals):
    """n-ary and/or with flattened, sorted, de-duplicated operands."""
    flat = []
    for v in vals:
        if getattr(getattr(v, "func", None), "__name__", "") == op:
            flat.extend(v.args)
        else:
            flat.append(v)
    uniq = []
    for v in sorted(flat, key=_okey):
        if v not in uniq:
            uniq.append(v)
    return uniq[0] if len(uniq) == 1 else F(op)(*uniq)


def mk_where(c, a, b):
    if a == b:
        return a
    if size_of(a) + size_of(b) > 4000:
        a, b = hcons(a, 400), hcons(b, 400)
    if size_of(c) > 2000:
        c = hcons(c)
    nc = mk_not(c)
    if _okey(nc) < _okey(c):
        return where(nc, b, a)
    return where(c, a, b)


def _digest(node):
    return hashlib.sha1(ast.dump(node).encode()).hexdigest()[:10]


class Result:
    def __init__(self, env, ret, guards, term):
        self.env, self.ret, self.guards, self.term = env, ret, guards, term

    def get(self, key):
        return self.env.get(key)


class PyVal:
    def __init__(self, funcs=None, facts=None, strip_broadcast=True, pure=(), exact=False):
        self.exact = exact             # exact: no broadcasting-subscript stripping, no identity simplification of casts
        self.funcs = funcs or {}
        self.facts = facts or {}       # test text -> bool
        self.strip = strip_broadcast and not exact
        self.pure = set(pure)          # call names whose statement-level calls do not mutate their arguments
        self.calls = []                # (call name, Call node, [positional values], {keyword: value}, value) in fold order
        self.inline = {}               # call name -> FunctionDef: helpers folded into their call sites
        self.depth = 0
        self.steps = 0                 # statements folded so far (budget against path blow-up)
        self.t0 = None
        self.hc = {}                   # hash-consed receiver histories: symbol name -> value
        self.pc = []                   # path condition: branch tests / loop heads enclosing the statement being folded
        self.effects = []              # (path condition tuple, call value) for every call, in fold order
        self.locals = set()            # names bound in the function being folded (parameters and assigned names)
        self.views = {}                # local name -> (root key, value of the view expression): the local aliases part of root

    def _hcons(self, v):
        """Name a non-trivial value by the digest of its structure (keeps histories of mutated objects small)."""
        return hcons(v, 3)

    def _under(self, cond, fn, *a):
        self.pc.append(cond)
        try:
            return fn(*a)
        finally:
            self.pc.pop()

    # ------------------------------------------------------------------ expressions
    def value(self, node, env):
        if self.strip:
            node = nf.strip_broadcast(node)
        return self._v(node, env)

    def _opaque(self, node, env, tag="py"):
        names = []
        for n in ast.walk(node):
            if isinstance(n, ast.Name) and isinstance(n.ctx, ast.Load) and n.id not in names:
                names.append(n.id)
        args = [env.get(nm, sym(nm)) for nm in sorted(names)]
        return F("%s_%s" % (tag, _digest(node)))(*args) if args else sym("%s_%s" % (tag, _digest(node)))

    def _tick(self):
        self.ticks = getattr(self, "ticks", 0) + 1
        if self.ticks % 400 == 0 and self.t0 is not None and time.time() - self.t0 > 15:
            raise AnalysisError("pyval: fold budget exceeded (time)")

    def _v(self, node, env):
        self._tick()
        key = pf.unparse(node)
        if key in env and not isinstance(node, ast.Constant):
            return env[key]
        if isinstance(node, ast.Constant):
            v = node.value
            if isinstance(v, (bool, int, float)):
                return num(v)
            if v is None:
                return sym("None")
            return sym(repr(v))
        if isinstance(node, ast.Name):
            if node.id in nf.PI_NAMES:
                return sp.pi
            if node.id == "inf":
                return sp.oo
            return sym(node.id)
        if isinstance(node, ast.Attribute):
            d = pf.dotted(node)
            if d in nf.PI_NAMES:
                return sp.pi
            if d in ("np.inf", "numpy.inf", "math.inf"):
                return sp.oo
            if d:
                # attribute of a tracked object value
                base = pf.unparse(node.value)
                if base in env and not isinstance(node.value, ast.Name):
                    return F("attr")(env[base], sym("." + node.attr))
                if isinstance(node.value, ast.Name) and node.value.id in env:
                    b = env[node.value.id]
                    if b != sym(node.value.id):
                        return F("attr")(b, sym("." + node.attr))
                return sym(d)
            return F("attr")(self._v(node.value, env), sym("." + node.attr))
        if isinstance(node, ast.BinOp):
            l, r = self._v(node.left, env), self._v(node.right, env)
            op = node.op
            # string building: "a" + x, "%s_%s" % (x, y) and f"{x}_{y}" are one ordered concatenation
            def is_cat(v):
                return getattr(getattr(v, "func", None), "__name__", "") == "strcat"
            def is_strlit(n):
                return isinstance(n, ast.Constant) and isinstance(n.value, str)
            def is_strsym(v):
                return getattr(v, "is_Symbol", False) and str(v)[:1] in "'\""
            if isinstance(op, ast.Add) and (is_strlit(node.left) or is_strlit(node.right) or is_cat(l) or is_cat(r) or is_strsym(l) or is_strsym(r)):
                parts = (list(l.args) if is_cat(l) else [l]) + (list(r.args) if is_cat(r) else [r])
                return _strcat(parts)
            if isinstance(op, ast.Mod) and is_strlit(node.left) and re.fullmatch(r"(?:[^%]|%s)*", node.left.value):
                args = list(node.right.elts) if isinstance(node.right, ast.Tuple) else [node.right]
                pieces = re.split(r"(%s)", node.left.value)
                if pieces.count("%s") == len(args) and not isinstance(node.right, (ast.Dict, ast.Starred)):
                    parts = []
                    for pc in pieces:
                        if pc == "%s":
                            v = self._v(args.pop(0), env)
                            parts += list(v.args) if is_cat(v) else [v]
                        elif pc:
                            parts.append(sym(repr(pc)))
                    return _strcat(parts)
            try:
                if isinstance(op, ast.Add): return l + r
                if isinstance(op, ast.Sub): return l - r
                if isinstance(op, ast.Mult): return l * r
                if isinstance(op, ast.Div): return l / r
                if isinstance(op, ast.Pow): return l ** r
            except TypeError:
                pass
            if isinstance(op, ast.MatMult):
                return F("np_dot")(l, r)
            if isinstance(op, ast.BitAnd):
                return mk_bool("band", [l, r])
            if isinstance(op, ast.BitOr):
                return mk_bool("bor", [l, r])
            return F("op_" + type(op).__name__)(l, r)
        if isinstance(node, ast.UnaryOp):
            v = self._v(node.operand, env)
            if isinstance(node.op, ast.USub): return -v
            if isinstance(node.op, ast.UAdd): return v
            return mk_not(truth(v))
        if isinstance(node, ast.BoolOp):
            vals = []
            pushed = 0
            try:
                for x in node.values:
                    v = truth(self._v(x, env))
                    vals.append(v)
                    # short circuit: the remaining operands are evaluated only when this one is true (and) / false (or)
                    self.pc.append(v if isinstance(node.op, ast.And) else mk_not(v))
                    pushed += 1
            finally:
                for _ in range(pushed):
                    self.pc.pop()
            return mk_bool("b" + type(node.op).__name__.lower(), vals)
        if isinstance(node, ast.Compare):
            l = self._v(node.left, env)
            out = None
            for op, c in zip(node.ops, node.comparators):
                rv = self._v(c, env)
                if isinstance(op, (ast.In, ast.NotIn)) and getattr(getattr(rv, "func", None), "__name__", "") == "keysof":
                    rv = rv.args[0]
                t = mk_cmp(type(op).__name__, l, rv)
                out = t if out is None else mk_bool("band", [out, t])
                l = rv
            return out
        if isinstance(node, ast.IfExp):
            t = self.facts.get(pf.unparse(node.test))
            if t is True:
                return self._v(node.body, env)
            if t is False:
                return self._v(node.orelse, env)
            c = truth(self._v(node.test, env))
            return mk_where(c, self._under(c, self._v, node.body, env), self._under(mk_not(c), self._v, node.orelse, env))
        if isinstance(node, (ast.Tuple, ast.List)):
            return F("seq")(*[self._v(e, env) for e in node.elts]) if node.elts else sym("seq0")
        if isinstance(node, ast.Starred):
            return F("star")(self._v(node.value, env))
        if isinstance(node, ast.Subscript):
            base = self._v(node.value, env)
            sl = node.slice
            if isinstance(sl, ast.Constant) and isinstance(sl.value, int) and getattr(base, "func", None) == F("seq"):
                k = sl.value
                if -len(base.args) <= k < len(base.args):
                    return base.args[k]
            return F("idx")(base, self._slice(sl, env))
        if isinstance(node, ast.Call):
            return self._call(node, env)
        if isinstance(node, (ast.Yield, ast.YieldFrom, ast.Await)):
            v = self._v(node.value, env) if node.value is not None else sym("None")
            self.effects.append((tuple(self.pc), "yield!", F(type(node).__name__.lower())(hcons(v, 40))))
            return F("sent")(hcons(v, 40))
        if isinstance(node, ast.Lambda):
            sub = dict(env)
            a = node.args
            for k, p in enumerate(a.posonlyargs + a.args + a.kwonlyargs):
                sub[p.arg] = sym("la%d" % k)
            return F("lam")(sp.Integer(len(a.args)), self._v(node.body, sub))
        if isinstance(node, (ast.ListComp, ast.GeneratorExp, ast.SetComp, ast.DictComp)):
            sub = dict(env)
            gens = []
            n = 0
            for g in node.generators:
                it = self._v(g.iter, sub)
                for e in ast.walk(g.target):
                    if isinstance(e, ast.Name):
                        sub[e.id] = sym("c%d" % n)
                        n += 1
                gens.append(F("gen")(it, *[self._v(c, sub) for c in g.ifs]))
            if isinstance(node, ast.DictComp):
                elt = F("kv")(self._v(node.key, sub), self._v(node.value, sub))
            else:
                elt = self._v(node.elt, sub)
            return F("comp")(elt, *gens)
        if isinstance(node, ast.Dict):
            items = []
            for k, v in zip(node.keys, node.values):
                items.append(F("kv")(self._v(k, env) if k is not None else sym("**"), self._v(v, env)))
            return F("dict")(*items) if items else sym("dict0")
        if isinstance(node, ast.JoinedStr):
            parts = [self._v(x.value, env) if isinstance(x, ast.FormattedValue) else sym(repr(x.value)) for x in node.values]
            if all(not isinstance(x, ast.FormattedValue) or (x.conversion == -1 and x.format_spec is None) for x in node.values):
                return _strcat(parts)
            return F("fstr")(*parts)
        return self._opaque(node, env)

    def _slice(self, sl, env):
        if isinstance(sl, ast.Slice):
            parts = [self._v(x, env) if x is not None else sym("_") for x in (sl.lower, sl.upper, sl.step)]
            return F("slice")(*parts)
        if isinstance(sl, ast.Tuple):
            return F("seq")(*[self._slice(e, env) for e in sl.elts])
        return self._v(sl, env)

    def _call(self, node, env):
        name = pf.call_name(node) or ""
        if RENAMES and name:
            head, _, last = name.rpartition(".")
            if last in RENAMES:
                name = (head + "." if head else "") + RENAMES[last]
        args = [self._v(a, env) for a in node.args]
        kwv = {(k.arg or "**"): self._v(k.value, env) for k in node.keywords}
        v = self._call_value(node, env, name, args, kwv)
        self.calls.append((name, node, args, kwv, v))
        for k in node.keywords:
            if k.arg == "out" and isinstance(k.value, (ast.Name, ast.Attribute, ast.Subscript)):
                self._store(k.value, F("out_of")(hcons(v, 40)), env)     # numpy writes the result into `out`
        if self.depth == 0 or name not in self.inline:
            self.effects.append((tuple(self.pc), name, v))
        # a mutating method anywhere in an expression updates its receiver
        f = node.func
        if isinstance(f, ast.Attribute) and f.attr in MUTATORS and isinstance(f.value, (ast.Name, ast.Attribute)) \
                and not name.split(".")[0] in ("np", "numpy", "os", "math", "re"):
            recv_before = self._hcons(self._v(f.value, env))
            keep = self.views.get(f.value.id) if isinstance(f.value, ast.Name) else None
            self._store(f.value, F("after_" + f.attr)(recv_before, *args), env)
            if keep is not None:
                self.views[f.value.id] = keep
                self._touch_root(f.value.id, sym("method_" + f.attr), F("seq")(*args) if args else sym("seq0"), env)
        return v

    def _inline_call(self, fn, args, kwv, skip_self):
        a = fn.args
        pos = [p.arg for p in a.posonlyargs + a.args]
        if skip_self and pos:
            pos = pos[1:]
        sub = {}
        defaults = dict(zip(reversed(pos), reversed([d for d in a.defaults])))
        for k, p in enumerate(pos):
            if k < len(args):
                sub[p] = args[k]
            elif p in kwv:
                sub[p] = kwv[p]
            elif p in defaults:
                sub[p] = self._v(defaults[p], {})
            else:
                return None
        for p, d in zip(a.kwonlyargs, a.kw_defaults):
            if p.arg in kwv:
                sub[p.arg] = kwv[p.arg]
            elif d is not None:
                sub[p.arg] = self._v(d, {})
            else:
                return None
        if a.vararg or a.kwarg or len(args) > len(pos) or set(kwv) - set(pos) - {p.arg for p in a.kwonlyargs}:
            return None
        body = list(fn.body)
        if body and isinstance(body[0], ast.Expr) and isinstance(body[0].value, ast.Constant):
            body = body[1:]
        self.depth += 1
        try:
            r = self.run(body, sub)
        finally:
            self.depth -= 1
        return r.ret if r.ret is not None else sym("None")

    def _call_value(self, node, env, name, args, kwv):
        short = name.split(".")[-1]
        # type-directed idioms that mean the same for the dicts / arrays they are applied to in this library
        f0 = node.func
        if isinstance(f0, ast.Attribute) and not node.args and not node.keywords and f0.attr in ("copy", "keys") \
                and name.split(".")[0] not in ("np", "numpy", "copy"):
            recv = self._v(f0.value, env)
            return F("copyof" if f0.attr == "copy" else "keysof")(recv)
        if isinstance(f0, ast.Attribute) and f0.attr in NP_METHODS and name.split(".")[0] not in ("np", "numpy", "math", "os", "re", "sys"):
            # x.sum(axis=0) is np.sum(x, axis=0): the method and function spellings of the numpy reductions are one value
            recv = self._v(f0.value, env)
            fake = ast.Call(func=ast.Attribute(value=ast.Name("np", ast.Load()), attr=f0.attr, ctx=ast.Load()),
                            args=[f0.value] + list(node.args), keywords=node.keywords)
            return self._call_value(fake, env, "np." + f0.attr, [recv] + list(args), kwv)
        if name == "dict" and not args and kwv and "**" not in kwv:
            return F("dict")(*[F("kv")(sym(repr(k)), v) for k, v in kwv.items()])
        if not kwv and len(args) == 1:
            a0 = args[0]
            if name in ("dict", "copy.copy", "copy"):
                return F("copyof")(a0)
            if getattr(getattr(a0, "func", None), "__name__", "") == "keysof" and name in ("list", "sorted", "set", "tuple", "len", "iter", "enumerate", "frozenset"):
                args = [a0.args[0]]
        if isinstance(node.func, ast.Name) and node.func.id in env and env[node.func.id] != sym(node.func.id) \
                and node.func.id not in self.inline:
            # a local name bound to a function value (lambda, nested def, table lookup): the value is what is called
            return F("calldyn")(hcons(env[node.func.id], 40), *args, *[F("kw")(sym("=" + k), v) for k, v in sorted(kwv.items())])
        if name in self.inline and self.depth < 3:
            v = self._inline_call(self.inline[name], args, kwv, skip_self=name.startswith("self."))
            if v is not None:
                return v
        kws = [F("kw")(sym("=" + k), v) for k, v in sorted(kwv.items())]
        if not kws:
            if name in self.funcs:
                return self.funcs[name](*args)
            if short in self.funcs:
                return self.funcs[short](*args)
            try:
                if short in nf._FUNCS and (name == short or name.split(".")[0] in ("np", "numpy", "math", "sp", "scipy", "special")) \
                        and not (self.exact and short in ("asarray", "float", "double")):
                    return nf._FUNCS[short](*args)
                if short == "clip" and len(args) == 3:
                    return nf.clipf(*args)
                if short == "where" and len(args) == 3:
                    return where(*args)
            except TypeError:
                pass
        if name:
            # method call on a tracked object: the receiver's value takes part
            f = node.func
            if isinstance(f, ast.Attribute):
                recv_key = pf.unparse(f.value)
                recv = env.get(recv_key)
                if recv is not None and recv != sym(recv_key):
                    return F("m_" + f.attr)(self._hcons(recv), *args, *kws)
            return F(name.replace(".", "_"))(*args, *kws)
        return F("calldyn")(self._v(node.func, env), *args, *kws)

    # ------------------------------------------------------------------ statements
    def run(self, stmts, env=None):
        """Fold a statement list.  Returns Result(env, ret, guards, term) with term in (None, 'return', 'raise')."""
        env = dict(env or {})
        guards = []
        for i, st in enumerate(stmts):
            self.steps += 1
            if self.t0 is None:
                self.t0 = time.time()
            if self.steps > 20000 or (self.steps % 50 == 0 and time.time() - self.t0 > 15):
                raise AnalysisError("pyval: fold budget exceeded (too many paths)")
            if isinstance(st, ast.Return):
                v = self.value(st.value, env) if st.value is not None else sym("None")
                if getattr(self, "loop_depth", 0) > 0:      # (a return at the top level is compared through the merged value)
                    self.effects.append((tuple(self.pc), "return!", F("returns")(hcons(v, 40))))
                return Result(env, v, guards, "return")
            if isinstance(st, ast.Raise):
                return Result(env, None, guards, "raise")
            if isinstance(st, (ast.Break, ast.Continue)):
                env["__flow"] = F(type(st).__name__.lower())(env.get("__flow", sp.Integer(0)))
                return Result(env, None, guards, "loopexit")
            if isinstance(st, (ast.With, ast.AsyncWith)) and self._terminates(st.body):
                for it in st.items:
                    if it.optional_vars is not None:
                        self._store(it.optional_vars, F("enter")(self.value(it.context_expr, env)), env)
                    else:
                        self.value(it.context_expr, env)
                r = self.run(list(st.body) + list(stmts[i + 1:]), env)
                r.guards = guards + r.guards
                return r
            if isinstance(st, ast.Try) and self._terminates(st.body) and not self._terminates_raise_only(st.body):
                r = self.run(list(st.body) + list(st.finalbody) + list(stmts[i + 1:]), env)
                r.guards = guards + r.guards
                return r
            if isinstance(st, ast.If):
                rest = stmts[i + 1:]
                out = self._if(st, rest, env, guards)
                if out is not None:
                    return out
                continue
            self._simple(st, env, guards)
        return Result(env, None, guards, None)

    def _terminates(self, stmts, kinds=(ast.Return, ast.Raise, ast.Break, ast.Continue)):
        """Does the block contain a return/raise at any depth, or a break/continue of the enclosing loop?"""
        def walk(block, in_loop):
            for st in block:
                if isinstance(st, (ast.Return, ast.Raise)) and isinstance(st, kinds):
                    return True
                if isinstance(st, (ast.Break, ast.Continue)) and not in_loop and isinstance(st, kinds):
                    return True
                if isinstance(st, (ast.FunctionDef, ast.AsyncFunctionDef, ast.ClassDef)):
                    continue
                inner_loop = in_loop or isinstance(st, (ast.For, ast.While, ast.AsyncFor))
                for field in ("body", "orelse", "finalbody"):
                    blk = getattr(st, field, None)
                    if isinstance(blk, list) and blk and isinstance(blk[0], ast.stmt) and walk(blk, inner_loop):
                        return True
                for h in getattr(st, "handlers", []) or []:
                    if walk(h.body, inner_loop):
                        return True
            return False
        return walk(list(stmts), False)

    def _terminates_raise_only(self, stmts):
        return not self._terminates(stmts, kinds=(ast.Return, ast.Break, ast.Continue))

    def _if(self, st, rest, env, guards):
        """Returns a final Result when the `if` was handled by continuation splitting, else None (env updated)."""
        test = pf.unparse(st.test)
        fact = self.facts.get(test)
        if fact is True:
            branches = [(st.body, None)]
        elif fact is False:
            branches = [(st.orelse, None)]
        else:
            branches = None
        if branches is not None:
            body = branches[0][0]
            if self._terminates(body):
                r = self.run(list(body) + list(rest), env)
                r.guards = guards + r.guards
                return r
            r = self.run(body, env)
            env.clear(); env.update(r.env)
            guards.extend(r.guards)
            return None
        c = truth(self.value(st.test, env))
        nc = mk_not(c)
        if self._terminates(st.body) or self._terminates(st.orelse):
            r1 = self._under(c, self.run, list(st.body) + list(rest), env)
            r2 = self._under(nc, self.run, list(st.orelse) + list(rest), env)
            if r1.term == "raise" and r2.term != "raise":
                r2.guards = guards + [F("guard")(c)] + r2.guards
                return r2
            if r2.term == "raise" and r1.term != "raise":
                r1.guards = guards + [F("guard")(nc)] + r1.guards
                return r1
            return self._merge(c, r1, r2, guards)
        r1 = self._under(c, self.run, st.body, env)
        r2 = self._under(nc, self.run, st.orelse, env)
        m = self._merge(c, r1, r2, [])
        env.clear(); env.update(m.env)
        guards.extend(m.guards)
        return None

    def _merge(self, c, r1, r2, guards):
        env = {}
        for k in set(r1.env) | set(r2.env):
            a = r1.env.get(k, sym(k))
            b = r2.env.get(k, sym(k))
            env[k] = mk_where(c, a, b)
        if r1.ret is None and r2.ret is None:
            ret = None
        else:
            a = r1.ret if r1.ret is not None else sym("None")
            b = r2.ret if r2.ret is not None else sym("None")
            ret = mk_where(c, a, b)
        g = list(guards)
        for x in r1.guards:
            g.append(x if x in r2.guards else F("when")(c, x))
        for x in r2.guards:
            if x not in r1.guards:
                g.append(F("when")(mk_not(c), x))
        term = r1.term if r1.term == r2.term else ("return" if "return" in (r1.term, r2.term) and None not in (r1.term, r2.term) else None)
        return Result(env, ret, g, term)

    VIEW_METHODS = {"reshape", "ravel", "view", "transpose", "squeeze", "swapaxes", "T", "real", "imag", "flat"}
    VIEW_FUNCS = {"np.asarray", "asarray", "np.reshape", "np.ravel", "np.transpose", "np.atleast_1d", "np.atleast_2d", "np.squeeze"}

    def _view_root(self, node):
        """(root key, True) when `node` is an expression that may alias (be a view of) a named object."""
        if isinstance(node, ast.Name):
            if node.id in self.views:
                return self.views[node.id][0]
            return node.id
        if isinstance(node, ast.Attribute):
            if node.attr in self.VIEW_METHODS:
                return self._view_root(node.value)
            d = pf.dotted(node)
            return d
        if isinstance(node, ast.Subscript):
            return self._view_root(node.value)
        if isinstance(node, ast.Call):
            name = pf.call_name(node) or ""
            if isinstance(node.func, ast.Attribute) and node.func.attr in self.VIEW_METHODS and name.split(".")[0] not in ("np", "numpy"):
                return self._view_root(node.func.value)
            if name in self.VIEW_FUNCS and node.args:
                return self._view_root(node.args[0])
        if isinstance(node, ast.IfExp):
            return self._view_root(node.body) or self._view_root(node.orelse)
        return None

    def _note_view(self, name, node, v, env):
        prev = self.views.pop(name, None)
        if isinstance(node, ast.Name):
            if node.id == name and prev is not None:
                self.views[name] = prev
            elif node.id in self.views:
                self.views[name] = self.views[node.id]
            return
        if prev is not None:
            self.views[name] = prev          # (visible to _view_root while the new binding is resolved)
        root = self._view_root(node)
        self.views.pop(name, None)
        if root and (root != name or prev is not None):
            self.views[name] = (root if root != name else prev[0], hcons(v, 40))

    def _touch_root(self, name, how, v, env):
        """A write through local `name` that aliases part of another object also writes that object."""
        if name in self.views:
            root, view = self.views[name]
            env[root] = F("store_in")(hcons(env.get(root, sym(root)), 40), view, how, hcons(v, 40))

    def _attr_written(self, target, v, env):
        """Attribute `target` (x.a, x[i].a, x.a.b ...) now holds v: the object it belongs to changes with it."""
        rootname = target.value
        while isinstance(rootname, (ast.Attribute, ast.Subscript)):
            rootname = rootname.value
        if not isinstance(rootname, ast.Name):
            return
        if rootname.id in self.views:
            self._touch_root(rootname.id, sym(pf.unparse(target)), v, env)
        root = target.value
        if isinstance(root, ast.Name):
            if root.id != "self" and root.id in env and env[root.id] != sym(root.id):
                # an object built here and handed on later carries the attributes set on it (order-insensitive)
                cur = env[root.id]
                base, attrs = cur, {}
                if getattr(cur, "func", None) == F("withattrs"):
                    base = cur.args[0]
                    attrs = {str(a.args[0]): a for a in cur.args[1:]}
                attrs["." + target.attr] = F("kv")(sym("." + target.attr), hcons(v, 40))
                env[root.id] = F("withattrs")(base, *[attrs[k] for k in sorted(attrs)])
            return
        # x[i].a = v / x.b.a = v: the object reached from the named root is written
        node = target.value
        while isinstance(node, ast.Attribute) and not isinstance(node.value, ast.Name):
            node = node.value
        while isinstance(node, ast.Subscript):
            node = node.value
        rk = pf.unparse(node)
        env[rk] = F("store_in")(hcons(env.get(rk, sym(rk)), 40), sym(pf.unparse(target)), hcons(v, 40))
        if isinstance(node, ast.Attribute) and isinstance(node.value, ast.Name) and node.value.id not in ("self", "cls"):
            # ... and so is the local object that holds it
            self._attr_written(node, env[rk], env)

    def _store(self, target, v, env):
        if isinstance(target, ast.Name):
            env[target.id] = v
        elif isinstance(target, ast.Attribute):
            env[pf.unparse(target)] = v
            self._attr_written(target, v, env)
        elif isinstance(target, (ast.Tuple, ast.List)):
            for k, e in enumerate(target.elts):
                if getattr(v, "func", None) == F("seq") and len(v.args) == len(target.elts):
                    self._store(e, v.args[k], env)
                else:
                    self._store(e, F("item")(v, sp.Integer(k)), env)
        elif isinstance(target, ast.Subscript):
            base_key = pf.unparse(target.value)
            sl = nf.strip_broadcast(target.slice) if self.strip else target.slice
            cur = self._v(target.value, env)
            slv = self._slice(sl, env)
            env[base_key] = F("store")(cur, slv, v)
            if isinstance(target.value, ast.Name):
                self._touch_root(target.value.id, slv, v, env)
            else:
                # a store through x.a[i][j] / x[i][j] writes the object named by the dotted root as well
                node, path = target.value, [slv]
                while isinstance(node, ast.Subscript):
                    path.append(self._slice(node.slice, env))
                    node = node.value
                rk = pf.unparse(node)
                if rk != base_key:
                    env[rk] = F("store_in")(hcons(env.get(rk, sym(rk)), 40), F("seq")(*reversed(path)), hcons(v, 40))
                if isinstance(node, ast.Attribute):
                    self._attr_written(node, env[rk], env)
                rootname = node
                while isinstance(rootname, ast.Attribute):
                    rootname = rootname.value
                if isinstance(rootname, ast.Name) and rootname.id in self.views:
                    self._touch_root(rootname.id, F("seq")(sym(rk), *reversed(path)), v, env)
        elif isinstance(target, ast.Starred):
            self._store(target.value, F("star")(v), env)

    def _simple(self, st, env, guards):
        if isinstance(st, ast.Assign):
            v = self.value(st.value, env)
            for t in st.targets:
                self._store(t, v, env)
                if isinstance(t, ast.Name):
                    self._note_view(t.id, st.value, v, env)
        elif isinstance(st, ast.AnnAssign):
            if st.value is not None:
                self._store(st.target, self.value(st.value, env), env)
        elif isinstance(st, ast.AugAssign):
            cur = self._v(nf.strip_broadcast(st.target) if self.strip else st.target, env)
            rhs = self.value(st.value, env)
            fake = ast.BinOp(left=ast.Name("__cur", ast.Load()), op=st.op, right=ast.Name("__rhs", ast.Load()))
            v = self._v(fake, {"__cur": cur, "__rhs": rhs})
            keep = self.views.get(st.target.id) if isinstance(st.target, ast.Name) else None
            self._store(st.target, v, env)
            if keep is not None:
                # in-place operator on an alias: the aliased object is written, and the name stays an alias
                self.views[st.target.id] = keep
                self._touch_root(st.target.id, sym("inplace_" + type(st.op).__name__), v, env)
        elif isinstance(st, ast.Expr):
            if isinstance(st.value, ast.Constant):
                return
            if isinstance(st.value, ast.Call):
                name = pf.call_name(st.value) or ""
                if name.startswith(NOOP_CALLS) or name in self.pure:
                    return
                f = st.value.func
                v = self._call(st.value, env)
                root = f
                while isinstance(root, (ast.Attribute, ast.Subscript)):
                    root = root.value
                is_obj = isinstance(root, ast.Name) and (root.id in ("self", "cls") or root.id in env or root.id in self.locals)
                if isinstance(f, ast.Attribute) and is_obj:
                    # obj.method(...) as a statement: obj is updated by the call
                    if isinstance(f.value, (ast.Name, ast.Attribute)):
                        if f.attr not in MUTATORS:      # (mutators were recorded when the call was evaluated)
                            self._store(f.value, F("after_" + f.attr)(self._hcons(self._v(f.value, env)), self._hcons(v)), env)
                elif not name.startswith(PURE_PREFIX) and name not in PURE_NAMES:
                    for a in st.value.args:
                        if isinstance(a, (ast.Name, ast.Attribute)):
                            self._store(a, F("after_call")(self._hcons(self._v(a, env)), self._hcons(v)), env)
                return
            self.value(st.value, env)     # yields / awaits are recorded as effects; anything else has no effect
        elif isinstance(st, (ast.For, ast.While, ast.AsyncFor)):
            self._loop(st, env, guards)
        elif isinstance(st, ast.Try):
            r = self.run(st.body, env)
            alts = [self._under(sym("exc%d" % k), self.run, h.body, env) for k, h in enumerate(st.handlers)]
            cur = r
            for k, a in enumerate(alts):
                if a.term == "raise":
                    continue
                cur = self._merge(sym("exc%d" % k), a, cur, [])
            env.clear(); env.update(cur.env)
            guards.extend(cur.guards)
            if st.finalbody:
                r = self.run(st.finalbody, env)
                env.clear(); env.update(r.env)
        elif isinstance(st, (ast.With, ast.AsyncWith)):
            for it in st.items:
                if it.optional_vars is not None:
                    self._store(it.optional_vars, F("enter")(self.value(it.context_expr, env)), env)
            r = self.run(st.body, env)
            env.clear(); env.update(r.env)
            guards.extend(r.guards)
        elif isinstance(st, ast.Assert):
            guards.append(F("guard")(mk_not(truth(self.value(st.test, env)))))
        elif isinstance(st, (ast.FunctionDef, ast.AsyncFunctionDef)):
            env[st.name] = self._nested_def(st, env)
        elif isinstance(st, ast.ClassDef):
            env[st.name] = self._opaque(st, env, "class")
        elif isinstance(st, ast.Delete):
            for t in st.targets:
                if isinstance(t, ast.Subscript):
                    self._store(t, sym("deleted"), env)
                else:
                    env[pf.unparse(t)] = sym("deleted")
        elif isinstance(st, (ast.Break, ast.Continue)):
            env["__flow"] = F(type(st).__name__.lower())(env.get("__flow", sp.Integer(0)))
        elif isinstance(st, (ast.Pass, ast.Import, ast.ImportFrom, ast.Global, ast.Nonlocal)):
            pass
        else:
            raise AnalysisError("pyval: statement outside the fragment: %s" % type(st).__name__)

    def _nested_def(self, fn, env):
        """A nested function as a value: parameters positional, body folded in the defining environment."""
        self.def_depth = getattr(self, "def_depth", 0) + 1
        d = self.def_depth
        sub = dict(env)
        a = fn.args
        allp = a.posonlyargs + a.args + ([a.vararg] if a.vararg else []) + a.kwonlyargs + ([a.kwarg] if a.kwarg else [])
        for k, p in enumerate(allp):
            sub[p.arg] = sym("arg%d_%d" % (d, k))
        body = list(fn.body)
        if body and isinstance(body[0], ast.Expr) and isinstance(body[0].value, ast.Constant):
            body = body[1:]
        e0 = len(self.effects)
        try:
            r = self._under(F("in_def")(sym(fn.name)), self.run, body, sub)
        finally:
            self.def_depth -= 1
        inner = [hcons(x[2], 3) for x in self.effects[e0:]]
        del self.effects[e0:]
        defaults = [self._v(x, env) for x in a.defaults] + [self._v(x, env) for x in a.kw_defaults if x is not None]
        return F("deffn")(sp.Integer(len(allp)), r.ret if r.ret is not None else sym("None"), F("seq")(*inner) if inner else sym("seq0"),
                          F("seq")(*defaults) if defaults else sym("seq0"), F("seq")(*r.guards) if r.guards else sym("seq0"))

    def _loop(self, st, env, guards=None):
        targets = []
        if isinstance(st, (ast.For, ast.AsyncFor)):
            for e in ast.walk(st.target):
                if isinstance(e, ast.Name):
                    targets.append(e.id)
        self.loop_depth = getattr(self, "loop_depth", 0) + 1
        d = self.loop_depth
        saved_views = dict(self.views)
        try:
            head = self.value(st.iter, env) if targets or isinstance(st, (ast.For, ast.AsyncFor)) else None
            if head is not None and getattr(getattr(head, "func", None), "__name__", "") == "keysof":
                head = head.args[0]
            iter_root = self._view_root(st.iter) if isinstance(st, (ast.For, ast.AsyncFor)) else None
            if isinstance(st, (ast.For, ast.AsyncFor)) and isinstance(st.iter, ast.Call):
                # enumerate(x) / zip(x, y) / x.items() / sorted(x) ...: elements still belong to the first named argument
                for a in list(st.iter.args) + ([st.iter.func.value] if isinstance(st.iter.func, ast.Attribute) else []):
                    iter_root = iter_root or self._view_root(a)

            def fold_body(carried):
                sub = dict(env)
                for k, t in enumerate(targets):
                    sub[t] = sym("it%d_%d" % (d, k))
                    if iter_root:
                        self.views[t] = (iter_root, sym("it%d_%d" % (d, k)))
                for w in carried:
                    sub[w] = sym("carry%d:%s" % (d, w))
                hd = head
                if isinstance(st, ast.While):
                    hd = truth(self.value(st.test, sub))
                return hd, sub, self._under(F("in_loop")(hd), self.run, list(st.body), sub)
            # discovery pass: which names / objects does the body write (including through aliases)?
            e0, c0, steps0 = len(self.effects), len(self.calls), self.steps
            _, sub0, r0 = fold_body([])
            del self.effects[e0:]
            del self.calls[c0:]
            carried = sorted(k for k in r0.env if not k.startswith("__") and k not in targets and r0.env[k] != sub0.get(k, None))
            head, sub, r = fold_body(carried)
        finally:
            self.loop_depth -= 1
            self.views = saved_views
        # carried variables keep their own name in the carry symbol: a temporary that is written before it is read never
        # mentions its symbol, so adding or removing temporaries does not disturb the other variables
        real = set()
        for v in list(r.env.values()):
            try:
                real |= {str(a) for a in v.free_symbols}
            except AttributeError:
                pass
        real = [w for w in carried if "carry%d:%s" % (d, w) in real]
        flow = r.env.get("__flow", sp.Integer(0))
        # the recurrence system: a variable's value after the loop depends on how the variables its update mentions evolve;
        # each value carries the closure of that dependency (dead temporaries stay out of everybody else's closure)
        csym = {w: sym("carry%d:%s" % (d, w)) for w in carried}
        upd = {w: r.env.get(w, sym("unchanged")) for w in carried}
        names_of = {str(v): w for w, v in csym.items()}

        def mentioned(e):
            try:
                return {names_of[str(a)] for a in e.free_symbols if str(a) in names_of}
            except AttributeError:
                return set()
        deps = {w: mentioned(upd[w]) for w in carried}
        init = {w: env.get(w, sym("unset")) for w in carried}

        def closure(start):
            seen, work = set(), list(start)
            while work:
                w = work.pop()
                if w in seen:
                    continue
                seen.add(w)
                work.extend(deps.get(w, ()))
            return seen

        def system(ws):
            ent = [F("kv")(csym[w], hcons(upd[w], 40), hcons(init[w], 40)) for w in sorted(ws)]
            return hcons(F("rec")(*ent), 3) if ent else sym("rec0")
        for w in carried:
            env_w_init = init[w] if w in real else sym("fresh")
            env[w] = F("loop")(head, upd[w], env_w_init, flow, system(closure(deps[w]) | ({w} if w in deps[w] else set())))
        for i in range(e0, len(self.effects)):
            pc, nm, v = self.effects[i]
            ws = mentioned(v)
            for c in pc:
                ws |= mentioned(c)
            if ws:
                self.effects[i] = (pc, nm, F("in_sys")(v, system(closure(ws))))
        for t in targets:
            env[t] = F("last")(head, sym("@" + t))
        if guards is not None:
            for g in r.guards:
                guards.append(F("in_loop")(head, g))
        if st.orelse:
            # the else block runs only when the loop was not left by `break`
            broke = F("broke")(head, hcons(flow, 3))
            ro = self._under(mk_not(broke), self.run, list(st.orelse), env)
            if flow == 0:
                env.clear(); env.update(ro.env)
            else:
                m = self._merge(broke, Result(dict(env), None, [], None), ro, [])
                env.clear(); env.update(m.env)
            if guards is not None:
                guards.extend(ro.guards)


def fold_function(fn, facts=None, funcs=None, env=None, pure=(), inline=None, exact=False, bind=None):
    pv = PyVal(funcs=funcs, facts=facts, pure=pure, exact=exact)
    if bind:
        env = dict(env or {})
        for k, node in bind.items():
            env[k] = pv.value(node, {})
    pv.inline = inline or {}
    from . import alpha
    pv.locals = alpha._bound(fn) | {"self", "cls"}
    body = list(fn.body)
    if body and isinstance(body[0], ast.Expr) and isinstance(body[0].value, ast.Constant) and isinstance(body[0].value.value, str):
        body = body[1:]
    r = pv.run(body, env)
    r.calls = pv.calls
    r.effects = pv.effects
    return r


PURE_PREFIX = ("np.", "numpy.", "math.", "sp.", "scipy.", "os.path.")
PURE_NAMES = {"len", "int", "float", "str", "bool", "isinstance", "getattr", "hasattr", "min", "max", "abs", "sum", "sorted", "list",
              "dict", "tuple", "set", "zip", "enumerate", "range", "repr", "type", "id", "callable", "any", "all", "map", "filter",
              "reversed", "round", "divmod", "iter", "next", "frozenset", "OrderedDict", "slice", "super", "format", "ord", "chr",
              "sqrt", "exp", "log", "sin", "cos", "erf", "pi", "joinpath", "splitext", "basename", "dirname", "abspath", "realpath"}


def effect_trace(res):
    """([(key, path-condition set)] of effectful calls in fold order, {keys of pure calls}); a key is the path condition
    and the call value as text.  Duplicates (continuation re-runs) are collapsed."""
    ordered, pure, seen = [], set(), set()
    for pc, name, v in res.effects:
        if name.startswith(NOOP_CALLS):
            continue
        pcs = frozenset(map(str, pc))
        key = "%s :: %s" % (" & ".join(sorted(pcs)), v)
        short = name.split(".")[-1]
        impure_np = name.startswith(("np.random", "numpy.random", "np.save", "np.put", "np.copyto", "np.place", "np.fill_diagonal",
                                     "np.seterr", "np.load", "os.path.expanduser")) and not name.startswith("np.putmask_")
        if impure_np:
            pass
        elif name.startswith(PURE_PREFIX) or name in PURE_NAMES or (short in ("copy", "get", "keys", "values", "items", "astype", "flatten",
                                                                            "reshape", "split", "strip", "join", "startswith", "endswith",
                                                                            "lower", "upper", "replace", "format", "index", "count", "tolist")
                                                                  and "." in name):
            pure.add(key)
            continue
        if key not in seen:
            seen.add(key)
            ordered.append((key, frozenset(pc)))
    return ordered, pure


def exclusive(pc1, pc2):
    """Two path conditions that cannot hold in one execution (one contains c, the other its negation)."""
    s2 = set(pc2)
    for c in pc1:
        try:
            if mk_not(c) in s2:
                return True
        except Exception:
            pass
    return False


def call_arg(call, pos=None, kw=None):
    """Value of the argument given positionally at `pos` or by keyword `kw` in a recorded call."""
    name, node, args, kwv = call[:4]
    if kw is not None and kw in kwv:
        return kwv[kw]
    if pos is not None and pos < len(args):
        return args[pos]
    return None


def fold_text(text, facts=None, funcs=None, env=None, pure=()):
    import textwrap
    tree = ast.parse(textwrap.dedent(text))
    pv = PyVal(funcs=funcs, facts=facts, pure=pure)
    r = pv.run(tree.body, env)
    r.calls = pv.calls
    r.effects = pv.effects
    return r


def same(a, b):
    """Equality of two folded values (None == None)."""
    if a is None or b is None:
        return a is None and b is None
    if a == b:
        return True
    try:
        return nf.equal(a, b)
    except Exception:
        return False


def compare(r, rule_file, qual, cur, ref, line, what=("ret",), keys=(), guards=False, doc=""):
    """Report, through rule `r`, agreement of folded results `cur` and `ref` on the returned value, on the listed
    env keys, and (optionally) on the guard set."""
    if "ret" in what:
        ok = same(cur.ret, ref.ret)
        r.check(ok, rule_file, qual, "returned value: %s" % (doc or "agrees with the documented formula"), line,
                "folded value equals the reference fold" if ok else "found %s ; documented %s" % (_short(cur.ret), _short(ref.ret)))
    for k in keys:
        a, b = cur.env.get(k), ref.env.get(k)
        ok = same(a, b)
        r.check(ok, rule_file, qual, "final value of %s: %s" % (k, doc or "agrees with the documented formula"), line,
                "folded value equals the reference fold" if ok else "found %s ; documented %s" % (_short(a), _short(b)))
    if guards:
        ga, gb = set(map(str, cur.guards)), set(map(str, ref.guards))
        missing = gb - ga
        r.check(not missing, rule_file, qual, "guards present: %d" % len(gb), line,
                "all documented refusals are present" if not missing else "missing refusal(s): %s" % sorted(missing))


def _short(e, n=300):
    s = str(e)
    return s if len(s) <= n else s[:n] + "..."
