"""E-val: value numbering of a Python function body.

A function (or a reference snippet written in the same notation) is folded, statement by statement, into symbolic
values over opaque atoms: one sympy expression per name / attribute / returned value.  Two bodies that differ only in
the names of temporaries, in how a formula is split over statements, in the order of independent statements, in
comments, logging or formatting, fold to equal values (compared with nf.equal, i.e. up to field algebra); an inserted
clamp, a dropped factor, a swapped operand or an extra in-place store changes the folded value.

This is global value numbering on the syntax tree, not execution: no branch is explored against a solver; an
undecided `if` becomes a `where(test, a, b)` value, a branch that ends in `raise` is a guard (recorded), a loop is an
opaque atom keyed by its own syntax and the values it reads.  Anything the fold cannot name precisely becomes an opaque
atom keyed by its syntax, which can only make two different bodies unequal (an alarm that the rule must then triage),
never equal.
"""
import ast
import hashlib
import sympy as sp
from .report import AnalysisError
from . import pyfacts as pf
from . import nf
from .nf import where, sym, num

NOOP_CALLS = ("logging.", "logger.", "print", "warnings.", "log.", "sys.stdout", "sys.stderr")
F = sp.Function


def _digest(node):
    return hashlib.sha1(ast.dump(node).encode()).hexdigest()[:10]


class Result:
    def __init__(self, env, ret, guards, term):
        self.env, self.ret, self.guards, self.term = env, ret, guards, term

    def get(self, key):
        return self.env.get(key)


class PyVal:
    def __init__(self, funcs=None, facts=None, strip_broadcast=True, pure=()):
        self.funcs = funcs or {}
        self.facts = facts or {}       # test text -> bool
        self.strip = strip_broadcast
        self.pure = set(pure)          # call names whose statement-level calls do not mutate their arguments
        self.calls = []                # (call name, Call node, [positional values], {keyword: value}) in fold order

    # ------------------------------------------------------------------ expressions
    def value(self, node, env):
        if self.strip:
            node = nf.strip_broadcast(node)
        return self._v(node, env)

    def _opaque(self, node, env, tag="py"):
        names = []
        for n in ast.walk(node):
            if isinstance(n, ast.Name) and isinstance(n.ctx, ast.Load) and n.id not in names:
                names.append(n.id)
        args = [env.get(nm, sym(nm)) for nm in sorted(names)]
        return F("%s_%s" % (tag, _digest(node)))(*args) if args else sym("%s_%s" % (tag, _digest(node)))

    def _v(self, node, env):
        key = pf.unparse(node)
        if key in env and not isinstance(node, ast.Constant):
            return env[key]
        if isinstance(node, ast.Constant):
            v = node.value
            if isinstance(v, (bool, int, float)):
                return num(v)
            if v is None:
                return sym("None")
            return sym(repr(v))
        if isinstance(node, ast.Name):
            if node.id in nf.PI_NAMES:
                return sp.pi
            if node.id == "inf":
                return sp.oo
            return sym(node.id)
        if isinstance(node, ast.Attribute):
            d = pf.dotted(node)
            if d in nf.PI_NAMES:
                return sp.pi
            if d in ("np.inf", "numpy.inf", "math.inf"):
                return sp.oo
            if d:
                # attribute of a tracked object value
                base = pf.unparse(node.value)
                if base in env and not isinstance(node.value, ast.Name):
                    return F("attr")(env[base], sym("." + node.attr))
                if isinstance(node.value, ast.Name) and node.value.id in env:
                    b = env[node.value.id]
                    if b != sym(node.value.id):
                        return F("attr")(b, sym("." + node.attr))
                return sym(d)
            return F("attr")(self._v(node.value, env), sym("." + node.attr))
        if isinstance(node, ast.BinOp):
            l, r = self._v(node.left, env), self._v(node.right, env)
            op = node.op
            try:
                if isinstance(op, ast.Add): return l + r
                if isinstance(op, ast.Sub): return l - r
                if isinstance(op, ast.Mult): return l * r
                if isinstance(op, ast.Div): return l / r
                if isinstance(op, ast.Pow): return l ** r
            except TypeError:
                pass
            return F("op_" + type(op).__name__)(l, r)
        if isinstance(node, ast.UnaryOp):
            v = self._v(node.operand, env)
            if isinstance(node.op, ast.USub): return -v
            if isinstance(node.op, ast.UAdd): return v
            return F("bnot")(v)
        if isinstance(node, ast.BoolOp):
            vals = [self._v(x, env) for x in node.values]
            out = vals[0]
            for x in vals[1:]:
                out = F("b" + type(node.op).__name__.lower())(out, x)
            return out
        if isinstance(node, ast.Compare):
            l = self._v(node.left, env)
            out = None
            for op, c in zip(node.ops, node.comparators):
                rv = self._v(c, env)
                t = F("cmp_" + type(op).__name__)(l, rv)
                out = t if out is None else F("band")(out, t)
                l = rv
            return out
        if isinstance(node, ast.IfExp):
            t = self.facts.get(pf.unparse(node.test))
            if t is True:
                return self._v(node.body, env)
            if t is False:
                return self._v(node.orelse, env)
            return where(self._v(node.test, env), self._v(node.body, env), self._v(node.orelse, env))
        if isinstance(node, (ast.Tuple, ast.List)):
            return F("seq")(*[self._v(e, env) for e in node.elts]) if node.elts else sym("seq0")
        if isinstance(node, ast.Starred):
            return F("star")(self._v(node.value, env))
        if isinstance(node, ast.Subscript):
            base = self._v(node.value, env)
            sl = node.slice
            if isinstance(sl, ast.Constant) and isinstance(sl.value, int) and getattr(base, "func", None) == F("seq"):
                k = sl.value
                if -len(base.args) <= k < len(base.args):
                    return base.args[k]
            return F("idx")(base, self._slice(sl, env))
        if isinstance(node, ast.Call):
            return self._call(node, env)
        if isinstance(node, ast.Lambda):
            sub = dict(env)
            a = node.args
            for k, p in enumerate(a.posonlyargs + a.args + a.kwonlyargs):
                sub[p.arg] = sym("la%d" % k)
            return F("lam")(sp.Integer(len(a.args)), self._v(node.body, sub))
        if isinstance(node, (ast.ListComp, ast.GeneratorExp, ast.SetComp, ast.DictComp)):
            sub = dict(env)
            gens = []
            n = 0
            for g in node.generators:
                it = self._v(g.iter, sub)
                for e in ast.walk(g.target):
                    if isinstance(e, ast.Name):
                        sub[e.id] = sym("c%d" % n)
                        n += 1
                gens.append(F("gen")(it, *[self._v(c, sub) for c in g.ifs]))
            if isinstance(node, ast.DictComp):
                elt = F("kv")(self._v(node.key, sub), self._v(node.value, sub))
            else:
                elt = self._v(node.elt, sub)
            return F("comp")(elt, *gens)
        if isinstance(node, ast.Dict):
            items = []
            for k, v in zip(node.keys, node.values):
                items.append(F("kv")(self._v(k, env) if k is not None else sym("**"), self._v(v, env)))
            return F("dict")(*items) if items else sym("dict0")
        if isinstance(node, ast.JoinedStr):
            parts = [self._v(x.value, env) if isinstance(x, ast.FormattedValue) else sym(repr(x.value)) for x in node.values]
            return F("fstr")(*parts)
        return self._opaque(node, env)

    def _slice(self, sl, env):
        if isinstance(sl, ast.Slice):
            parts = [self._v(x, env) if x is not None else sym("_") for x in (sl.lower, sl.upper, sl.step)]
            return F("slice")(*parts)
        if isinstance(sl, ast.Tuple):
            return F("seq")(*[self._slice(e, env) for e in sl.elts])
        return self._v(sl, env)

    def _call(self, node, env):
        name = pf.call_name(node) or ""
        args = [self._v(a, env) for a in node.args]
        kwv = {(k.arg or "**"): self._v(k.value, env) for k in node.keywords}
        v = self._call_value(node, env, name, args, kwv)
        self.calls.append((name, node, args, kwv, v))
        return v

    def _call_value(self, node, env, name, args, kwv):
        short = name.split(".")[-1]
        kws = [F("kw")(sym("=" + k), v) for k, v in kwv.items()]
        if not kws:
            if name in self.funcs:
                return self.funcs[name](*args)
            if short in self.funcs:
                return self.funcs[short](*args)
            try:
                if short in nf._FUNCS and (name == short or name.split(".")[0] in ("np", "numpy", "math", "sp", "scipy", "special")):
                    return nf._FUNCS[short](*args)
                if short == "clip" and len(args) == 3:
                    return nf.clipf(*args)
                if short == "where" and len(args) == 3:
                    return where(*args)
            except TypeError:
                pass
        if name:
            # method call on a tracked object: the receiver's value takes part
            f = node.func
            if isinstance(f, ast.Attribute):
                recv_key = pf.unparse(f.value)
                recv = env.get(recv_key)
                if recv is not None and recv != sym(recv_key):
                    return F("m_" + f.attr)(recv, *args, *kws)
            return F(name.replace(".", "_"))(*args, *kws)
        return F("calldyn")(self._v(node.func, env), *args, *kws)

    # ------------------------------------------------------------------ statements
    def run(self, stmts, env=None):
        """Fold a statement list.  Returns Result(env, ret, guards, term) with term in (None, 'return', 'raise')."""
        env = dict(env or {})
        guards = []
        for i, st in enumerate(stmts):
            if isinstance(st, ast.Return):
                v = self.value(st.value, env) if st.value is not None else sym("None")
                return Result(env, v, guards, "return")
            if isinstance(st, ast.Raise):
                return Result(env, None, guards, "raise")
            if isinstance(st, ast.If):
                rest = stmts[i + 1:]
                out = self._if(st, rest, env, guards)
                if out is not None:
                    return out
                continue
            self._simple(st, env, guards)
        return Result(env, None, guards, None)

    def _terminates(self, stmts):
        """Does the block contain a return/raise at any depth (outside nested functions)?"""
        for st in stmts:
            for n in pf.walk_stmts(ast.Module(body=[st], type_ignores=[])):
                if isinstance(n, (ast.Return, ast.Raise)):
                    return True
        return False

    def _if(self, st, rest, env, guards):
        """Returns a final Result when the `if` was handled by continuation splitting, else None (env updated)."""
        test = pf.unparse(st.test)
        fact = self.facts.get(test)
        if fact is True:
            branches = [(st.body, None)]
        elif fact is False:
            branches = [(st.orelse, None)]
        else:
            branches = None
        if branches is not None:
            body = branches[0][0]
            if self._terminates(body):
                r = self.run(list(body) + list(rest), env)
                r.guards = guards + r.guards
                return r
            r = self.run(body, env)
            env.clear(); env.update(r.env)
            guards.extend(r.guards)
            return None
        c = self.value(st.test, env)
        if self._terminates(st.body) or self._terminates(st.orelse):
            r1 = self.run(list(st.body) + list(rest), env)
            r2 = self.run(list(st.orelse) + list(rest), env)
            if r1.term == "raise" and r2.term != "raise":
                r2.guards = guards + [F("guard")(c)] + r2.guards
                return r2
            if r2.term == "raise" and r1.term != "raise":
                r1.guards = guards + [F("guard")(F("bnot")(c))] + r1.guards
                return r1
            return self._merge(c, r1, r2, guards)
        r1 = self.run(st.body, env)
        r2 = self.run(st.orelse, env)
        m = self._merge(c, r1, r2, [])
        env.clear(); env.update(m.env)
        guards.extend(m.guards)
        return None

    def _merge(self, c, r1, r2, guards):
        env = {}
        for k in set(r1.env) | set(r2.env):
            a = r1.env.get(k, sym(k))
            b = r2.env.get(k, sym(k))
            env[k] = a if a == b else where(c, a, b)
        if r1.ret is None and r2.ret is None:
            ret = None
        else:
            a = r1.ret if r1.ret is not None else sym("None")
            b = r2.ret if r2.ret is not None else sym("None")
            ret = a if a == b else where(c, a, b)
        g = list(guards)
        for x in r1.guards:
            g.append(x if x in r2.guards else F("when")(c, x))
        for x in r2.guards:
            if x not in r1.guards:
                g.append(F("when")(F("bnot")(c), x))
        term = r1.term if r1.term == r2.term else ("return" if "return" in (r1.term, r2.term) and None not in (r1.term, r2.term) else None)
        return Result(env, ret, g, term)

    def _store(self, target, v, env):
        if isinstance(target, ast.Name):
            env[target.id] = v
        elif isinstance(target, ast.Attribute):
            env[pf.unparse(target)] = v
        elif isinstance(target, (ast.Tuple, ast.List)):
            for k, e in enumerate(target.elts):
                if getattr(v, "func", None) == F("seq") and len(v.args) == len(target.elts):
                    self._store(e, v.args[k], env)
                else:
                    self._store(e, F("item")(v, sp.Integer(k)), env)
        elif isinstance(target, ast.Subscript):
            base_key = pf.unparse(target.value)
            sl = nf.strip_broadcast(target.slice) if self.strip else target.slice
            cur = self._v(target.value, env)
            env[base_key] = F("store")(cur, self._slice(sl, env), v)
            # a store through a view writes the viewed object too: record it under the root name as well
            root = target.value
            while isinstance(root, (ast.Subscript, ast.Attribute)):
                root = root.value
            if isinstance(root, ast.Name) and not isinstance(target.value, ast.Name):
                rk = root.id
                env[rk] = F("store_in")(env.get(rk, sym(rk)), sym(base_key), self._slice(sl, env), v)
        elif isinstance(target, ast.Starred):
            self._store(target.value, F("star")(v), env)

    def _simple(self, st, env, guards):
        if isinstance(st, ast.Assign):
            v = self.value(st.value, env)
            for t in st.targets:
                self._store(t, v, env)
        elif isinstance(st, ast.AnnAssign):
            if st.value is not None:
                self._store(st.target, self.value(st.value, env), env)
        elif isinstance(st, ast.AugAssign):
            cur = self._v(nf.strip_broadcast(st.target) if self.strip else st.target, env)
            rhs = self.value(st.value, env)
            fake = ast.BinOp(left=ast.Name("__cur", ast.Load()), op=st.op, right=ast.Name("__rhs", ast.Load()))
            v = self._v(fake, {"__cur": cur, "__rhs": rhs})
            self._store(st.target, v, env)
        elif isinstance(st, ast.Expr):
            if isinstance(st.value, ast.Constant):
                return
            if isinstance(st.value, ast.Call):
                name = pf.call_name(st.value) or ""
                if name.startswith(NOOP_CALLS) or name in self.pure:
                    return
                f = st.value.func
                v = self._call(st.value, env)
                if isinstance(f, ast.Attribute):
                    # obj.method(...) as a statement: obj is updated by the call
                    if isinstance(f.value, (ast.Name, ast.Attribute)):
                        self._store(f.value, F("after_" + f.attr)(self._v(f.value, env), v), env)
                else:
                    for a in st.value.args:
                        if isinstance(a, (ast.Name, ast.Attribute)):
                            self._store(a, F("after_call")(self._v(a, env), v), env)
                return
            # other expression statements have no effect on values
        elif isinstance(st, (ast.For, ast.While, ast.AsyncFor)):
            self._loop(st, env)
        elif isinstance(st, ast.Try):
            r = self.run(st.body, env)
            alts = [self.run(h.body, env) for h in st.handlers]
            cur = r
            for k, a in enumerate(alts):
                if a.term == "raise":
                    continue
                cur = self._merge(sym("exc%d" % k), a, cur, [])
            env.clear(); env.update(cur.env)
            guards.extend(cur.guards)
            if st.finalbody:
                r = self.run(st.finalbody, env)
                env.clear(); env.update(r.env)
        elif isinstance(st, (ast.With, ast.AsyncWith)):
            for it in st.items:
                if it.optional_vars is not None:
                    self._store(it.optional_vars, F("enter")(self.value(it.context_expr, env)), env)
            r = self.run(st.body, env)
            env.clear(); env.update(r.env)
            guards.extend(r.guards)
        elif isinstance(st, ast.Assert):
            guards.append(F("guard")(F("bnot")(self.value(st.test, env))))
        elif isinstance(st, (ast.FunctionDef, ast.AsyncFunctionDef, ast.ClassDef)):
            env[st.name] = self._opaque(st, env, "def")
        elif isinstance(st, ast.Delete):
            for t in st.targets:
                env.pop(pf.unparse(t), None)
        elif isinstance(st, (ast.Break, ast.Continue)):
            env["__flow"] = F(type(st).__name__.lower())(env.get("__flow", sp.Integer(0)))
        elif isinstance(st, (ast.Pass, ast.Import, ast.ImportFrom, ast.Global, ast.Nonlocal)):
            pass
        else:
            raise AnalysisError("pyval: statement outside the fragment: %s" % type(st).__name__)

    def _loop(self, st, env):
        written = []

        def note(root):
            k = pf.unparse(root)
            if k not in written:
                written.append(k)
        for n in pf.walk_stmts(ast.Module(body=list(st.body) + list(st.orelse), type_ignores=[])):
            if isinstance(n, (ast.Assign, ast.AugAssign, ast.AnnAssign)):
                tg = n.targets if isinstance(n, ast.Assign) else [n.target]
                for t in tg:
                    for e in (t.elts if isinstance(t, (ast.Tuple, ast.List)) else [t]):
                        root = e
                        while isinstance(root, ast.Subscript):
                            root = root.value
                        if isinstance(root, (ast.Name, ast.Attribute)):
                            note(root)
            elif isinstance(n, ast.Expr) and isinstance(n.value, ast.Call) and isinstance(n.value.func, ast.Attribute) \
                    and isinstance(n.value.func.value, (ast.Name, ast.Attribute)):
                if not (pf.call_name(n.value) or "").startswith(NOOP_CALLS):
                    note(n.value.func.value)
            elif isinstance(n, (ast.For, ast.AsyncFor)):
                for e in ast.walk(n.target):
                    if isinstance(e, ast.Name):
                        note(e)
        sub = dict(env)
        targets = []
        if isinstance(st, (ast.For, ast.AsyncFor)):
            for e in ast.walk(st.target):
                if isinstance(e, ast.Name):
                    targets.append(e.id)
            head = self.value(st.iter, env)
            for k, t in enumerate(targets):
                sub[t] = sym("it%d" % k)
        carried = [w for w in written if w not in targets]
        for k, w in enumerate(carried):
            sub[w] = sym("carry%d" % k)
        if isinstance(st, ast.While):
            head = self.value(st.test, sub)
        r = self.run(list(st.body), sub)
        flow = r.env.get("__flow", sp.Integer(0))
        for k, w in enumerate(carried):
            upd = r.env.get(w, sym("carry%d" % k))
            env[w] = F("loop")(head, upd, env.get(w, sym("unset")), flow)
        for t in targets:
            env[t] = F("last")(head, sym("@" + t))
def fold_function(fn, facts=None, funcs=None, env=None, pure=()):
    pv = PyVal(funcs=funcs, facts=facts, pure=pure)
    body = list(fn.body)
    if body and isinstance(body[0], ast.Expr) and isinstance(body[0].value, ast.Constant) and isinstance(body[0].value.value, str):
        body = body[1:]
    r = pv.run(body, env)
    r.calls = pv.calls
    return r


def call_arg(call, pos=None, kw=None):
    """Value of the argument given positionally at `pos` or by keyword `kw` in a recorded call."""
    name, node, args, kwv = call[:4]
    if kw is not None and kw in kwv:
        return kwv[kw]
    if pos is not None and pos < len(args):
        return args[pos]
    return None


def fold_text(text, facts=None, funcs=None, env=None, pure=()):
    import textwrap
    tree = ast.parse(textwrap.dedent(text))
    pv = PyVal(funcs=funcs, facts=facts, pure=pure)
    r = pv.run(tree.body, env)
    r.calls = pv.calls
    return r


def same(a, b):
    """Equality of two folded values (None == None)."""
    if a is None or b is None:
        return a is None and b is None
    if a == b:
        return True
    try:
        return nf.equal(a, b)
    except Exception:
        return False


def compare(r, rule_file, qual, cur, ref, line, what=("ret",), keys=(), guards=False, doc=""):
    """Report, through rule `r`, agreement of folded results `cur` and `ref` on the returned value, on the listed
    env keys, and (optionally) on the guard set."""
    if "ret" in what:
        ok = same(cur.ret, ref.ret)
        r.check(ok, rule_file, qual, "returned value: %s" % (doc or "agrees with the documented formula"), line,
                "folded value equals the reference fold" if ok else "found %s ; documented %s" % (_short(cur.ret), _short(ref.ret)))
    for k in keys:
        a, b = cur.env.get(k), ref.env.get(k)
        ok = same(a, b)
        r.check(ok, rule_file, qual, "final value of %s: %s" % (k, doc or "agrees with the documented formula"), line,
                "folded value equals the reference fold" if ok else "found %s ; documented %s" % (_short(a), _short(b)))
    if guards:
        ga, gb = set(map(str, cur.guards)), set(map(str, ref.guards))
        missing = gb - ga
        r.check(not missing, rule_file, qual, "guards present: %d" % len(gb), line,
                "all documented refusals are present" if not missing else "missing refusal(s): %s" % sorted(missing))


def _short(e, n=300):
    s = str(e)
    return s if len(s) <= n else s[:n] + "..."
