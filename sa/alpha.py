"""Alpha-alignment of local names.

Many rules name a local variable of the function they read (`combined_scale`, `q_edges`, `fbytes`).  A behaviour-preserving
rename of such a local must not raise an alarm.  For every function of the library the reference table (sa/refshape.json,
written by tools/mkrefshape.py from the tree the rules were confirmed on) holds a digest of the function's syntax tree
with every locally bound name replaced by its index of first occurrence, together with the names in that order.  When
the current function has the same digest, it is alpha-equivalent to the reference function (same tree, same free names,
a bijection between the local names), so renaming its locals to the reference names changes nothing semantically and
the rules then read the names they expect.  When the digest differs nothing is renamed and the rules see the source as is.
The table never decides a verdict: it only supplies spellings for an alpha-equivalent function.
"""
import ast
import hashlib
import json
import os

_REF = None


def _ref():
    global _REF
    if _REF is None:
        p = os.path.join(os.path.dirname(os.path.abspath(__file__)), "refshape.json")
        try:
            with open(p) as fd:
                _REF = json.load(fd)
        except (OSError, ValueError):
            _REF = {}
    return _REF


def _sites(fn):
    """(node, attribute) pairs, in source order, of every identifier occurrence inside fn (excluding fn's own name)."""
    out = []

    def visit(n, top=False):
        if isinstance(n, ast.Name):
            out.append((n, "id"))
            return
        if isinstance(n, ast.arg):
            out.append((n, "arg"))
            if n.annotation is not None:
                visit(n.annotation)
            return
        if isinstance(n, (ast.FunctionDef, ast.AsyncFunctionDef, ast.ClassDef)) and not top:
            out.append((n, "name"))
        if isinstance(n, ast.ExceptHandler) and n.name:
            out.append((n, "name"))
        if isinstance(n, ast.alias):
            out.append((n, "asname" if n.asname else "name"))
            return
        for c in ast.iter_child_nodes(n):
            visit(c)
    visit(fn, top=True)
    return out


def _bound(fn):
    bound, excluded = set(), set()
    for n in ast.walk(fn):
        if isinstance(n, ast.Name) and isinstance(n.ctx, (ast.Store, ast.Del)):
            bound.add(n.id)
        elif isinstance(n, ast.arg):
            bound.add(n.arg)
        elif isinstance(n, (ast.FunctionDef, ast.AsyncFunctionDef, ast.ClassDef)) and n is not fn:
            bound.add(n.name)
        elif isinstance(n, ast.ExceptHandler) and n.name:
            bound.add(n.name)
        elif isinstance(n, ast.alias):
            nm = n.asname or n.name
            if "." not in nm and nm != "*":
                bound.add(nm)
        elif isinstance(n, (ast.Global, ast.Nonlocal)):
            excluded.update(n.names)
    bound -= excluded
    bound.discard("self")
    bound.discard("cls")
    return bound


def shape(fn):
    """(digest, [local names in order of first occurrence])"""
    import copy
    bound = _bound(fn)
    g = copy.deepcopy(fn)
    g.decorator_list = []
    # docstrings do not take part
    for n in ast.walk(g):
        body = getattr(n, "body", None)
        if isinstance(body, list) and body and isinstance(body[0], ast.Expr) and isinstance(body[0].value, ast.Constant) \
                and isinstance(body[0].value.value, str) and isinstance(n, (ast.FunctionDef, ast.AsyncFunctionDef, ast.ClassDef)):
            n.body = body[1:] or [ast.Pass()]
        if hasattr(n, "type_comment"):
            n.type_comment = None
    order = {}
    for node, attr in _sites(g):
        nm = getattr(node, attr)
        if nm in bound:
            if nm not in order:
                order[nm] = len(order)
            setattr(node, attr, "$%d" % order[nm])
    names = sorted(order, key=order.get)
    return hashlib.sha1(ast.dump(g).encode()).hexdigest(), names


def align_module(tree, relpath):
    """Rename, in place, the locals of every outermost function that is alpha-equivalent to its reference."""
    ref = _ref().get(relpath)
    if not ref:
        return 0
    renamed = 0

    def walk(node, prefix):
        nonlocal renamed
        for child in ast.iter_child_nodes(node):
            if isinstance(child, (ast.FunctionDef, ast.AsyncFunctionDef)):
                q = prefix + child.name
                r = ref.get(q)
                if r:
                    digest, names = shape(child)
                    if digest == r[0] and names != r[1] and len(names) == len(r[1]):
                        m = dict(zip(names, r[1]))
                        bound = set(names)
                        for n, attr in _sites(child):
                            v = getattr(n, attr)
                            if v in bound:
                                setattr(n, attr, m[v])
                        renamed += 1
            elif isinstance(child, ast.ClassDef):
                walk(child, prefix + child.name + ".")
            elif isinstance(child, (ast.If, ast.Try, ast.With, ast.For, ast.While)):
                walk(child, prefix)
    walk(tree, "")
    return renamed


def build_reference(repo):
    out = {}
    for root, _, files in os.walk(os.path.join(repo, "sasmodels")):
        for f in sorted(files):
            if not f.endswith(".py"):
                continue
            p = os.path.join(root, f)
            rel = os.path.relpath(p, repo)
            try:
                tree = ast.parse(open(p).read())
            except SyntaxError:
                continue
            tab = {}

            def walk(node, prefix):
                for child in ast.iter_child_nodes(node):
                    if isinstance(child, (ast.FunctionDef, ast.AsyncFunctionDef)):
                        q = prefix + child.name
                        if q not in tab:
                            d, names = shape(child)
                            if names:
                                tab[q] = [d, names]
                    elif isinstance(child, ast.ClassDef):
                        walk(child, prefix + child.name + ".")
                    elif isinstance(child, (ast.If, ast.Try, ast.With, ast.For, ast.While)):
                        walk(child, prefix)
            walk(tree, "")
            if tab:
                out[rel] = tab
    return out
