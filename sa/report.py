"""Verdict protocol shared by every check: instances, floors, known findings,
replay files, evidence, exit codes."""
import json, os, sys, time, traceback, re

VERIF = os.path.dirname(os.path.dirname(os.path.abspath(__file__)))
REPO = os.environ.get("SASMODELS_REPO", "/repo")
KNOWN = os.path.join(VERIF, "known_findings.json")


class AnalysisError(Exception):
    """The analysis could not be carried out (anchor vanished, fragment unsupported)."""


def norm_construct(text):
    """Normalised construct key: whitespace-insensitive, never line numbers."""
    return re.sub(r"\s+", " ", str(text)).strip()


class Instance(dict):
    """One examined rule instance."""
    def __init__(self, rule, file, function, construct, line, status, detail=""):
        super().__init__(rule=rule, file=file, function=function,
                         construct=norm_construct(construct), line=line,
                         status=status, detail=detail)

    @property
    def key(self):
        return (self["rule"], self["file"], self["function"], self["construct"])


class Rule:
    """Collector handed to each rule function."""
    def __init__(self, rule_id, floor, doc):
        self.id = rule_id
        self.floor = floor
        self.doc = doc
        self.instances = []

    def ok(self, file, function, construct, line=0, detail=""):
        self.instances.append(Instance(self.id, file, function, construct, line, "ok", detail))

    def violation(self, file, function, construct, line=0, detail=""):
        self.instances.append(Instance(self.id, file, function, construct, line, "violation", detail))

    def note(self, file, function, construct, line=0, detail=""):
        self.instances.append(Instance(self.id, file, function, construct, line, "note", detail))

    def check(self, cond, file, function, construct, line=0, detail=""):
        (self.ok if cond else self.violation)(file, function, construct, line, detail)
        return cond


def load_known():
    if not os.path.exists(KNOWN):
        return {"open": [], "fixed": []}
    with open(KNOWN) as fd:
        return json.load(fd)


def _match_known(inst, known, prop):
    for k in known.get("open", []):
        if k.get("property") != prop:
            # a finding shared between properties lists them in "also"
            if prop not in k.get("also", []):
                continue
        if k["rule"] != inst["rule"]:
            continue
        if k["file"] != inst["file"] or k["function"] != inst["function"]:
            continue
        if norm_construct(k["construct"]) != inst["construct"]:
            continue
        return k
    return None


def run_check(prop, rules, tier="quick", level="other", explanation="",
              assumptions=(), replay=None, extra_coverage=None):
    """rules: list of (rule_id, floor, doc, fn) ; fn(Rule) fills instances.

    Returns the process exit code after printing the verdict lines and writing
    evidence/<prop>.json."""
    t0 = time.time()
    seed = int(os.environ.get("VERIF_SEED", "0") or 0)
    collected = []
    errors = []
    for rule_id, floor, doc, fn in rules:
        if replay and replay.get("rule") and replay["rule"] != rule_id:
            continue
        r = Rule(rule_id, floor, doc)
        try:
            fn(r)
        except AnalysisError as exc:
            errors.append("%s: %s" % (rule_id, exc))
        except Exception:
            errors.append("%s: internal error\n%s" % (rule_id, traceback.format_exc()))
        n_exam = sum(1 for i in r.instances if i["status"] in ("ok", "violation"))
        n_bad = sum(1 for i in r.instances if i["status"] == "violation")
        if n_exam < floor and not replay and not n_bad:
            errors.append("%s: only %d instances matched, floor is %d (anchor moved?)"
                          % (rule_id, n_exam, floor))
        collected.append(r)
    known = load_known()
    violations, known_hits = [], []
    for r in collected:
        for inst in r.instances:
            if inst["status"] != "violation":
                continue
            k = _match_known(inst, known, prop)
            if k is not None:
                known_hits.append((inst, k))
            else:
                violations.append(inst)
    wall = time.time() - t0
    # evidence
    all_inst = [i for r in collected for i in r.instances]
    examined = [i for i in all_inst if i["status"] in ("ok", "violation")]
    samples = []
    for r in collected:
        for i in r.instances[:2]:
            samples.append({k: i[k] for k in ("rule", "file", "function", "line", "construct", "status", "detail")})
    coverage = {
        "explanation": explanation,
        "obligations": len(examined),
        "discharged": sum(1 for i in examined if i["status"] == "ok"),
        "evaluations": max(1, len(examined)),
        "distinct_nontrivial": len({i.key for i in examined}),
        "rule": "one obligation per (rule, file, function, construct) instance found in /repo's working tree; "
                "distinct = distinct keys; every instance is a concrete source construct examined by the rule",
        "rules": [{"id": r.id, "doc": r.doc, "floor": r.floor,
                   "instances": sum(1 for i in r.instances if i["status"] in ("ok", "violation")),
                   "violations": sum(1 for i in r.instances if i["status"] == "violation"),
                   "notes": sum(1 for i in r.instances if i["status"] == "note")}
                  for r in collected],
        "samples": samples[:60],
        "notes": [{k: i[k] for k in ("rule", "file", "function", "construct", "detail")}
                  for i in all_inst if i["status"] == "note"][:40],
        "known_findings_reported": [norm_construct(k["what"]) for _, k in known_hits],
        "analysis_errors": errors,
        "exhaustive": True,
    }
    if extra_coverage:
        coverage.update(extra_coverage)
    evidence = {
        "property_id": prop, "tier": tier, "seed": seed, "level": level,
        "coverage": coverage, "assumptions": list(assumptions),
        "wall_s": round(wall, 3), "violations": len(violations),
    }
    if not replay:
        evdir = os.environ.get("SA_EVIDENCE_DIR") or os.path.join(VERIF, "evidence")
        os.makedirs(evdir, exist_ok=True)
        with open(os.path.join(evdir, prop + ".json"), "w") as fd:
            json.dump(evidence, fd, indent=1, sort_keys=True)
            fd.write("\n")
    # verdict
    for r in collected:
        n = sum(1 for i in r.instances if i["status"] in ("ok", "violation"))
        bad = sum(1 for i in r.instances if i["status"] == "violation")
        print("rule %-24s instances=%-4d violations=%-3d floor=%d" % (r.id, n, bad, r.floor))
    seen = set()
    for inst, k in known_hits:
        ident = (k["rule"], k["file"], k["function"], k["construct"])
        if ident in seen:
            continue
        seen.add(ident)
        print("KNOWN-FINDING: property=%s %s [%s %s:%s]" % (
            prop, k["what"], inst["rule"], inst["file"], inst["function"]))
    for e in errors:
        print("ANALYSIS-ERROR property=%s %s" % (prop, e))
    if errors and not violations:
        return 2
    if violations:
        rdir = os.path.join(os.environ["SA_EVIDENCE_DIR"], "replay") if os.environ.get("SA_EVIDENCE_DIR") else os.path.join(VERIF, "replay")
        os.makedirs(rdir, exist_ok=True)
        path = os.path.join(rdir, "%s.json" % prop)
        if not replay:
            with open(path, "w") as fd:
                json.dump({"property": prop, "violations": violations}, fd, indent=1)
        shown, seen_v = 0, {}
        for v in violations:
            key = (v["rule"], v["file"], v["line"], v["construct"])
            seen_v.setdefault(key, []).append(v)
        per_rule = {}
        hidden = 0
        for key, vs in seen_v.items():
            per_rule[key[0]] = per_rule.get(key[0], 0) + 1
            if per_rule[key[0]] > 12 or shown >= 80:
                hidden += 1
                continue
            v = vs[0]
            more = " [+%d more functions/units, e.g. %s]" % (len(vs) - 1, vs[-1]["function"]) if len(vs) > 1 else ""
            print("  %s %s:%s in %s: %s -- %s%s" % (v["rule"], v["file"], v["line"],
                                                   v["function"], v["construct"], v["detail"], more))
            shown += 1
        if hidden:
            print("  ... %d more distinct violation sites (see replay file)" % hidden)
        print("VIOLATION property=%s replay=%s" % (prop, path))
        return 1
    print("OK property=%s rules=%d instances=%d wall=%.2fs" % (prop, len(collected), len(examined), wall))
    return 0
