"""Generator step, run with the repository's own interpreter (/venv/bin/python).

Writes, for every builtin model that has C source, the translation unit that
`generate.make_source` assembles (exactly the text the DLL build compiles) into
<outdir>/<name>.c, plus a reparameterised witness unit for C16 and a small
JSON index.  Nothing is compiled to machine code, loaded or evaluated.
"""
import sys, os, json, traceback

def main(repo, outdir):
    sys.path.insert(0, repo)
    os.environ.setdefault("SAS_OPENCL", "none")
    from sasmodels import core, generate, modelinfo
    index = {"models": {}, "errors": {}}
    names = core.list_models()
    for name in names:
        try:
            info = core.load_model_info(name)
            if callable(info.Iq):
                index["models"][name] = {"kind": "py"}
                continue
            sources = generate.make_source(info)
            src = sources["dll"]
            path = os.path.join(outdir, name + ".c")
            with open(path, "w") as fd:
                fd.write(src)
            # the OpenCL configuration of the same model (what kernelcl hands to the device compiler in double precision)
            cl_path = None
            if sources.get("opencl"):
                cl_path = os.path.join(outdir, name + ".cl")
                with open(cl_path, "w") as fd:
                    fd.write("#pragma OPENCL EXTENSION cl_khr_fp64: enable\n")
                    fd.write(generate.convert_type(sources["opencl"], generate.F64))
            # precision conversions of the dll source (text only; decided by the token rule of C15)
            conv = {}
            for tag, dt in (("f32", generate.F32), ("f64", generate.F64), ("f128", generate.F128)):
                if dt is None:
                    continue
                cpath = os.path.join(outdir, "%s.%s.txt" % (name, tag))
                with open(cpath, "w") as fd:
                    fd.write(generate.convert_type(src, dt))
                conv[tag] = cpath
            f32_cl = None
            if sources.get("opencl"):
                f32_cl = os.path.join(outdir, name + ".f32.cl")
                with open(f32_cl, "w") as fd:
                    fd.write(generate.convert_type(sources["opencl"], generate.F32))
            pt = info.parameters
            index["models"][name] = {
                "kind": "c", "unit": path, "cl_unit": cl_path, "conv": conv, "f32_cl_unit": f32_cl,
                "max_pd": pt.max_pd, "npars": pt.npars, "nvalues": pt.nvalues,
                "nmagnetic": pt.nmagnetic,
                "have_Fq": bool(info.have_Fq),
                "single": bool(info.single),
                "category": info.category,
                "kernel_parameters": [p.id for p in pt.kernel_parameters],
                "call_parameters": [p.id for p in pt.call_parameters],
                "types": {p.id: p.type for p in pt.kernel_parameters},
                "lengths": {p.id: p.length for p in pt.kernel_parameters},
                "orientation": [p.id for p in pt.orientation_parameters],
            }
        except Exception as exc:  # recorded; the checker turns it into ANALYSIS-ERROR
            index["errors"][name] = traceback.format_exc()
    # C16 witness: reparameterised cylinder (oriented, volume pars, intermediate var)
    try:
        base = core.load_model_info("cylinder")
        pars = [["vol", "Ang^3", 100000.0, [0, float("inf")], "volume", "total volume"],
                ["eccentricity", "", 2.0, [0, float("inf")], "volume", "length/diameter"]]
        translation = """
            shape = eccentricity*2
            radius = cbrt(vol/(M_PI*shape))
            length = shape*cbrt(vol/(M_PI*shape))
            """
        info = core.reparameterize(base, pars, translation, name="reparam_witness",
                                   insert_after={"": "vol,eccentricity"})
        src = generate.make_source(info)["dll"]
        path = os.path.join(outdir, "_reparam_witness.c")
        with open(path, "w") as fd:
            fd.write(src)
        index["witness"] = {"unit": path, "base": "cylinder",
                            "new": ["vol", "eccentricity"],
                            "replaced": ["radius", "length"],
                            "intermediate": ["shape"],
                            "kernel_parameters": [p.id for p in info.parameters.kernel_parameters],
                            "base_kernel_parameters": [p.id for p in info.base.kernel_parameters]}
    except Exception:
        index["errors"]["_reparam_witness"] = traceback.format_exc()
    # C06 witness: reparameterised core_shell_sphere whose shell SLD is derived from two SLD-typed caller parameters
    try:
        base = core.load_model_info("core_shell_sphere")
        pars = [["f_solv", "", 0.3, [0, 1], "", "solvent fraction in the shell"]]
        translation = """
            sld_shell = f_solv*sld_solvent + (1-f_solv)*sld_core
            """
        info = core.reparameterize(base, pars, translation, name="reparam_witness_sld", insert_after={"sld_core": "f_solv"})
        src = generate.make_source(info)["dll"]
        path = os.path.join(outdir, "_reparam_witness_sld.c")
        with open(path, "w") as fd:
            fd.write(src)
        pt = info.parameters
        index["witness_sld"] = {"unit": path, "base": "core_shell_sphere", "new": ["f_solv"], "replaced": ["sld_shell"],
                                "kernel_parameters": [p.id for p in pt.kernel_parameters],
                                "types": {p.id: p.type for p in pt.kernel_parameters},
                                "base_kernel_parameters": [p.id for p in info.base.kernel_parameters],
                                "base_types": {p.id: p.type for p in info.base.kernel_parameters}}
    except Exception:
        index["errors"]["_reparam_witness_sld"] = traceback.format_exc()
    with open(os.path.join(outdir, "index.json"), "w") as fd:
        json.dump(index, fd)

if __name__ == "__main__":
    main(sys.argv[1], sys.argv[2])
