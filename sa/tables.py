"""E-tab: literal reader for model definition files and the conversion table."""
import ast, os, glob, re
from .report import REPO, AnalysisError

MODELS_DIR = os.path.join(REPO, "sasmodels", "models")
_models = None

INF = float("inf")


def _lit(node, env=None):
    """literal_eval that understands inf / -inf / np.inf / pi names and
    module-level literal constants (env: name -> ast node)."""
    env = env or {}
    class T(ast.NodeTransformer):
        def visit_Name(self, n):
            if n.id in ("inf", "INF"):
                return ast.copy_location(ast.Constant(INF), n)
            if n.id == "pi":
                return ast.copy_location(ast.Constant(3.141592653589793), n)
            if n.id in env:
                return T().visit(env[n.id])
            return n
        def visit_Attribute(self, n):
            if n.attr == "inf":
                return ast.copy_location(ast.Constant(INF), n)
            if n.attr == "pi":
                return ast.copy_location(ast.Constant(3.141592653589793), n)
            return n
    node = T().visit(ast.fix_missing_locations(node))
    def ev(n):
        if isinstance(n, ast.Constant):
            return n.value
        if isinstance(n, (ast.List, ast.Tuple)):
            return [ev(e) for e in n.elts]
        if isinstance(n, ast.UnaryOp) and isinstance(n.op, ast.USub):
            return -ev(n.operand)
        if isinstance(n, ast.UnaryOp) and isinstance(n.op, ast.UAdd):
            return ev(n.operand)
        if isinstance(n, ast.BinOp):
            l, r = ev(n.left), ev(n.right)
            if isinstance(n.op, ast.Add): return l + r
            if isinstance(n.op, ast.Sub): return l - r
            if isinstance(n.op, ast.Mult): return l * r
            if isinstance(n.op, ast.Div): return l / r
            if isinstance(n.op, ast.Pow): return l ** r
            if isinstance(n.op, ast.Mod): return l % r
        if isinstance(n, ast.Dict):
            return {ev(k): ev(v) for k, v in zip(n.keys, n.values)}
        if isinstance(n, ast.JoinedStr):
            return "<fstring>"
        raise ValueError("non-literal: %s" % ast.dump(n)[:80])
    return ev(node)


class ModelDef:
    """What a model file states literally."""
    def __init__(self, path):
        self.path = path
        self.relpath = os.path.relpath(path, REPO)
        self.id = os.path.basename(path)[:-3]
        with open(path) as fd:
            self.text = fd.read()
        self.tree = ast.parse(self.text)
        self.assign = {}
        self.lineno = {}
        self.functions = {}
        for st in self.tree.body:
            if isinstance(st, ast.Assign) and len(st.targets) == 1 and isinstance(st.targets[0], ast.Name):
                self.assign[st.targets[0].id] = st.value
                self.lineno[st.targets[0].id] = st.lineno
            elif isinstance(st, ast.FunctionDef):
                self.functions[st.name] = st
        if "parameters" not in self.assign:
            raise AnalysisError("%s: no literal `parameters` table" % self.relpath)
        try:
            rows = _lit(self.assign["parameters"], self.assign)
        except Exception as exc:
            raise AnalysisError("%s: parameters table is not a literal (%s)" % (self.relpath, exc))
        self.rows = rows
        self.pars = []
        for r in rows:
            name = r[0]
            m = re.match(r"^(\w+)\[(\w*)\]$", name)
            self.pars.append({
                "name": name, "id": m.group(1) if m else name,
                "control": m.group(2) if m else None,
                "units": r[1], "default": r[2], "limits": r[3], "type": r[4],
                "description": r[5] if len(r) > 5 else "",
            })

    def get(self, name, default=None):
        node = self.assign.get(name)
        if node is None:
            return default
        try:
            return _lit(node, self.assign)
        except Exception:
            return default

    def is_py(self):
        """Pure python model: defines a python function Iq."""
        return "Iq" in self.functions

    def par_ids(self):
        return [p["id"] for p in self.pars]

    def vector_length(self, p):
        """Length of vector parameter = upper limit of its control parameter."""
        if not p["control"]:
            return 1
        for ref in self.pars:
            if ref["id"] == p["control"]:
                return int(ref["limits"][1])
        try:
            return int(p["control"])
        except Exception:
            raise AnalysisError("%s: no control parameter for %s" % (self.relpath, p["name"]))

    def expanded_names(self):
        out = []
        for p in self.pars:
            n = self.vector_length(p)
            if p["control"]:
                out.extend("%s%d" % (p["id"], k) for k in range(1, n + 1))
            else:
                out.append(p["id"])
        return out

    def sld_names(self):
        out = []
        for p in self.pars:
            if p["type"] == "sld":
                n = self.vector_length(p)
                if p["control"]:
                    out.extend("%s%d" % (p["id"], k) for k in range(1, n + 1))
                else:
                    out.append(p["id"])
        return out


def models():
    """All builtin model definitions of the working tree, by id."""
    global _models
    if _models is None:
        _models = {}
        for path in sorted(glob.glob(os.path.join(MODELS_DIR, "*.py"))):
            base = os.path.basename(path)
            if base.startswith("_"):
                continue
            _models[base[:-3]] = ModelDef(path)
        if len(_models) < 50:
            raise AnalysisError("only %d model files found under %s" % (len(_models), MODELS_DIR))
    return _models


_FOLD_OK = (ast.Expression, ast.Dict, ast.List, ast.Tuple, ast.Constant, ast.Call, ast.Name,
            ast.Load, ast.Store, ast.GeneratorExp, ast.ListComp, ast.DictComp, ast.comprehension,
            ast.BinOp, ast.Add, ast.keyword, ast.UnaryOp, ast.USub)


def fold_constant(node):
    """Constant-fold a closed literal expression (dict/list displays, and the
    `dict(<generator over literal lists>, **{...})` idiom) without touching
    any repository name: only dict/str/range/int calls and comprehension
    variables are admitted."""
    bound = set()
    for n in ast.walk(node):
        if not isinstance(n, _FOLD_OK):
            raise ValueError("construct %s not foldable" % type(n).__name__)
        if isinstance(n, ast.Name) and isinstance(n.ctx, ast.Store):
            bound.add(n.id)
    for n in ast.walk(node):
        if isinstance(n, ast.Name) and isinstance(n.ctx, ast.Load) \
                and n.id not in bound and n.id not in ("dict", "str", "range", "int", "None"):
            raise ValueError("free name %s" % n.id)
        if isinstance(n, ast.Call) and not (isinstance(n.func, ast.Name) and n.func.id in ("dict", "str", "range", "int")):
            raise ValueError("call not foldable")
    code = compile(ast.Expression(node), "<table>", "eval")
    return eval(code, {"__builtins__": {}, "dict": dict, "str": str, "range": range, "int": int})


def conversion_table():
    path = os.path.join(REPO, "sasmodels", "conversion_table.py")
    with open(path) as fd:
        tree = ast.parse(fd.read())
    for st in tree.body:
        if isinstance(st, ast.Assign) and any(isinstance(t, ast.Name) and t.id == "CONVERSION_TABLE" for t in st.targets):
            try:
                return fold_constant(st.value), st
            except Exception as exc:
                raise AnalysisError("CONVERSION_TABLE is not a literal: %s" % exc)
    raise AnalysisError("CONVERSION_TABLE not found")
