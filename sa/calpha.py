"""Alpha-alignment of local names in the generated C units (the C counterpart of sa/alpha.py).

The kernel rules read particular locals of the kernel template (`pd_value`, `step`, `weighted_form`, `local_values`,
`q_index` ...).  For every function of every generated unit the reference table (sa/refcshape.json, written by
tools/mkrefshape.py from the tree the rules were confirmed on) holds a digest of the function's clang AST with the
names of its parameters and local variables replaced by their index of first occurrence, together with the names in
that order.  When the current function has the same digest it is the reference function up to a bijection of local
names, and its locals are renamed, in the loaded AST, to the reference spellings before any rule reads it.  When the
digest differs nothing is renamed.  The table never decides a verdict.
"""
import hashlib
import json
import os

KEEP = ("kind", "opcode", "value", "isArrow", "isPostfix", "castKind", "valueCategory", "tagUsed", "storageClass", "inline")
_REF = None


def _ref():
    global _REF
    if _REF is None:
        p = os.path.join(os.path.dirname(os.path.abspath(__file__)), "refcshape.json")
        try:
            with open(p) as fd:
                _REF = json.load(fd)
        except (OSError, ValueError):
            _REF = {}
    return _REF


def _locals(fn):
    """ids of the parameters and local variables declared in fn, in order of appearance -> name"""
    out = {}
    stack = [fn]
    while stack:
        n = stack.pop()
        if not isinstance(n, dict):
            continue
        if n.get("kind") in ("ParmVarDecl", "VarDecl") and "id" in n and n.get("name"):
            out.setdefault(n["id"], n["name"])
        inner = n.get("inner")
        if inner:
            stack.extend(reversed(inner))
    return out


def shape(fn):
    """(digest, [local names in order of first occurrence])"""
    loc = _locals(fn)
    order = {}
    parts = []

    def idx(i):
        if i not in order:
            order[i] = len(order)
        return "$%d" % order[i]

    def ser(n):
        if not isinstance(n, dict):
            return
        parts.append("(")
        for k in KEEP:
            if k in n:
                parts.append("%s=%s;" % (k, n[k]))
        t = n.get("type")
        if isinstance(t, dict) and "qualType" in t:
            parts.append("T=%s;" % t["qualType"])
        kind = n.get("kind")
        if kind in ("ParmVarDecl", "VarDecl") and n.get("id") in loc:
            parts.append("N=%s;" % idx(n["id"]))
        elif kind == "DeclRefExpr":
            rd = n.get("referencedDecl", {})
            if rd.get("id") in loc:
                parts.append("R=%s;" % idx(rd["id"]))
            else:
                parts.append("R=%s;" % rd.get("name"))
        elif "name" in n and kind != "FunctionDecl":
            parts.append("N=%s;" % n["name"])
        for ch in n.get("inner", []) or []:
            ser(ch)
        parts.append(")")
    ser(fn)
    names = [loc[i] for i in sorted(order, key=order.get)]
    return hashlib.sha1("".join(parts).encode()).hexdigest(), names


def align(unit):
    """Rename, in place, the locals of every function of `unit` that is its reference up to local names."""
    ref = _ref().get(unit.name)
    if not ref:
        return 0
    n = 0
    for fname, fn in unit.functions.items():
        r = ref.get(fname)
        if not r or unit.body(fn) is None:
            continue
        digest, names = shape(fn)
        if digest != r[0] or names == r[1] or len(names) != len(r[1]):
            continue
        loc = _locals(fn)
        # ids in order of first occurrence (same traversal as shape)
        order = {}

        def visit(node):
            if not isinstance(node, dict):
                return
            kind = node.get("kind")
            if kind in ("ParmVarDecl", "VarDecl") and node.get("id") in loc:
                order.setdefault(node["id"], len(order))
            elif kind == "DeclRefExpr":
                rd = node.get("referencedDecl", {})
                if rd.get("id") in loc:
                    order.setdefault(rd["id"], len(order))
            for ch in node.get("inner", []) or []:
                visit(ch)
        visit(fn)
        new = {i: r[1][k] for i, k in order.items()}

        def rename(node):
            if not isinstance(node, dict):
                return
            kind = node.get("kind")
            if kind in ("ParmVarDecl", "VarDecl") and node.get("id") in new:
                node["name"] = new[node["id"]]
            elif kind == "DeclRefExpr":
                rd = node.get("referencedDecl", {})
                if rd.get("id") in new:
                    rd["name"] = new[rd["id"]]
            for ch in node.get("inner", []) or []:
                rename(ch)
        rename(fn)
        n += 1
    return n


def build_reference():
    """Shapes of every function with a body in every generated unit of the tree named by SASMODELS_REPO."""
    from . import cfront
    idx = cfront.generate_units()
    out = {}
    todo = sorted((name, meta["unit"], meta) for name, meta in idx["models"].items() if meta.get("kind") == "c")
    todo += sorted((name + "@opencl", meta["cl_unit"], dict(meta, config="opencl", name_override=name))
                   for name, meta in idx["models"].items() if meta.get("kind") == "c" and meta.get("cl_unit"))
    if idx.get("witness"):
        todo.append(("_reparam_witness", idx["witness"]["unit"], idx["witness"]))
    for name, path, meta in todo:
        unit = cfront.load_unit(name, path, meta, _align=False)
        tab = {}
        for fname, fn in unit.functions.items():
            if unit.body(fn) is None:
                continue
            d, names = shape(fn)
            if names:
                tab[fname] = [d, names]
        out[unit.name] = tab
    return out
