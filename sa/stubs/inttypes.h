/* declarations only: stub for static analysis of generated sasmodels units */
#ifndef _SA_INTTYPES_H
#define _SA_INTTYPES_H
typedef int int32_t;
typedef unsigned int uint32_t;
typedef long long int64_t;
typedef unsigned long long uint64_t;
typedef unsigned long size_t;
#endif
