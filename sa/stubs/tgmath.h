/* plain (non type-generic) declarations so that math calls appear as ordinary CallExpr */
#ifndef _SA_TGMATH_H
#define _SA_TGMATH_H
double sin(double); double cos(double); double tan(double);
double asin(double); double acos(double); double atan(double); double atan2(double,double);
double sinh(double); double cosh(double); double tanh(double);
double asinh(double); double acosh(double); double atanh(double);
double exp(double); double exp2(double); double expm1(double);
double log(double); double log10(double); double log2(double); double log1p(double);
double pow(double,double); double sqrt(double); double cbrt(double); double hypot(double,double);
double fabs(double); double floor(double); double ceil(double); double trunc(double); double round(double); double rint(double);
double fmin(double,double); double fmax(double,double); double fmod(double,double);
double erf(double); double erfc(double); double tgamma(double); double lgamma(double);
double copysign(double,double); double ldexp(double,int); double frexp(double,int*);
double nextafter(double,double); double fma(double,double,double); double modf(double,double*);
int abs(int);
#define isnan(x) __builtin_isnan(x)
#define isinf(x) __builtin_isinf(x)
#define isfinite(x) __builtin_isfinite(x)
#define NAN (__builtin_nanf(""))
#define INFINITY (__builtin_inff())
#endif
