#ifndef _SA_STDIO_H
#define _SA_STDIO_H
int printf(const char *fmt, ...);
#define NULL ((void*)0)
#endif
