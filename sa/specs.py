"""Reference folds: the documented behaviour of a few central functions, written in the library's own notation.

Each entry is compared with the current function by value numbering (sa/pyval.py): names of temporaries, statement
splitting, ordering of independent statements, logging and comments do not matter; the folded value does.
`what`: "ret" compares the returned value; `keys` lists attributes / names whose final value is compared;
`facts` fixes branch tests (documented preconditions).  `props` lists the properties whose check includes the entry.
"""

SPECS = {
    "pinhole_resolution": dict(
        mod="resolution", qual="pinhole_resolution", props=("C03", "C04"),
        doc="W = column-normalised Gaussian bin masses over bin_edges(q_calc), truncated to [q - n_lo sigma, q + n_hi sigma]",
        what=("ret",), text='''
            edges = bin_edges(q_calc)
            cdf = erf((edges[:, None] - q[None, :]) / (sqrt(2.0)*q_width)[None, :])
            weights = cdf[1:] - cdf[:-1]
            try:
                nsigma_low, nsigma_high = nsigma
            except TypeError:
                nsigma_low = nsigma_high = nsigma
            weights[q_calc[:, None] < (q - nsigma_low*q_width)[None, :]] = 0.
            weights[q_calc[:, None] > (q + nsigma_high*q_width)[None, :]] = 0.
            weights /= np.sum(weights, axis=0)[None, :]
            return weights
        '''),
    "_q_perp_weights": dict(
        mod="resolution", qual="_q_perp_weights", props=("C03", "C04"),
        doc="slit bins in u = sqrt(q'^2 - q^2), clipped to [0, w], weight delta(u)/w",
        what=("ret",), text='''
            u2 = q_edges**2 - qi**2
            u2[q_edges < abs(qi)] = 0.
            u2[q_edges > sqrt(qi**2 + w**2)] = w**2
            return np.diff(np.sqrt(u2))/w
        '''),
    "apply_resolution_matrix": dict(
        mod="resolution", qual="apply_resolution_matrix", props=("C03",),
        doc="smeared = W . theory", what=("ret",), text='''
            Iq = np.dot(theory[None, :], weight_matrix)
            return Iq.flatten()
        '''),
    "_calc_theory": dict(
        mod="direct_model", qual="DataMixin._calc_theory", props=("C03", "C10", "C19"),
        doc="theory = resolution.apply(kernel(pars with background 0)) + background (0 for SESANS)",
        what=("ret",), keys=("self._kernel",), text='''
            if self._kernel is None:
                kernel_inputs = self.resolution.q_calc
                if isinstance(kernel_inputs, np.ndarray):
                    kernel_inputs = (kernel_inputs,)
                self._kernel = self._model.make_kernel(kernel_inputs)
            background = (pars.get('background', self._model.info.parameters.common_parameters[1].default)
                          if self.data_type != 'sesans' else 0.)
            pars = pars.copy()
            pars['background'] = 0.
            Iq_calc = call_kernel(self._kernel, pars, cutoff=cutoff)
            return self.resolution.apply(Iq_calc) + background
        '''),
    "call_kernel": dict(
        mod="direct_model", qual="call_kernel", props=("C01", "C10"),
        doc="kernel(details, values of the mesh of pars, cutoff, magnetic)", what=("ret",), text='''
            mesh = get_mesh(calculator.info, pars, dim=calculator.dim, mono=mono)
            call_details, values, is_magnetic = make_kernel_args(calculator, mesh)
            return calculator(call_details, values, cutoff, is_magnetic)
        '''),
    "call_Fq": dict(
        mod="direct_model", qual="call_Fq", props=("C14", "C11"),
        doc="kernel.Fq on the mesh of a private copy of pars, with the effective-radius mode taken from that copy",
        what=("ret",), text='''
            pars = pars.copy()
            R_eff_type = int(pars.pop(RADIUS_MODE_ID, 1.0))
            mesh = get_mesh(calculator.info, pars, dim=calculator.dim, mono=mono)
            call_details, values, is_magnetic = make_kernel_args(calculator, mesh)
            return calculator.Fq(call_details, values, cutoff, is_magnetic, R_eff_type)
        '''),
    "sesans_apply": dict(
        mod="sesans", qual="SesansTransform.apply", props=("C19",),
        doc="G(z) - G(0) = H^T I - H0 . I", what=("ret",), text='''
            G0 = np.dot(self._H0, Iq)
            G = np.dot(self._H.T, Iq)
            return G - G0
        '''),
    "mixture_init": dict(
        mod="mixture", qual="MixtureKernel.__init__", props=("C08",),
        doc="the mixture kernel takes dimension and precision from its first component",
        what=(), keys=("self.dim", "self.dtype", "self.kernels", "self.info", "self.operation"), text='''
            self.dim = kernels[0].dim
            self.info = model_info
            self.q = q
            self.kernels = kernels
            self.dtype = self.kernels[0].dtype
            self.operation = model_info.operation
        '''),
}
