"""Role-based readings of a few central Python functions (independent of local variable names)."""
import ast
import sympy as sp
from .report import AnalysisError
from . import pyfacts as pf
from . import nf
from .layout import affine


def kernel_fq():
    """Symbolic reading of kernel.Kernel.Fq.

    Returns dict(ret=[5 sympy expressions in slot symbols R0..R3, RF1, RF2 and guard symbols],
                 guards=[(guard symbol, guarded expression, If node)], fn=FunctionDef, nout=IfExp text)
    Slot k means result[nout*nq + k]; RF2/RF1 are the strided q blocks starting at 0/1.
    """
    mod = pf.lib("kernel")
    fn = mod.func("Kernel.Fq")
    N, Q = sp.Symbol("nout", positive=True, integer=True), sp.Symbol("nq", positive=True, integer=True)
    lay = {"nout": N, "self.q_input.nq": Q}

    class T(ast.NodeTransformer):
        def visit_Subscript(self, n):
            self.generic_visit(n)
            if pf.unparse(n.value) != "self.result":
                return n
            sl = n.slice
            if isinstance(sl, ast.Slice):
                lo = affine(sl.lower, lay) if sl.lower else sp.Integer(0)
                hi = affine(sl.upper, lay) if sl.upper else None
                st = affine(sl.step, lay) if sl.step else sp.Integer(1)
                if hi is not None and sp.simplify(hi - N * Q) == 0 and sp.simplify(st - N) == 0 and lo in (0, 1):
                    return ast.Name("RF2" if lo == 0 else "RF1", ast.Load())
                raise AnalysisError("Kernel.Fq: unexpected slice of the result buffer: %s" % pf.unparse(n))
            k = sp.simplify(affine(sl, lay) - N * Q)
            if not k.is_Integer:
                raise AnalysisError("Kernel.Fq: result index %s is not nout*nq + const" % pf.unparse(sl))
            return ast.Name("R%d" % int(k), ast.Load())
    import copy
    # locals that name layout quantities (nq = self.q_input.nq, base = nout*nq, ...) take part in the index algebra
    for st0 in fn.body:
        if isinstance(st0, ast.Assign) and len(st0.targets) == 1 and isinstance(st0.targets[0], ast.Name) \
                and not isinstance(st0.value, ast.IfExp):
            try:
                lay[st0.targets[0].id] = affine(st0.value, lay)
            except Exception:
                pass
    env = {}
    guards = []
    nout_text = None
    for st0 in fn.body:
        st = T().visit(copy.deepcopy(st0))
        if isinstance(st, ast.Assign) and isinstance(st.targets[0], ast.Name):
            name = st.targets[0].id
            v = st.value
            if name == "nout" or (isinstance(v, ast.IfExp) and "have_Fq" in pf.unparse(v)):
                nout_text = pf.unparse(v)
                env[name] = N
                continue
            if isinstance(v, ast.IfExp) and pf.unparse(v.orelse) == "None":
                v = v.body
            env[name] = nf.py_expr(v, env)
        elif isinstance(st, ast.If) and isinstance(st.test, ast.Compare) and isinstance(st.test.ops[0], ast.Eq) \
                and pf.const_value(st.test.comparators[0]) == 0 and isinstance(st.test.left, ast.Name) and len(st.body) == 1 \
                and isinstance(st.body[0], ast.Assign) and pf.unparse(st.body[0].targets[0]) == st.test.left.id \
                and pf.const_value(st.body[0].value) == 1:
            name = st.test.left.id
            g = nf.sym("guard%d" % len(guards))
            guards.append((g, env.get(name), st0))
            env[name] = g
        elif isinstance(st, ast.Return):
            if not isinstance(st.value, ast.Tuple):
                raise AnalysisError("Kernel.Fq: return is not a tuple")
            ret = [nf.py_expr(e, env) for e in st.value.elts]
            return {"ret": ret, "guards": guards, "fn": fn, "nout": nout_text, "return": st0}
    raise AnalysisError("Kernel.Fq: no return")


def accumulator_of(fn, loop):
    """Names written inside `loop` and read by the function's last return: the loop's accumulators."""
    rets = [s for s in pf.walk_stmts(fn) if isinstance(s, ast.Return) and s.value is not None]
    if not rets:
        return set()
    written = set()
    for st in pf.walk_stmts(ast.Module(body=loop.body, type_ignores=[])):
        written |= pf.assigned_names(st)
    return written & pf.names_in(rets[-1].value)
