"""E-rx: regular-expression automata.

Patterns are parsed with the standard library's own parser (`re._parser`),
never executed.  Supported nodes: LITERAL, NOT_LITERAL, IN (LITERAL, RANGE,
CATEGORY, NEGATE), ANY, BRANCH, SUBPATTERN, MAX/MIN_REPEAT.  Zero-width nodes
(AT, ASSERT, ASSERT_NOT) are split off by `split_context` when they sit at the
ends of the pattern; anywhere else they are an AnalysisError.

Alphabet: ASCII 0..127 plus two representatives for non-ASCII characters
(128 = word character, 129 = non-word character).
"""
import re
try:
    import re._parser as sre_parse
    import re._constants as sre_c
except ImportError:   # python < 3.11
    import sre_parse
    import sre_constants as sre_c
from .report import AnalysisError

NSYM = 130
WORD = frozenset([c for c in range(128) if chr(c).isalnum() or chr(c) == "_"] + [128])
DIGIT = frozenset(range(ord("0"), ord("9") + 1))
SPACE = frozenset(ord(c) for c in " \t\n\r\f\v")
ALL = frozenset(range(NSYM))


def parse(pattern, flags=0):
    return sre_parse.parse(pattern, flags)


def _category(cat):
    name = str(cat)
    if name.endswith("CATEGORY_WORD"): return WORD
    if name.endswith("CATEGORY_NOT_WORD"): return ALL - WORD
    if name.endswith("CATEGORY_DIGIT"): return DIGIT
    if name.endswith("CATEGORY_NOT_DIGIT"): return ALL - DIGIT
    if name.endswith("CATEGORY_SPACE"): return SPACE
    if name.endswith("CATEGORY_NOT_SPACE"): return ALL - SPACE
    raise AnalysisError("rx: category %s" % name)


def charset(op, av):
    """Set of symbols matched by a single-character node."""
    name = str(op)
    if name == "LITERAL":
        return frozenset([av if av < 128 else 128])
    if name == "NOT_LITERAL":
        return ALL - frozenset([av if av < 128 else 128])
    if name == "ANY":
        return ALL - frozenset([ord("\n")])
    if name == "IN":
        neg = False
        s = set()
        for o, a in av:
            on = str(o)
            if on == "NEGATE":
                neg = True
            elif on == "LITERAL":
                s.add(a if a < 128 else 128)
            elif on == "RANGE":
                s.update(range(a[0], min(a[1], 127) + 1))
            elif on == "CATEGORY":
                s |= _category(a)
            else:
                raise AnalysisError("rx: set member %s" % on)
        return (ALL - frozenset(s)) if neg else frozenset(s)
    return None


class NFA:
    def __init__(self):
        self.n = 0
        self.eps = {}
        self.trans = {}     # state -> list of (frozenset symbols, target)
        self.start = None
        self.accept = None

    def new(self):
        self.n += 1
        return self.n - 1

    def add_eps(self, a, b):
        self.eps.setdefault(a, set()).add(b)

    def add(self, a, syms, b):
        self.trans.setdefault(a, []).append((syms, b))


def _build(nfa, items, s):
    """Thompson construction for a sequence; returns end state."""
    for op, av in items:
        name = str(op)
        cs = charset(op, av)
        if cs is not None:
            t = nfa.new()
            nfa.add(s, cs, t)
            s = t
        elif name == "SUBPATTERN":
            s = _build(nfa, av[3] if len(av) > 3 else av[1], s)
        elif name == "BRANCH":
            end = nfa.new()
            for alt in av[1]:
                a = nfa.new()
                nfa.add_eps(s, a)
                e = _build(nfa, alt, a)
                nfa.add_eps(e, end)
            s = end
        elif name in ("MAX_REPEAT", "MIN_REPEAT", "POSSESSIVE_REPEAT"):
            lo, hi, sub = av
            for _ in range(lo):
                s = _build(nfa, sub, s)
            if hi == sre_c.MAXREPEAT:
                a = nfa.new()
                nfa.add_eps(s, a)
                e = _build(nfa, sub, a)
                nfa.add_eps(e, a)
                s = a
            else:
                end = nfa.new()
                nfa.add_eps(s, end)
                for _ in range(hi - lo):
                    s = _build(nfa, sub, s)
                    nfa.add_eps(s, end)
                s = end
        elif name in ("AT", "ASSERT", "ASSERT_NOT"):
            raise AnalysisError("rx: zero-width node %s inside the pattern body" % name)
        else:
            raise AnalysisError("rx: unsupported node %s" % name)
    return s


def nfa_of(items):
    nfa = NFA()
    nfa.start = nfa.new()
    nfa.accept = _build(nfa, list(items), nfa.start)
    return nfa


class DFA:
    def __init__(self, nfa):
        self.nfa = nfa
        start = self._closure({nfa.start})
        self.states = {start: 0}
        self.table = []
        self.accepting = []
        work = [start]
        while work:
            S = work.pop()
            i = self.states[S]
            while len(self.table) <= i:
                self.table.append(None)
                self.accepting.append(False)
            row = [None] * NSYM
            self.accepting[i] = nfa.accept in S
            moves = {}
            for q in S:
                for syms, t in nfa.trans.get(q, []):
                    for c in syms:
                        moves.setdefault(c, set()).add(t)
            cache = {}
            for c, T in moves.items():
                key = frozenset(T)
                if key not in cache:
                    cache[key] = self._closure(T)
                U = cache[key]
                if U not in self.states:
                    self.states[U] = len(self.states)
                    work.append(U)
                row[c] = self.states[U]
            self.table[i] = row
        # live states: can reach accept
        n = len(self.table)
        rev = [set() for _ in range(n)]
        for i, row in enumerate(self.table):
            for t in row:
                if t is not None:
                    rev[t].add(i)
        live = set(i for i in range(n) if self.accepting[i])
        stack = list(live)
        while stack:
            x = stack.pop()
            for p in rev[x]:
                if p not in live:
                    live.add(p)
                    stack.append(p)
        self.live = live

    def _closure(self, S):
        S = set(S)
        stack = list(S)
        while stack:
            q = stack.pop()
            for t in self.nfa.eps.get(q, ()):
                if t not in S:
                    S.add(t)
                    stack.append(t)
        return frozenset(S)

    def step(self, i, c):
        return None if i is None else self.table[i][c]

    def accepts(self, s):
        i = 0
        for ch in s:
            c = ord(ch) if ord(ch) < 128 else 128
            i = self.step(i, c)
            if i is None:
                return False
        return self.accepting[i]


def difference_witness(A, B, maxlen=40):
    """Shortest string in L(A) \\ L(B), or None."""
    from collections import deque
    seen = {(0, 0)}
    q = deque([((0, 0), "")])
    while q:
        (a, b), w = q.popleft()
        if A.accepting[a] and not (b is not None and B.accepting[b]):
            return w
        if len(w) >= maxlen:
            continue
        for c in range(NSYM):
            na = A.table[a][c]
            if na is None or na not in A.live:
                continue
            nb = B.table[b][c] if b is not None else None
            key = (na, nb)
            if key not in seen:
                seen.add(key)
                ch = chr(c) if c < 128 else ("é" if c == 128 else "§")
                q.append((key, w + ch))
    return None


def equivalent(A, B):
    return difference_witness(A, B), difference_witness(B, A)


def finite_language(items, limit=5000):
    """Enumerate the (finite) language of a sub-pattern made of literals, small sets,
    branches, groups and bounded repeats."""
    langs = [""]
    for op, av in items:
        name = str(op)
        cs = charset(op, av)
        if cs is not None:
            if len(cs) > 16:
                raise AnalysisError("rx: finite_language over a large set")
            step = [chr(c) for c in sorted(cs)]
        elif name == "SUBPATTERN":
            step = finite_language(av[3] if len(av) > 3 else av[1], limit)
        elif name == "BRANCH":
            step = []
            for alt in av[1]:
                step.extend(finite_language(alt, limit))
        elif name in ("MAX_REPEAT", "MIN_REPEAT"):
            lo, hi, sub = av
            if hi == sre_c.MAXREPEAT:
                raise AnalysisError("rx: unbounded repeat in finite_language")
            base = finite_language(sub, limit)
            step = []
            for k in range(lo, hi + 1):
                cur = [""]
                for _ in range(k):
                    cur = [x + y for x in cur for y in base]
                step.extend(cur)
        else:
            raise AnalysisError("rx: node %s in finite_language" % name)
        langs = [x + y for x in langs for y in step]
        if len(langs) > limit:
            raise AnalysisError("rx: finite language too large")
    return sorted(set(langs))


def split_context(items):
    """Split zero-width nodes off both ends: (left assertions, body, right assertions)."""
    items = list(items)
    left, right = [], []
    while items and str(items[0][0]) in ("AT", "ASSERT", "ASSERT_NOT"):
        left.append(items.pop(0))
    while items and str(items[-1][0]) in ("AT", "ASSERT", "ASSERT_NOT"):
        right.insert(0, items.pop())
    return left, items, right


def describe_assert(node):
    """(kind, direction, charset) for a one-character look-around; kind in 'not'/'is'/'at'."""
    op, av = node
    name = str(op)
    if name == "AT":
        return ("at", str(av), None)
    direction, sub = av
    sub = list(sub)
    if len(sub) == 1:
        cs = charset(*sub[0])
        if cs is not None:
            return ("not" if name == "ASSERT_NOT" else "is", direction, cs)
    return ("not" if name == "ASSERT_NOT" else "is", direction, None)
