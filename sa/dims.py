"""E-dim: homogeneity (units) type system over the clang JSON AST of model code.

Degree = (length exponent, SLD exponent) as Fractions.  `None` = unknown,
POLY = the literal zero (compatible with any degree).  Every arithmetic node is
typed; a *definite* mismatch (two known, different degrees in an additive or
assignment context, a dimensioned argument to a transcendental function, two
returns of different degree) is recorded as a complaint.  Helper functions are
typed per call context (memoised on argument degrees).
"""
from fractions import Fraction as Fr
from .nf import c_text, c_strip, c_callee
from .cfront import walk
from .ckernel import kids, norm

POLY = "poly"
ZERO = (Fr(0), Fr(0))
TRANSCENDENTAL = {"sin", "cos", "tan", "asin", "acos", "atan", "sinh", "cosh", "tanh", "exp", "expm1", "log", "log10", "log1p",
                  "log2", "exp2", "erf", "erfc", "tgamma", "lgamma", "sas_sinx_x", "sas_3j1x_x", "sas_2J1x_x", "sas_J0", "sas_J1",
                  "sas_JN", "sas_erf", "sas_erfc", "sas_Si", "sas_gamma", "sas_gammaln", "sas_gammainc", "sas_gammaincc",
                  "sas_J1c", "sph_j1c", "sas_cos", "sas_sin", "sas_Ci", "asinh", "acosh", "atanh", "j0", "j1", "jn"}
PRESERVE = {"fabs", "fmin", "fmax", "floor", "ceil", "trunc", "round", "rint", "copysign", "fmod"}
UNIT_DEGREES = {
    "Ang": (Fr(1), Fr(0)), "Ang^2": (Fr(2), Fr(0)), "Ang^3": (Fr(3), Fr(0)), "1/Ang": (Fr(-1), Fr(0)), "1/Ang^2": (Fr(-2), Fr(0)),
    "1/Ang^3": (Fr(-3), Fr(0)), "Ang^-1": (Fr(-1), Fr(0)), "1e-6/Ang^2": (Fr(0), Fr(1)),
    "degrees": ZERO, "degree": ZERO, "": ZERO, "None": ZERO, None: ZERO, "rad": ZERO, "radians": ZERO,
}


def unit_degree(u):
    return UNIT_DEGREES.get(u, "out-of-scope")


def fmt(d):
    if d is None:
        return "?"
    if d == POLY:
        return "0*"
    l, s = d
    parts = []
    if l:
        parts.append("L^%s" % l)
    if s:
        parts.append("S^%s" % s)
    return " ".join(parts) if parts else "1"


def add(a, b):
    if a in (None,) or b in (None,):
        return None
    if a == POLY:
        return POLY if b == POLY else POLY
    if b == POLY:
        return POLY
    return (a[0] + b[0], a[1] + b[1])


def sub(a, b):
    if a is None or b is None:
        return None
    if a == POLY:
        return POLY
    if b == POLY:
        return None          # division by literal zero: undefined
    return (a[0] - b[0], a[1] - b[1])


def scale(a, k):
    if a is None or a == POLY:
        return a
    return (a[0] * k, a[1] * k)


def known(d):
    return d is not None and d != POLY


class Typer:
    def __init__(self, unit):
        self.unit = unit
        self.complaints = []       # (kind, function, expression text, detail, line, file)
        self.memo = {}
        self.stack = []
        self.unanalysed = set()
        self.nodes = 0
        self.peak = {}
        self.globals = {}
        for d in unit.ast.get("inner", []):
            if d.get("kind") == "VarDecl":
                self.globals[d["name"]] = ZERO       # constant tables (Gauss points, polynomial coefficients)

    def complain(self, kind, fn, node, detail):
        file, line = self.unit.where(node)
        self.complaints.append((kind, fn, c_text(node)[:140], detail, line, file))

    # ------------------------------------------------------------------
    def call(self, name, argdegs):
        """-> (return degree, {out param index: degree})"""
        key = (name, tuple(argdegs))
        if key in self.memo:
            return self.memo[key]
        fn = self.unit.functions.get(name)
        body = self.unit.body(fn) if fn is not None else None
        if body is None or name in self.stack or len(self.stack) > 12:
            return (None, {})
        self.memo[key] = (None, {})
        self.stack.append(name)
        params = self.unit.params(fn)
        env = {}
        ptr_params = {}
        for i, p in enumerate(params):
            d = argdegs[i] if i < len(argdegs) else None
            qt = p["type"]["qualType"]
            if "*" in qt or "[" in qt:
                ptr_params[p["name"]] = i
                env[p["name"]] = d if d is not None else POLY
            else:
                env[p["name"]] = d
        ctx = {"fn": name, "returns": [], "env": env}
        try:
            self.stmt(body, env, ctx)
        except RecursionError:
            self.unanalysed.add(name)
        rets = [r for r in ctx["returns"] if known(r[0])]
        ret = None
        if rets:
            ret = rets[0][0]
            for d, node in rets[1:]:
                if d != ret:
                    self.complain("return", name, node, "returns %s here but %s elsewhere" % (fmt(d), fmt(ret)))
        elif ctx["returns"] and all(r[0] == POLY for r in ctx["returns"]):
            ret = POLY
        outs = {i: env.get(pn) for pn, i in ptr_params.items() if known(env.get(pn))}
        self.stack.pop()
        self.memo[key] = (ret, outs)
        return ret, outs

    # ------------------------------------------------------------------
    def assign_var(self, name, d, env, ctx, node, strict=True):
        # a plain reassignment simply gives the variable its new degree (f2 = f2/x/x is legitimate reuse)
        old = env.get(name)
        if d is not None and not (d == POLY and known(old)):
            env[name] = d
        elif name not in env:
            env[name] = d

    def lvalue_name(self, n):
        n = c_strip(n)
        k = n.get("kind")
        if k == "DeclRefExpr":
            return n["referencedDecl"]["name"]
        if k == "ArraySubscriptExpr":
            return self.lvalue_name(kids(n)[0])
        if k == "UnaryOperator" and n.get("opcode") == "*":
            return self.lvalue_name(kids(n)[0])
        if k == "MemberExpr":
            base = self.lvalue_name(kids(n)[0])
            return "%s.%s" % (base, n["name"]) if base else None
        return None

    def expr(self, n, env, ctx):
        d = self._expr(n, env, ctx)
        # the highest length degree any intermediate value reaches, per entry function (float range headroom)
        if known(d) and self.stack and n.get("kind") in ("BinaryOperator", "CompoundAssignOperator", "CallExpr"):
            top = self.stack[0]
            if top not in self.peak or d[0] > self.peak[top][0]:
                file, line = self.unit.where(n)
                self.peak[top] = (d[0], d[1], c_text(n)[:120], line, file, ctx["fn"])
        return d

    def _expr(self, n, env, ctx):
        self.nodes += 1
        k = n.get("kind")
        if k in ("ImplicitCastExpr", "ParenExpr", "CStyleCastExpr", "ConstantExpr"):
            return self.expr(kids(n)[0], env, ctx)
        if k == "IntegerLiteral":
            return POLY if int(n["value"]) == 0 else ZERO
        if k == "FloatingLiteral":
            return POLY if float(n["value"]) == 0.0 else ZERO
        if k in ("CharacterLiteral", "StringLiteral"):
            return ZERO
        if k == "DeclRefExpr":
            name = n["referencedDecl"]["name"]
            if name in env:
                return env[name]
            if name in self.globals:
                return self.globals[name]
            qt = (n.get("type") or {}).get("qualType", "")
            if "int" in qt and "*" not in qt:
                return ZERO
            return None
        if k == "ArraySubscriptExpr":
            self.expr(kids(n)[1], env, ctx)
            return self.expr(kids(n)[0], env, ctx)
        if k == "MemberExpr":
            name = self.lvalue_name(n)
            return env.get(name) if name else None
        if k == "UnaryOperator":
            op = n.get("opcode")
            d = self.expr(kids(n)[0], env, ctx)
            if op in ("-", "+", "++", "--"):
                return d
            if op == "!":
                return ZERO
            if op == "&":
                return d
            if op == "*":
                return d
            return None
        if k == "BinaryOperator":
            op = n.get("opcode")
            a, b = kids(n)
            if op == "=":
                d = self.expr(b, env, ctx)
                name = self.lvalue_name(a)
                if name:
                    self.assign_var(name, d, env, ctx, n)
                return d
            if op == ",":
                self.expr(a, env, ctx)
                return self.expr(b, env, ctx)
            da, db = self.expr(a, env, ctx), self.expr(b, env, ctx)
            if op in ("+", "-"):
                if known(da) and known(db) and da != db:
                    self.complain("additive", ctx["fn"], n, "%s %s %s" % (fmt(da), op, fmt(db)))
                    return None
                if known(da):
                    return da
                if known(db):
                    return db
                if da == POLY and db == POLY:
                    return POLY
                return None
            if op == "*":
                return add(da, db)
            if op == "/":
                return sub(da, db)
            if op in ("<", ">", "<=", ">=", "==", "!=", "&&", "||"):
                return ZERO
            if op == "%":
                return da
            return None
        if k == "CompoundAssignOperator":
            op = n.get("opcode")
            a, b = kids(n)
            name = self.lvalue_name(a)
            da, db = self.expr(a, env, ctx), self.expr(b, env, ctx)
            if op in ("+=", "-="):
                if known(da) and known(db) and da != db:
                    self.complain("additive", ctx["fn"], n, "%s %s %s" % (fmt(da), op, fmt(db)))
                    return None
                res = da if known(da) else db
            elif op == "*=":
                res = add(da, db) if da != POLY else POLY
            elif op == "/=":
                res = sub(da, db)
            else:
                res = da
            if name and res is not None:
                env[name] = res if not (res == POLY and known(env.get(name))) else env[name]
            return res
        if k == "ConditionalOperator":
            c, a, b = kids(n)
            self.expr(c, env, ctx)
            da, db = self.expr(a, env, ctx), self.expr(b, env, ctx)
            if known(da) and known(db) and da != db:
                self.complain("branches", ctx["fn"], n, "%s : %s" % (fmt(da), fmt(db)))
                return None
            return da if known(da) else (db if known(db) else (POLY if da == POLY and db == POLY else None))
        if k == "CallExpr":
            name = c_callee(n)
            args = kids(n)[1:]
            degs = [self.expr(a, env, ctx) for a in args]
            if name == "sqrt":
                return scale(degs[0], Fr(1, 2))
            if name == "cbrt":
                return scale(degs[0], Fr(1, 3))
            if name == "square":
                return scale(degs[0], 2)
            if name == "cube":
                return scale(degs[0], 3)
            if name in ("pow", "powr", "pown"):
                ex = c_strip(args[1])
                neg = False
                if ex.get("kind") == "UnaryOperator" and ex.get("opcode") == "-":
                    neg = True
                    ex = c_strip(kids(ex)[0])
                if ex.get("kind") in ("IntegerLiteral", "FloatingLiteral"):
                    v = Fr(str(float(ex["value"]))).limit_denominator(64)
                    return scale(degs[0], -v if neg else v)
                if degs[0] == ZERO:
                    return ZERO
                if known(degs[0]):
                    self.complain("transcendental", ctx["fn"], n, "pow of %s with a non-constant exponent" % fmt(degs[0]))
                return None
            if name == "hypot":
                return degs[0] if known(degs[0]) else degs[1]
            if name in PRESERVE:
                ks = [d for d in degs if known(d)]
                if name in ("fmin", "fmax", "copysign", "fmod") and len(ks) == 2 and ks[0] != ks[1] and name != "copysign":
                    self.complain("additive", ctx["fn"], n, "%s(%s, %s)" % (name, fmt(ks[0]), fmt(ks[1])))
                    return None
                return ks[0] if ks else (POLY if degs and all(d == POLY for d in degs) else None)
            if name == "atan2":
                if known(degs[0]) and known(degs[1]) and degs[0] != degs[1]:
                    self.complain("additive", ctx["fn"], n, "atan2(%s, %s)" % (fmt(degs[0]), fmt(degs[1])))
                return ZERO
            if name in TRANSCENDENTAL or (name or "").startswith(("sas_", "cephes_")):
                fnode = self.unit.functions.get(name)
                for a, d in zip(args, degs[:1] if name not in ("sas_JN", "jn") else degs[1:2]):
                    if known(d) and d != ZERO:
                        self.complain("transcendental", ctx["fn"], n, "argument of %s has degree %s" % (name, fmt(d)))
                return ZERO
            if name in ("isnan", "isinf", "isfinite", "__builtin_isnan", "__builtin_isinf", "__builtin_isfinite", "printf", "abs"):
                return ZERO
            if name in self.unit.functions and self.unit.body(self.unit.functions[name]) is not None:
                ret, outs = self.call(name, degs)
                for i, d in outs.items():
                    if i < len(args):
                        nm = self.lvalue_name(args[i])
                        if nm:
                            self.assign_var(nm, d, env, ctx, n, strict=False)
                return ret
            return None
        if k == "InitListExpr":
            ds = [self.expr(x, env, ctx) for x in kids(n)]
            ks = [d for d in ds if known(d)]
            return ks[0] if ks else (ZERO if ds else None)
        if k in ("UnaryExprOrTypeTraitExpr",):
            return ZERO
        return None

    # ------------------------------------------------------------------
    def stmt(self, st, env, ctx):
        k = st.get("kind")
        if k == "CompoundStmt":
            for s in kids(st):
                self.stmt(s, env, ctx)
        elif k == "DeclStmt":
            for d in kids(st):
                if d.get("kind") == "VarDecl":
                    init = [x for x in kids(d)]
                    qt = d["type"]["qualType"]
                    if init:
                        dv = self.expr(init[0], env, ctx)
                        env[d["name"]] = dv
                    elif "int" in qt and "*" not in qt and "[" not in qt:
                        env[d["name"]] = ZERO
                    else:
                        env[d["name"]] = POLY
        elif k == "ReturnStmt":
            if kids(st):
                ctx["returns"].append((self.expr(kids(st)[0], env, ctx), st))
        elif k == "IfStmt":
            ks = kids(st)
            self.expr(ks[0], env, ctx)
            for s in ks[1:]:
                self.stmt(s, env, ctx)
        elif k in ("ForStmt", "WhileStmt", "DoStmt"):
            parts = [x for x in st.get("inner", []) if isinstance(x, dict) and x.get("kind")]
            for _ in range(2):     # second pass lets accumulators reach their degree
                for p in parts:
                    if p.get("kind", "").endswith("Stmt"):
                        self.stmt(p, env, ctx)
                    else:
                        self.expr(p, env, ctx)
        elif k == "SwitchStmt":
            ks = kids(st)
            self.expr(ks[0], env, ctx)
            for s in ks[1:]:
                self.stmt(s, env, ctx)
        elif k in ("CaseStmt", "DefaultStmt"):
            for s in kids(st):
                if s.get("kind", "").endswith("Stmt"):
                    self.stmt(s, env, ctx)
                elif s.get("kind") not in ("ConstantExpr", "IntegerLiteral"):
                    self.expr(s, env, ctx)
        elif k in ("BreakStmt", "ContinueStmt", "NullStmt"):
            pass
        elif k and (k.endswith("Operator") or k.endswith("Expr")):
            self.expr(st, env, ctx)
        elif k and k.endswith("Stmt"):
            for s in kids(st):
                if s.get("kind", "").endswith("Stmt"):
                    self.stmt(s, env, ctx)
